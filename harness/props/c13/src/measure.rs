//! generator effectiveness, measured on the real engine at generation time and reported through
//! `ctx.stats` (evidence): how often results are non-empty, how many rows flow *into* each algebra
//! operator, how often rows have different domains, how often DISTINCT removes something.
use crate::{run_on, Outcome};
use sophia_inmem::dataset::LightDataset;
use spargebra::algebra::GraphPattern;
use spargebra::term::{NamedNodePattern, Variable};
use spargebra::Query;
use vhcore::util::Stats;

pub struct RowInfo {
    pub n: usize,
    /// at least two rows bind different sets of variables
    pub hetero: bool,
}

fn wrap(ctx: &[NamedNodePattern], p: &GraphPattern) -> GraphPattern {
    let mut out = p.clone();
    for name in ctx.iter().rev() {
        out = GraphPattern::Graph { name: name.clone(), inner: Box::new(out) };
    }
    out
}

/// the rows of `p` evaluated under the enclosing GRAPH clauses `ctx`, all in-scope variables projected
pub fn rows_of(ds: &LightDataset, ctx: &[NamedNodePattern], p: &GraphPattern) -> Option<RowInfo> {
    let w = wrap(ctx, p);
    let mut vars: Vec<Variable> = vec![];
    w.on_in_scope_variable(|v| {
        if !vars.contains(v) {
            vars.push(v.clone())
        }
    });
    let q = Query::Select { dataset: None, pattern: GraphPattern::Project { inner: Box::new(w), variables: vars }, base_iri: None };
    match run_on(ds, &q) {
        Outcome::Rows(_, rows, masks) => {
            let hetero = masks.iter().any(|m| *m != masks[0]);
            Some(RowInfo { n: rows.len(), hetero })
        }
        _ => None,
    }
}

fn bump_flow(stats: &mut Stats, op: &str, n: Option<RowInfo>) {
    stats.bump(&format!("flow.{}.total", op));
    if let Some(i) = n {
        if i.n >= 1 {
            stats.bump(&format!("flow.{}.in_ge1", op));
        }
        if i.n >= 2 {
            stats.bump(&format!("flow.{}.in_ge2", op));
        }
        if i.hetero {
            stats.bump(&format!("flow.{}.in_hetero", op));
        }
    }
}

fn walk(stats: &mut Stats, ds: &LightDataset, ctx: &mut Vec<NamedNodePattern>, p: &GraphPattern) {
    use GraphPattern::*;
    match p {
        Bgp { patterns } => {
            // output rows of the BGP itself (its "input" is the active graph)
            let op = format!("bgp{}", patterns.len().min(4));
            bump_flow(stats, &op, rows_of(ds, ctx, p));
        }
        Filter { inner, .. } => {
            bump_flow(stats, "filter", rows_of(ds, ctx, inner));
            // how selective: does the filter keep some and drop some?
            if let (Some(a), Some(b)) = (rows_of(ds, ctx, inner), rows_of(ds, ctx, p)) {
                if b.n > 0 && b.n < a.n {
                    stats.bump("flow.filter.keeps_some_drops_some");
                }
            }
            walk(stats, ds, ctx, inner);
        }
        Union { left, right } => {
            let l = rows_of(ds, ctx, left);
            let r = rows_of(ds, ctx, right);
            if let (Some(l), Some(r)) = (&l, &r) {
                if l.n > 0 && r.n > 0 {
                    stats.bump("flow.union.both_sides_nonempty");
                }
            }
            bump_flow(stats, "union", rows_of(ds, ctx, p));
            walk(stats, ds, ctx, left);
            walk(stats, ds, ctx, right);
        }
        Graph { name, inner } => {
            let op = if matches!(name, NamedNodePattern::Variable(_)) { "graph_var" } else { "graph_iri" };
            ctx.push(name.clone());
            bump_flow(stats, op, rows_of(ds, ctx, inner));
            walk(stats, ds, ctx, inner);
            ctx.pop();
        }
        Extend { inner, .. } => {
            bump_flow(stats, "extend", rows_of(ds, ctx, inner));
            if let Some(o) = rows_of(ds, ctx, p) {
                if o.hetero {
                    stats.bump("flow.extend.out_hetero");
                }
            }
            walk(stats, ds, ctx, inner);
        }
        OrderBy { inner, .. } => {
            bump_flow(stats, "orderby", rows_of(ds, ctx, inner));
            walk(stats, ds, ctx, inner);
        }
        Project { inner, .. } => {
            bump_flow(stats, "project", rows_of(ds, ctx, inner));
            walk(stats, ds, ctx, inner);
        }
        Distinct { inner } => {
            let i = rows_of(ds, ctx, inner);
            let o = rows_of(ds, ctx, p);
            if let (Some(i), Some(o)) = (&i, &o) {
                if o.n < i.n {
                    stats.bump("flow.distinct.removes_ge1");
                }
                if o.n >= 2 {
                    stats.bump("flow.distinct.out_ge2");
                }
                if o.hetero {
                    stats.bump("flow.distinct.out_hetero");
                }
            }
            bump_flow(stats, "distinct", i);
            walk(stats, ds, ctx, inner);
        }
        Slice { inner, .. } => {
            bump_flow(stats, "slice", rows_of(ds, ctx, inner));
            walk(stats, ds, ctx, inner);
        }
        _ => {}
    }
}

pub fn measure(stats: &mut Stats, ds: &LightDataset, q: &Query) {
    let (pattern, is_ask) = match q {
        Query::Select { dataset: None, pattern, .. } => (pattern, false),
        Query::Ask { dataset: None, pattern, .. } => (pattern, true),
        _ => {
            stats.bump("eff.refused");
            return;
        }
    };
    match run_on(ds, q) {
        Outcome::Err(c, _) => {
            stats.bump(&format!("eff.{}", if c == "notimpl" { "refused" } else { "error" }));
            return;
        }
        Outcome::Ask(b) => {
            stats.bump("eff.ask.total");
            if b {
                stats.bump("eff.ask.true");
            }
        }
        Outcome::Rows(vars, rows, masks) => {
            stats.bump("eff.select.total");
            if !rows.is_empty() {
                stats.bump("eff.select.nonempty");
            }
            if rows.len() >= 2 {
                stats.bump("eff.select.rows_ge2");
            }
            if masks.iter().any(|m| *m != masks[0]) {
                stats.bump("eff.select.hetero_rows");
                if vars.len() >= 2 {
                    stats.bump("eff.select.hetero_rows_ge2_columns");
                }
            }
        }
    }
    let _ = is_ask;
    walk(stats, ds, &mut vec![], pattern);
}
