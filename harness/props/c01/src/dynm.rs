//! Matchers described as data, delegating `matches` AND `constant` to the real matcher types of
//! sophia_api (so that the library's own `constant()` implementations drive index selection).
use sophia_api::term::matcher::{Any, DatatypeMatcher, GraphNameMatcher, LanguageTagMatcher, Not, TermMatcher};
use sophia_api::term::{GraphName, IriRef, LanguageTag, SimpleTerm, Term, TermKind};
use vhcore::tgen;
use vhcore::util::{unhex, T};

pub type ST = SimpleTerm<'static>;

pub enum DM {
    Any,
    Opt(Option<ST>),
    Arr1([ST; 1]),
    Arr2([ST; 2]),
    Slice(Vec<ST>),
    Kind(TermKind),
    Not(Box<DM>),
    Dt(DatatypeMatcher<String>),
    Lang(LanguageTagMatcher<String>),
    Tri(Box<(DM, DM, DM)>),
    Fn(usize),
}

pub fn weight(t: &T) -> usize {
    match t {
        T::Iri(s) | T::Bnode(s) | T::Var(s) => s.chars().count() + 1,
        T::Lit(l, d) => l.chars().count() + d.chars().count() + 1,
        T::Lang(l, t) => l.chars().count() + t.chars().count() + 1,
        T::Triple(b) => b.iter().map(weight).sum::<usize>() + 1,
    }
}

impl TermMatcher for DM {
    type Term = ST;
    fn matches<T2: Term + ?Sized>(&self, term: &T2) -> bool {
        match self {
            DM::Any => TermMatcher::matches(&Any, term),
            DM::Opt(m) => m.matches(term),
            DM::Arr1(m) => m.matches(term),
            DM::Arr2(m) => m.matches(term),
            DM::Slice(m) => (&m[..]).matches(term),
            DM::Kind(k) => k.matches(term),
            DM::Not(m) => Not(m.matcher_ref()).matches(term),
            DM::Dt(m) => m.matches(term),
            DM::Lang(m) => m.matches(term),
            DM::Tri(b) => (b.0.matcher_ref(), b.1.matcher_ref(), b.2.matcher_ref()).matches(term),
            DM::Fn(par) => {
                let par = *par;
                (move |t: SimpleTerm<'_>| weight(&tgen::view(t)) % 2 == par).matches(term)
            }
        }
    }
    fn constant(&self) -> Option<&ST> {
        match self {
            DM::Any => None, // Any::constant() is the trait default; its Term type is not ST-borrowable here
            DM::Opt(m) => m.constant(),
            DM::Arr1(m) => m.constant(),
            DM::Arr2(m) => m.constant(),
            DM::Slice(_) => None, // handled in `constant_slice` below (lifetime of &&[T])
            DM::Kind(_) | DM::Not(_) | DM::Dt(_) | DM::Lang(_) | DM::Tri(_) | DM::Fn(_) => None,
        }
    }
}

/// `constant()` of the real matcher type held by `m`, with the lifetime of `m`
pub fn dm_constant(m: &DM) -> Option<&ST> {
    match m {
        DM::Slice(v) => {
            // `<&[T] as TermMatcher>::constant`
            let s: &[ST] = &v[..];
            let c = TermMatcher::constant(&s).is_some();
            if c { Some(&v[0]) } else { None }
        }
        DM::Kind(k) => {
            debug_assert!(k.constant().is_none());
            None
        }
        DM::Not(m) => {
            debug_assert!(Not(m.matcher_ref()).constant().is_none());
            None
        }
        DM::Dt(m) => {
            debug_assert!(m.constant().is_none());
            None
        }
        DM::Lang(m) => {
            debug_assert!(m.constant().is_none());
            None
        }
        DM::Any => {
            debug_assert!(TermMatcher::constant(&Any).is_none());
            None
        }
        other => other.constant(),
    }
}

/// the same with the slice impl's own `constant()` (a `&[T]` matcher borrows from the Vec)
pub struct DMRef<'a>(pub &'a DM);
impl TermMatcher for DMRef<'_> {
    type Term = ST;
    fn matches<T2: Term + ?Sized>(&self, term: &T2) -> bool {
        self.0.matches(term)
    }
    fn constant(&self) -> Option<&ST> {
        dm_constant(self.0)
    }
}

pub enum DGM {
    Any,
    Opt(Option<GraphName<ST>>),
    Arr1([GraphName<ST>; 1]),
    Arr2([GraphName<ST>; 2]),
    Slice(Vec<GraphName<ST>>),
    Kind(Option<TermKind>),
    Not(Box<DGM>),
    Tri(Option<Box<(DM, DM, DM)>>),
    Fn(usize),
    Gn(DM),
}

impl GraphNameMatcher for DGM {
    type Term = ST;
    fn matches<T2: Term + ?Sized>(&self, g: GraphName<&T2>) -> bool {
        match self {
            DGM::Any => GraphNameMatcher::matches(&Any, g),
            DGM::Opt(m) => m.matches(g),
            DGM::Arr1(m) => m.matches(g),
            DGM::Arr2(m) => m.matches(g),
            DGM::Slice(m) => (&m[..]).matches(g),
            DGM::Kind(k) => k.matches(g),
            DGM::Not(m) => GraphNameMatcher::matches(&Not(m.matcher_ref()), g),
            DGM::Tri(None) => GraphNameMatcher::matches(&None::<(Any, Any, Any)>, g),
            DGM::Tri(Some(b)) => GraphNameMatcher::matches(
                &Some((DMRef(&b.0), DMRef(&b.1), DMRef(&b.2))),
                g,
            ),
            DGM::Fn(par) => {
                let par = *par;
                GraphNameMatcher::matches(
                    &(move |g: GraphName<SimpleTerm>| g.map(|t| weight(&tgen::view(t))).unwrap_or(0) % 2 == par),
                    g,
                )
            }
            DGM::Gn(m) => GraphNameMatcher::matches(&DMRef(m).gn(), g),
        }
    }
    fn constant(&self) -> Option<GraphName<&ST>> {
        match self {
            DGM::Opt(m) => m.constant(),
            DGM::Arr1(m) => m.constant(),
            DGM::Arr2(m) => m.constant(),
            DGM::Slice(v) => {
                let s: &[GraphName<ST>] = &v[..];
                if GraphNameMatcher::constant(&s).is_some() { Some(v[0].as_ref()) } else { None }
            }
            DGM::Gn(m) => {
                // `TermMatcherGn::constant` = inner.constant().map(Some)
                let has = {
                    let inner = DMRef(m);
                    GraphNameMatcher::constant(&inner.gn()).is_some()
                };
                if has { dm_constant(m).map(Some) } else { None }
            }
            _ => None,
        }
    }
}

fn kind(s: &str) -> Option<TermKind> {
    Some(match s {
        "iri" => TermKind::Iri,
        "bnode" => TermKind::BlankNode,
        "literal" => TermKind::Literal,
        "triple" => TermKind::Triple,
        "variable" => TermKind::Variable,
        _ => return None,
    })
}

pub fn parse_tm<'a>(t: &mut std::iter::Peekable<impl Iterator<Item = &'a str>>) -> Option<DM> {
    Some(match t.next()? {
        "A" => DM::Any,
        "N" => DM::Opt(None),
        "O" => DM::Opt(Some(tgen::to_simple(&T::parse(t)?))),
        "S" => {
            let n: usize = t.next()?.parse().ok()?;
            let mut v = vec![];
            for _ in 0..n {
                v.push(tgen::to_simple(&T::parse(t)?));
            }
            DM::Slice(v)
        }
        "R" => {
            // same protocol meaning as S, but held in a fixed-size array (N = 1 or 2)
            let n: usize = t.next()?.parse().ok()?;
            let mut v = vec![];
            for _ in 0..n {
                v.push(tgen::to_simple(&T::parse(t)?));
            }
            match n {
                1 => DM::Arr1([v.remove(0)]),
                2 => {
                    let b = v.remove(1);
                    DM::Arr2([v.remove(0), b])
                }
                _ => DM::Slice(v),
            }
        }
        "K" => DM::Kind(kind(t.next()?)?),
        "!" => DM::Not(Box::new(parse_tm(t)?)),
        "D" => DM::Dt(DatatypeMatcher::new(IriRef::new_unchecked(unhex(t.next()?)?))),
        "L" => DM::Lang(LanguageTagMatcher::new(LanguageTag::new_unchecked(unhex(t.next()?)?))),
        "T" => {
            let a = parse_tm(t)?;
            let b = parse_tm(t)?;
            let c = parse_tm(t)?;
            DM::Tri(Box::new((a, b, c)))
        }
        "F" => DM::Fn(t.next()?.parse().ok()?),
        _ => return None,
    })
}

fn parse_gname<'a>(t: &mut std::iter::Peekable<impl Iterator<Item = &'a str>>) -> Option<GraphName<ST>> {
    if t.peek() == Some(&"-") {
        t.next();
        Some(None)
    } else {
        Some(Some(tgen::to_simple(&T::parse(t)?)))
    }
}

pub fn parse_gm<'a>(t: &mut std::iter::Peekable<impl Iterator<Item = &'a str>>) -> Option<DGM> {
    Some(match t.next()? {
        "GA" => DGM::Any,
        "GN" => DGM::Opt(None),
        "GO" => DGM::Opt(Some(parse_gname(t)?)),
        "GS" => {
            let n: usize = t.next()?.parse().ok()?;
            let mut v = vec![];
            for _ in 0..n {
                v.push(parse_gname(t)?);
            }
            DGM::Slice(v)
        }
        "GR" => {
            let n: usize = t.next()?.parse().ok()?;
            let mut v = vec![];
            for _ in 0..n {
                v.push(parse_gname(t)?);
            }
            match n {
                1 => DGM::Arr1([v.remove(0)]),
                2 => {
                    let b = v.remove(1);
                    DGM::Arr2([v.remove(0), b])
                }
                _ => DGM::Slice(v),
            }
        }
        "GK" => {
            let k = t.next()?;
            DGM::Kind(if k == "none" { None } else { Some(kind(k)?) })
        }
        "G!" => DGM::Not(Box::new(parse_gm(t)?)),
        "GT" => {
            if t.peek() == Some(&"none") {
                t.next();
                DGM::Tri(None)
            } else {
                let a = parse_tm(t)?;
                let b = parse_tm(t)?;
                let c = parse_tm(t)?;
                DGM::Tri(Some(Box::new((a, b, c))))
            }
        }
        "GF" => DGM::Fn(t.next()?.parse().ok()?),
        "Gm" => DGM::Gn(parse_tm(t)?),
        _ => return None,
    })
}
