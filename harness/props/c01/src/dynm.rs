//! Matchers described as data. Every variant HOLDS the real matcher object of sophia_api, and both
//! `matches` AND `constant` are delegated to it — for every matcher type, including those whose
//! `constant()` is the trait default (`TermKind`, `Not`, `DatatypeMatcher`, `LanguageTagMatcher`,
//! `(S, P, O)`, closures, `Any`, and the graph-name variants): the library's own `constant()` drives
//! the index selection of the stores, so an unsound one shows in the query results.
use sophia_api::term::matcher::{Any, DatatypeMatcher, GraphNameMatcher, LanguageTagMatcher, Not, TermMatcher, TermMatcherGn};
use sophia_api::term::{GraphName, IriRef, LanguageTag, SimpleTerm, Term, TermKind};
use vhcore::tgen;
use vhcore::util::{unhex, T};

pub type ST = SimpleTerm<'static>;
pub type TFn = Box<dyn Fn(SimpleTerm<'_>) -> bool>;
pub type GFn = Box<dyn Fn(GraphName<SimpleTerm>) -> bool>;

/// `Box<DM>` as a matcher (so that `Not<_>` can own its operand)
pub struct DMB(pub Box<DM>);
impl TermMatcher for DMB {
    type Term = ST;
    fn matches<T2: Term + ?Sized>(&self, term: &T2) -> bool {
        self.0.matches(term)
    }
    fn constant(&self) -> Option<&ST> {
        self.0.constant()
    }
}

pub enum DM {
    Any,
    Opt(Option<ST>),
    Arr1([ST; 1]),
    Arr2([ST; 2]),
    Slice(Vec<ST>),
    Kind(TermKind),
    Not(Not<DMB>),
    Dt(DatatypeMatcher<String>),
    Lang(LanguageTagMatcher<String>),
    Tri(Box<(DM, DM, DM)>),
    Fn(TFn),
}

pub fn weight(t: &T) -> usize {
    match t {
        T::Iri(s) | T::Bnode(s) | T::Var(s) => s.chars().count() + 1,
        T::Lit(l, d) => l.chars().count() + d.chars().count() + 1,
        T::Lang(l, t) => l.chars().count() + t.chars().count() + 1,
        T::Triple(b) => b.iter().map(weight).sum::<usize>() + 1,
    }
}

static ANY: Any = Any;

impl TermMatcher for DM {
    type Term = ST;
    fn matches<T2: Term + ?Sized>(&self, term: &T2) -> bool {
        match self {
            DM::Any => TermMatcher::matches(&Any, term),
            DM::Opt(m) => m.matches(term),
            DM::Arr1(m) => m.matches(term),
            DM::Arr2(m) => m.matches(term),
            DM::Slice(m) => (&m[..]).matches(term),
            DM::Kind(k) => k.matches(term),
            DM::Not(m) => m.matches(term),
            DM::Dt(m) => m.matches(term),
            DM::Lang(m) => m.matches(term),
            DM::Tri(b) => b.matches(term),
            DM::Fn(f) => f.matches(term),
        }
    }
    /// the `constant()` of the real matcher type held by the variant
    fn constant(&self) -> Option<&ST> {
        match self {
            DM::Any => TermMatcher::constant(&ANY),
            DM::Opt(m) => m.constant(),
            DM::Arr1(m) => m.constant(),
            DM::Arr2(m) => m.constant(),
            DM::Slice(v) => {
                // `<&[T] as TermMatcher>::constant` borrows from a temporary `&[T]`: find WHICH element it
                // answered and return that one with the lifetime of the Vec
                let s: &[ST] = &v[..];
                let i = TermMatcher::constant(&s).map(|c| v.iter().position(|x| std::ptr::eq(x, c)).unwrap_or(0));
                i.map(|i| &v[i])
            }
            DM::Kind(k) => k.constant(),
            DM::Not(m) => m.constant(),
            DM::Dt(m) => m.constant(),
            DM::Lang(m) => m.constant(),
            DM::Tri(b) => b.constant(),
            DM::Fn(f) => f.constant(),
        }
    }
}

pub struct DMRef<'a>(pub &'a DM);
impl TermMatcher for DMRef<'_> {
    type Term = ST;
    fn matches<T2: Term + ?Sized>(&self, term: &T2) -> bool {
        self.0.matches(term)
    }
    fn constant(&self) -> Option<&ST> {
        self.0.constant()
    }
}

/// `Box<DGM>` as a graph-name matcher
pub struct DGMB(pub Box<DGM>);
impl GraphNameMatcher for DGMB {
    type Term = ST;
    fn matches<T2: Term + ?Sized>(&self, g: GraphName<&T2>) -> bool {
        self.0.matches(g)
    }
    fn constant(&self) -> Option<GraphName<&ST>> {
        self.0.constant()
    }
}

pub enum DGM {
    Any,
    Opt(Option<GraphName<ST>>),
    Arr1([GraphName<ST>; 1]),
    Arr2([GraphName<ST>; 2]),
    Slice(Vec<GraphName<ST>>),
    Kind(Option<TermKind>),
    Not(Not<DGMB>),
    Tri(Option<(DM, DM, DM)>),
    Fn(GFn),
    Gn(TermMatcherGn<DM>),
}

impl GraphNameMatcher for DGM {
    type Term = ST;
    fn matches<T2: Term + ?Sized>(&self, g: GraphName<&T2>) -> bool {
        match self {
            DGM::Any => GraphNameMatcher::matches(&Any, g),
            DGM::Opt(m) => m.matches(g),
            DGM::Arr1(m) => m.matches(g),
            DGM::Arr2(m) => m.matches(g),
            DGM::Slice(m) => (&m[..]).matches(g),
            DGM::Kind(k) => k.matches(g),
            DGM::Not(m) => GraphNameMatcher::matches(m, g),
            DGM::Tri(m) => GraphNameMatcher::matches(m, g),
            DGM::Fn(f) => GraphNameMatcher::matches(f, g),
            DGM::Gn(m) => m.matches(g),
        }
    }
    /// the `constant()` of the real matcher type held by the variant
    fn constant(&self) -> Option<GraphName<&ST>> {
        match self {
            DGM::Any => GraphNameMatcher::constant(&ANY),
            DGM::Opt(m) => m.constant(),
            DGM::Arr1(m) => m.constant(),
            DGM::Arr2(m) => m.constant(),
            DGM::Slice(v) => {
                let s: &[GraphName<ST>] = &v[..];
                // which element did `<&[GraphName<T>]>::constant` answer? (compared by address when it is
                // a named graph, by position otherwise)
                let i = GraphNameMatcher::constant(&s).map(|c| {
                    v.iter().position(|x| match (x.as_ref(), c) {
                        (Some(a), Some(b)) => std::ptr::eq(a, b),
                        (None, None) => true,
                        _ => false,
                    }).unwrap_or(0)
                });
                i.map(|i| v[i].as_ref())
            }
            DGM::Kind(k) => k.constant(),
            DGM::Not(m) => GraphNameMatcher::constant(m),
            DGM::Tri(m) => GraphNameMatcher::constant(m),
            DGM::Fn(f) => GraphNameMatcher::constant(f),
            DGM::Gn(m) => m.constant(),
        }
    }
}

/// The contract of `constant()` (api/src/term/matcher/_trait.rs): `Some(t)` only if the matcher
/// matches exactly the terms equal to `t`. Checked on the terms at hand; `Some(text)` = violated.
#[allow(dead_code)]
pub fn tm_constant_unsound<'a>(m: &DM, terms: impl Iterator<Item = &'a ST>) -> Option<String> {
    let c = m.constant()?;
    if !m.matches(c) {
        return Some(format!("constant {:?} is not matched", tgen::view(c.borrow_term()).render()));
    }
    for t in terms {
        if m.matches(t) != Term::eq(c, t.borrow_term()) {
            return Some(format!("constant {:?} but matches({:?}) = {}", tgen::view(c.borrow_term()).render(), tgen::view(t.borrow_term()).render(), m.matches(t)));
        }
    }
    None
}

#[allow(dead_code)]
pub fn gm_constant_unsound<'a>(m: &DGM, names: impl Iterator<Item = GraphName<&'a ST>>) -> Option<String> {
    let c = m.constant()?;
    let show = |g: GraphName<&ST>| g.map(|t| tgen::view(t.borrow_term()).render()).unwrap_or("-".into());
    if !m.matches(c) {
        return Some(format!("constant {:?} is not matched", show(c)));
    }
    for g in names {
        let same = match (c, g) {
            (None, None) => true,
            (Some(a), Some(b)) => Term::eq(a, b.borrow_term()),
            _ => false,
        };
        if m.matches(g) != same {
            return Some(format!("constant {:?} but matches({:?}) = {}", show(c), show(g), m.matches(g)));
        }
    }
    None
}

fn kind(s: &str) -> Option<TermKind> {
    Some(match s {
        "iri" => TermKind::Iri,
        "bnode" => TermKind::BlankNode,
        "literal" => TermKind::Literal,
        "triple" => TermKind::Triple,
        "variable" => TermKind::Variable,
        _ => return None,
    })
}

pub fn parse_tm<'a>(t: &mut std::iter::Peekable<impl Iterator<Item = &'a str>>) -> Option<DM> {
    Some(match t.next()? {
        "A" => DM::Any,
        "N" => DM::Opt(None),
        "O" => DM::Opt(Some(tgen::to_simple(&T::parse(t)?))),
        "S" => {
            let n: usize = t.next()?.parse().ok()?;
            let mut v = vec![];
            for _ in 0..n {
                v.push(tgen::to_simple(&T::parse(t)?));
            }
            DM::Slice(v)
        }
        "R" => {
            // same protocol meaning as S, but held in a fixed-size array (N = 1 or 2)
            let n: usize = t.next()?.parse().ok()?;
            let mut v = vec![];
            for _ in 0..n {
                v.push(tgen::to_simple(&T::parse(t)?));
            }
            match n {
                1 => DM::Arr1([v.remove(0)]),
                2 => {
                    let b = v.remove(1);
                    DM::Arr2([v.remove(0), b])
                }
                _ => DM::Slice(v),
            }
        }
        "K" => DM::Kind(kind(t.next()?)?),
        "!" => DM::Not(Not(DMB(Box::new(parse_tm(t)?)))),
        "D" => DM::Dt(DatatypeMatcher::new(IriRef::new_unchecked(unhex(t.next()?)?))),
        "L" => DM::Lang(LanguageTagMatcher::new(LanguageTag::new_unchecked(unhex(t.next()?)?))),
        "T" => {
            let a = parse_tm(t)?;
            let b = parse_tm(t)?;
            let c = parse_tm(t)?;
            DM::Tri(Box::new((a, b, c)))
        }
        "F" => {
            let par: usize = t.next()?.parse().ok()?;
            DM::Fn(Box::new(move |t: SimpleTerm<'_>| weight(&tgen::view(t)) % 2 == par))
        }
        _ => return None,
    })
}

fn parse_gname<'a>(t: &mut std::iter::Peekable<impl Iterator<Item = &'a str>>) -> Option<GraphName<ST>> {
    if t.peek() == Some(&"-") {
        t.next();
        Some(None)
    } else {
        Some(Some(tgen::to_simple(&T::parse(t)?)))
    }
}

pub fn parse_gm<'a>(t: &mut std::iter::Peekable<impl Iterator<Item = &'a str>>) -> Option<DGM> {
    Some(match t.next()? {
        "GA" => DGM::Any,
        "GN" => DGM::Opt(None),
        "GO" => DGM::Opt(Some(parse_gname(t)?)),
        "GS" => {
            let n: usize = t.next()?.parse().ok()?;
            let mut v = vec![];
            for _ in 0..n {
                v.push(parse_gname(t)?);
            }
            DGM::Slice(v)
        }
        "GR" => {
            let n: usize = t.next()?.parse().ok()?;
            let mut v = vec![];
            for _ in 0..n {
                v.push(parse_gname(t)?);
            }
            match n {
                1 => DGM::Arr1([v.remove(0)]),
                2 => {
                    let b = v.remove(1);
                    DGM::Arr2([v.remove(0), b])
                }
                _ => DGM::Slice(v),
            }
        }
        "GK" => {
            let k = t.next()?;
            DGM::Kind(if k == "none" { None } else { Some(kind(k)?) })
        }
        "G!" => DGM::Not(Not(DGMB(Box::new(parse_gm(t)?)))),
        "GT" => {
            if t.peek() == Some(&"none") {
                t.next();
                DGM::Tri(None)
            } else {
                let a = parse_tm(t)?;
                let b = parse_tm(t)?;
                let c = parse_tm(t)?;
                DGM::Tri(Some((a, b, c)))
            }
        }
        "GF" => {
            let par: usize = t.next()?.parse().ok()?;
            DGM::Fn(Box::new(move |g: GraphName<SimpleTerm>| g.map(|t| weight(&tgen::view(t))).unwrap_or(0) % 2 == par))
        }
        "Gm" => DGM::Gn(parse_tm(t)?.gn()),
        _ => return None,
    })
}
