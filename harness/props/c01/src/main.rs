//! C01 — in-memory graphs/datasets behave like a mathematical set of quads.
//!
//! A history is a sequence of request lines on ONE current store (`new` starts a new history):
//!   new <LD|FD|LG|FG|HD|BD|VD> <16|32>      ins/rem/has <quad>      insall/remall <quad> | <quad> …
//!   remm/retm/qm <sm> <pm> <om> [<gm>]      all   len   enum <which>   fill <k> <offset>   nterms
mod dynm;
use dynm::*;
use sophia_api::dataset::{Dataset, MutableDataset};
use sophia_api::graph::{Graph, MutableGraph};
use sophia_api::quad::Spog;
use sophia_api::source::IntoSource;
use sophia_api::term::matcher::GraphNameMatcher;
use sophia_api::term::{CmpTerm, SimpleTerm, Term};
use sophia_inmem::dataset::{FastDataset, LightDataset};
use sophia_inmem::graph::{FastGraph, LightGraph};
use std::cell::RefCell;
use std::collections::{BTreeSet, HashSet};
use vhcore::tgen::{self, TermGen};
use vhcore::util::*;
use vhcore::GenCtx;

type CT = CmpTerm<SimpleTerm<'static>>;

enum Store {
    LD(LightDataset),
    FD(FastDataset),
    LD16(sophia_inmem::dataset::small::LightDataset),
    FD16(sophia_inmem::dataset::small::FastDataset),
    LG(LightGraph),
    FG(FastGraph),
    LG16(sophia_inmem::graph::small::LightGraph),
    FG16(sophia_inmem::graph::small::FastGraph),
    HD(HashSet<Spog<ST>>),
    BD(BTreeSet<Spog<CT>>),
    VD(Vec<Spog<ST>>),
}

thread_local! {
    static CUR: RefCell<Option<Store>> = const { RefCell::new(None) };
}

macro_rules! on_dataset {
    ($s:expr, $d:ident => $body:expr, else $other:expr) => {
        match $s {
            Store::LD($d) => $body,
            Store::FD($d) => $body,
            Store::LD16($d) => $body,
            Store::FD16($d) => $body,
            Store::HD($d) => $body,
            Store::BD($d) => $body,
            Store::VD($d) => $body,
            _ => $other,
        }
    };
}
macro_rules! on_graph {
    ($s:expr, $g:ident => $body:expr, else $other:expr) => {
        match $s {
            Store::LG($g) => $body,
            Store::FG($g) => $body,
            Store::LG16($g) => $body,
            Store::FG16($g) => $body,
            _ => $other,
        }
    };
}

fn is_graph(s: &Store) -> bool {
    matches!(s, Store::LG(_) | Store::FG(_) | Store::LG16(_) | Store::FG16(_))
}

fn b(x: bool) -> &'static str {
    if x { "1" } else { "0" }
}

/// canonical text of a term/quad: tags folded to lower case (terms are compared up to `Term::eq`)
fn canon(t: &T) -> T {
    match t {
        T::Lang(l, tag) => T::Lang(l.clone(), tag.to_ascii_lowercase()),
        T::Triple(b) => T::Triple(Box::new([canon(&b[0]), canon(&b[1]), canon(&b[2])])),
        other => other.clone(),
    }
}
fn render_q(q: &Q, graph: bool) -> String {
    let s = if graph {
        format!("{} {} {}", canon(&q.s).render(), canon(&q.p).render(), canon(&q.o).render())
    } else {
        Q { s: canon(&q.s), p: canon(&q.p), o: canon(&q.o), g: q.g.as_ref().map(canon) }.render()
    };
    s.replace(' ', ",")
}
fn render_qs(mut v: Vec<String>) -> String {
    v.sort();
    if v.is_empty() { "_".into() } else { v.join(";") }
}
fn render_ts(v: Vec<T>) -> String {
    let mut v: Vec<String> = v.iter().map(|t| canon(t).render().replace(' ', ",")).collect();
    v.sort();
    v.dedup();
    if v.is_empty() { "_".into() } else { v.join(";") }
}

fn parse_quads(s: &str) -> Option<Vec<Q>> {
    s.split('|').filter(|p| !p.trim().is_empty()).map(|p| Q::parse(&mut p.split_whitespace().peekable())).collect()
}

type SQ = ([ST; 3], Option<ST>);
fn sq(q: &Q) -> SQ {
    tgen::q_to_simple(q)
}

fn all_quads(st: &Store) -> Vec<Q> {
    on_dataset!(st, d => d.quads().map(|q| tgen::view_quad(q.unwrap())).collect(),
        else on_graph!(st, g => g.triples().map(|t| tgen::view_triple(t.unwrap())).collect(), else vec![]))
}

pub fn exec(line: &str) -> String {
    let (op, rest) = line.split_once(' ').unwrap_or((line, ""));
    if op == "new" {
        let f: Vec<&str> = rest.split_whitespace().collect();
        let st = match (f[0], f[1]) {
            ("LD", "32") => Store::LD(LightDataset::new()),
            ("FD", "32") => Store::FD(FastDataset::new()),
            ("LD", "16") => Store::LD16(sophia_inmem::dataset::small::LightDataset::new()),
            ("FD", "16") => Store::FD16(sophia_inmem::dataset::small::FastDataset::new()),
            ("LG", "32") => Store::LG(LightGraph::new()),
            ("FG", "32") => Store::FG(FastGraph::new()),
            ("LG", "16") => Store::LG16(sophia_inmem::graph::small::LightGraph::new()),
            ("FG", "16") => Store::FG16(sophia_inmem::graph::small::FastGraph::new()),
            ("HD", _) => Store::HD(HashSet::new()),
            ("BD", _) => Store::BD(BTreeSet::new()),
            ("VD", _) => Store::VD(Vec::new()),
            _ => return "bad-op".into(),
        };
        CUR.with(|c| *c.borrow_mut() = Some(st));
        return "ok=1".into();
    }
    CUR.with(|c| {
        let mut guard = c.borrow_mut();
        let Some(st) = guard.as_mut() else { return "bad-op".to_string() };
        let graph = is_graph(st);
        match op {
            "ins" | "rem" | "has" => {
                let Some(q) = Q::parse(&mut rest.split_whitespace().peekable()) else { return "bad-op".into() };
                let (spo, g) = sq(&q);
                let [s, p, o] = spo;
                let r: Result<bool, ()> = match op {
                    "ins" => on_dataset!(st, d => MutableDataset::insert(d, &s, &p, &o, g.as_ref()).map_err(|_| ()),
                        else on_graph!(st, gr => MutableGraph::insert(gr, &s, &p, &o).map_err(|_| ()), else Err(()))),
                    "rem" => on_dataset!(st, d => MutableDataset::remove(d, &s, &p, &o, g.as_ref()).map_err(|_| ()),
                        else on_graph!(st, gr => MutableGraph::remove(gr, &s, &p, &o).map_err(|_| ()), else Err(()))),
                    _ => on_dataset!(st, d => Dataset::contains(d, &s, &p, &o, g.as_ref()).map_err(|_| ()),
                        else on_graph!(st, gr => Graph::contains(gr, &s, &p, &o).map_err(|_| ()), else Err(()))),
                };
                match r {
                    Ok(x) => format!("r={}", b(x)),
                    Err(()) => "r=full".into(),
                }
            }
            "insall" | "remall" => {
                let Some(qs) = parse_quads(rest) else { return "bad-op".into() };
                let sqs: Vec<SQ> = qs.iter().map(sq).collect();
                let r: Result<usize, ()> = if graph {
                    let ts: Vec<[ST; 3]> = sqs.into_iter().map(|(spo, _)| spo).collect();
                    if op == "insall" {
                        on_graph!(st, gr => gr.insert_all(ts.into_iter().into_source()).map_err(|_| ()), else Err(()))
                    } else {
                        on_graph!(st, gr => gr.remove_all(ts.into_iter().into_source()).map_err(|_| ()), else Err(()))
                    }
                } else if op == "insall" {
                    on_dataset!(st, d => d.insert_all(sqs.into_iter().into_source()).map_err(|_| ()), else Err(()))
                } else {
                    on_dataset!(st, d => d.remove_all(sqs.into_iter().into_source()).map_err(|_| ()), else Err(()))
                };
                match r {
                    Ok(n) => format!("n={}", n),
                    Err(()) => "n=full".into(),
                }
            }
            "qm" | "remm" | "retm" => {
                let mut toks = rest.split_whitespace().peekable();
                let (Some(sm), Some(pm), Some(om)) = (parse_tm(&mut toks), parse_tm(&mut toks), parse_tm(&mut toks)) else {
                    return "bad-op".into();
                };
                if graph {
                    if toks.peek().is_some() {
                        return "bad-op".into();
                    }
                    match op {
                        "qm" => {
                            let v: Vec<String> = on_graph!(st, gr => gr.triples_matching(DMRef(&sm), DMRef(&pm), DMRef(&om))
                                .map(|t| render_q(&tgen::view_triple(t.unwrap()), true)).collect(), else vec![]);
                            format!("n={} quads={}", v.len(), render_qs(v))
                        }
                        "remm" => {
                            let r = on_graph!(st, gr => gr.remove_matching(DMRef(&sm), DMRef(&pm), DMRef(&om)).map_err(|_| ()), else Err(()));
                            match r { Ok(n) => format!("n={}", n), Err(()) => "n=err".into() }
                        }
                        _ => {
                            let r = on_graph!(st, gr => gr.retain_matching(DMRef(&sm), DMRef(&pm), DMRef(&om)).map_err(|_| ()), else Err(()));
                            match r { Ok(()) => "ok=1".into(), Err(()) => "ok=err".into() }
                        }
                    }
                } else {
                    let Some(gm) = parse_gm(&mut toks) else { return "bad-op".into() };
                    if toks.peek().is_some() {
                        return "bad-op".into();
                    }
                    match op {
                        "qm" => {
                            let v: Vec<String> = on_dataset!(st, d => d.quads_matching(DMRef(&sm), DMRef(&pm), DMRef(&om), GraphNameMatcher::matcher_ref(&gm))
                                .map(|q| render_q(&tgen::view_quad(q.unwrap()), false)).collect(), else vec![]);
                            format!("n={} quads={}", v.len(), render_qs(v))
                        }
                        "remm" => {
                            let r = on_dataset!(st, d => d.remove_matching(DMRef(&sm), DMRef(&pm), DMRef(&om), GraphNameMatcher::matcher_ref(&gm)).map_err(|_| ()), else Err(()));
                            match r { Ok(n) => format!("n={}", n), Err(()) => "n=err".into() }
                        }
                        _ => {
                            let r = on_dataset!(st, d => d.retain_matching(DMRef(&sm), DMRef(&pm), DMRef(&om), GraphNameMatcher::matcher_ref(&gm)).map_err(|_| ()), else Err(()));
                            match r { Ok(()) => "ok=1".into(), Err(()) => "ok=err".into() }
                        }
                    }
                }
            }
            "all" => {
                let v: Vec<String> = all_quads(st).iter().map(|q| render_q(q, graph)).collect();
                format!("n={} quads={}", v.len(), render_qs(v))
            }
            "len" => {
                let n = on_dataset!(st, d => d.quads().count(), else on_graph!(st, g => g.triples().count(), else 0));
                format!("n={}", n)
            }
            "enum" => {
                macro_rules! en { ($m:ident) => {
                    on_dataset!(st, d => d.$m().map(|t| tgen::view(t.unwrap())).collect::<Vec<T>>(),
                        else on_graph!(st, g => g.$m().map(|t| tgen::view(t.unwrap())).collect::<Vec<T>>(), else vec![]))
                } }
                let v: Vec<T> = match rest.trim() {
                    "subjects" => en!(subjects),
                    "predicates" => en!(predicates),
                    "objects" => en!(objects),
                    "graphs" => on_dataset!(st, d => d.graph_names().map(|t| tgen::view(t.unwrap())).collect(), else vec![]),
                    "iris" => en!(iris),
                    "bnodes" => en!(blank_nodes),
                    "literals" => en!(literals),
                    "vars" => en!(variables),
                    "qtriples" => en!(quoted_triples),
                    _ => return "bad-op".into(),
                };
                format!("terms={}", render_ts(v))
            }
            "fill" => {
                let f: Vec<&str> = rest.split_whitespace().collect();
                let (k, off): (usize, usize) = (f[0].parse().unwrap(), f[1].parse().unwrap());
                let mut n = 0;
                let s = tgen::to_simple(&T::Iri("x:s".into()));
                let p = tgen::to_simple(&T::Iri("x:p".into()));
                for i in 0..k {
                    let o = tgen::to_simple(&T::Lit((i + off).to_string(), "x:fill".into()));
                    let r: Result<bool, ()> = on_dataset!(st, d => MutableDataset::insert(d, &s, &p, &o, None::<&ST>).map_err(|_| ()),
                        else on_graph!(st, gr => MutableGraph::insert(gr, &s, &p, &o).map_err(|_| ()), else Err(())));
                    match r {
                        Ok(true) => n += 1,
                        Ok(false) => {}
                        Err(()) => return "n=full".into(),
                    }
                }
                format!("n={}", n)
            }
            "nterms" => "nterms=?".into(),
            _ => "bad-op".into(),
        }
    })
}

// ---------------------------------------------------------------- generation

fn gen_tm(g: &TermGen, r: &mut Rng, depth: usize, stats: &mut Stats) -> String {
    let k = r.below(if depth > 0 { 14 } else { 12 });
    let name;
    let s = match k {
        0 | 1 => {
            name = "any";
            "A".to_string()
        }
        2 | 3 => {
            name = "opt";
            format!("O {}", g.term(r, 1).render())
        }
        4 => {
            name = "none";
            "N".into()
        }
        5 => {
            name = "slice";
            let n = r.below(4);
            let mut s = format!("S {}", n);
            for _ in 0..n {
                s += &format!(" {}", g.term(r, 1).render());
            }
            s
        }
        6 => {
            name = "array";
            let n = r.range(1, 2);
            let mut s = format!("R {}", n);
            for _ in 0..n {
                s += &format!(" {}", g.term(r, 1).render());
            }
            s
        }
        7 => {
            name = "kind";
            format!("K {}", r.pick(&["iri", "bnode", "literal", "triple", "variable"]))
        }
        8 => {
            name = "datatype";
            {
                let opts = [g.datatypes[0].clone(), g.datatypes[1].clone(), "http://www.w3.org/1999/02/22-rdf-syntax-ns#langString".to_string()];
                format!("D {}", hex(r.pick(&opts[..]).as_str()))
            }
        }
        9 => {
            name = "langtag";
            format!("L {}", hex(r.pick(&g.tags[..]).as_str()))
        }
        10 | 11 => {
            name = "closure";
            format!("F {}", r.below(2))
        }
        12 => {
            name = "not";
            format!("! {}", gen_tm(g, r, depth - 1, stats))
        }
        _ => {
            name = "triple";
            format!("T {} {} {}", gen_tm(g, r, depth - 1, stats), gen_tm(g, r, depth - 1, stats), gen_tm(g, r, depth - 1, stats))
        }
    };
    stats.bump(&format!("matcher.{}", name));
    s
}

fn gen_gname(g: &TermGen, r: &mut Rng) -> String {
    match r.below(4) {
        0 | 1 => "-".into(),
        2 => g.iri(r).render(),
        _ => g.bnode(r).render(),
    }
}

fn gen_gm(g: &TermGen, r: &mut Rng, depth: usize, stats: &mut Stats) -> String {
    let k = r.below(if depth > 0 { 12 } else { 11 });
    let name;
    let s = match k {
        0 | 1 => {
            name = "gany";
            "GA".to_string()
        }
        2 | 3 => {
            name = "gopt";
            format!("GO {}", gen_gname(g, r))
        }
        4 => {
            name = "gnone";
            "GN".into()
        }
        5 => {
            name = "gslice";
            let n = r.below(4);
            let mut s = format!("GS {}", n);
            for _ in 0..n {
                s += &format!(" {}", gen_gname(g, r));
            }
            s
        }
        6 => {
            name = "garray";
            let n = r.range(1, 2);
            let mut s = format!("GR {}", n);
            for _ in 0..n {
                s += &format!(" {}", gen_gname(g, r));
            }
            s
        }
        7 => {
            name = "gkind";
            format!("GK {}", r.pick(&["none", "iri", "bnode", "literal"]))
        }
        8 => {
            name = "gclosure";
            format!("GF {}", r.below(2))
        }
        9 => {
            name = "gtriple";
            if r.chance(1, 2) { "GT none".into() } else { format!("GT {} {} {}", gen_tm(g, r, 0, stats), gen_tm(g, r, 0, stats), gen_tm(g, r, 0, stats)) }
        }
        10 => {
            name = "gn";
            format!("Gm {}", gen_tm(g, r, 1, stats))
        }
        _ => {
            name = "gnot";
            format!("G! {}", gen_gm(g, r, depth - 1, stats))
        }
    };
    stats.bump(&format!("matcher.{}", name));
    s
}

fn gen_pat(g: &TermGen, r: &mut Rng, graph: bool, stats: &mut Stats, pool: &[Q]) -> String {
    // Most patterns are derived from an existing quad so that every index arm is hit with constants
    // that exist and results are non-empty; per position: exact constant / Any / another matcher.
    let mut parts = vec![];
    let q = if !pool.is_empty() && r.chance(4, 5) { Some(r.pick(pool).clone()) } else { None };
    let mut shape = String::new();
    for i in 0..3 {
        let roll = r.below(10);
        if let (Some(q), true) = (&q, roll < 4) {
            let term = [&q.s, &q.p, &q.o][i];
            shape.push('1');
            parts.push(match r.below(3) {
                0 => format!("O {}", term.render()),
                1 => format!("S 1 {}", term.render()),
                _ => format!("R 1 {}", term.render()),
            });
        } else if roll < 8 {
            shape.push('0');
            stats.bump("matcher.any");
            parts.push("A".to_string());
        } else {
            let m = gen_tm(g, r, 1, stats);
            shape.push(if m.starts_with("O ") || m.starts_with("S 1 ") || m.starts_with("R 1 ") { '1' } else { '0' });
            parts.push(m);
        }
    }
    if !graph {
        let roll = r.below(10);
        if let (Some(q), true) = (&q, roll < 4) {
            let gn = match &q.g {
                None => "-".to_string(),
                Some(t) => t.render(),
            };
            shape.push('1');
            parts.push(match r.below(4) {
                0 => format!("GO {}", gn),
                1 => format!("GS 1 {}", gn),
                2 => format!("GR 1 {}", gn),
                _ => match &q.g {
                    Some(t) => format!("Gm O {}", t.render()),
                    None => "GO -".into(),
                },
            });
        } else if roll < 8 {
            shape.push('0');
            stats.bump("matcher.gany");
            parts.push("GA".to_string());
        } else {
            let m = gen_gm(g, r, 1, stats);
            shape.push(if m.starts_with("GO ") || m.starts_with("GS 1 ") || m.starts_with("GR 1 ") || m.starts_with("Gm O ") || m.starts_with("Gm S 1 ") || m.starts_with("Gm R 1 ") { '1' } else { '0' });
            parts.push(m);
        }
    }
    stats.bump(&format!("bound_shape.{}", shape));
    parts.join(" ")
}

pub fn generate(ctx: &mut GenCtx) {
    let mut g = TermGen::default();
    // fewer distinct terms => more collisions between quads
    g.iris.truncate(4);
    g.lexicals.truncate(5);
    let kinds: &[(&str, &str)] = &[
        ("LD", "32"), ("FD", "32"), ("LD", "16"), ("FD", "16"), ("LG", "32"), ("FG", "32"), ("LG", "16"), ("FG", "16"),
        ("HD", "0"), ("BD", "0"), ("VD", "0"),
    ];
    let histories = if ctx.thorough { 600 } else { 90 };
    let maxlen = if ctx.thorough { 150 } else { 70 };
    for h in 0..histories {
        let (kind, width) = kinds[h % kinds.len()];
        let graph = kind.ends_with('G');
        let vec_like = kind == "VD";
        ctx.emit(&format!("new {} {}", kind, width));
        ctx.stats.bump(&format!("store.{}{}", kind, width));
        let generalized = h % 3 != 0;
        let mut pool: Vec<Q> = vec![];
        let n = ctx.rng.range(15, maxlen);
        for _ in 0..n {
            let mut q = if generalized { g.any_quad(&mut ctx.rng) } else { g.strict_quad(&mut ctx.rng) };
            if graph {
                q.g = None;
            }
            // the same term in several positions of one quad (s = p, p = o, s = g …): per-position
            // caches keyed by index must not be confused by equal indexes in different positions
            if generalized && ctx.rng.chance(1, 4) {
                match ctx.rng.below(if graph { 3 } else { 5 }) {
                    0 => q.p = q.s.clone(),
                    1 => q.o = q.p.clone(),
                    2 => q.o = q.s.clone(),
                    3 => q.g = Some(q.s.clone()),
                    _ => q.g = Some(q.o.clone()),
                }
                ctx.stats.bump("same_term_two_positions");
            }
            // re-use known quads often (duplicates, removal of present quads)
            if !pool.is_empty() && ctx.rng.chance(2, 5) {
                q = ctx.rng.pick(&pool).clone();
                // … sometimes with a case-variant tag (must collide in the term index)
                if let T::Lang(l, t) = &q.o {
                    if ctx.rng.chance(1, 2) {
                        q.o = T::Lang(l.clone(), if t.chars().any(|c| c.is_ascii_uppercase()) { t.to_lowercase() } else { t.to_uppercase() });
                        ctx.stats.bump("case_variant_tag");
                    }
                }
            }
            let op = ctx.rng.below(if vec_like { 16 } else { 40 });
            let line = match op {
                0..=15 if vec_like && op >= 14 => "all".to_string(),
                0..=13 => {
                    pool.push(q.clone());
                    format!("ins {}", q.render())
                }
                14 => "all".to_string(),
                15..=18 => format!("rem {}", q.render()),
                19..=20 => format!("has {}", q.render()),
                21..=23 => {
                    let k = ctx.rng.range(0, 4);
                    let mut v = vec![];
                    for _ in 0..k {
                        let mut q2 = if ctx.rng.chance(1, 2) && !pool.is_empty() { ctx.rng.pick(&pool).clone() } else { g.strict_quad(&mut ctx.rng) };
                        if graph {
                            q2.g = None;
                        }
                        pool.push(q2.clone());
                        v.push(q2.render());
                    }
                    format!("insall {}", v.join(" | "))
                }
                24 => {
                    let k = ctx.rng.range(0, 3);
                    let mut v = vec![];
                    for _ in 0..k {
                        let mut q2 = if ctx.rng.chance(3, 4) && !pool.is_empty() { ctx.rng.pick(&pool).clone() } else { g.strict_quad(&mut ctx.rng) };
                        if graph {
                            q2.g = None;
                        }
                        v.push(q2.render());
                    }
                    format!("remall {}", v.join(" | "))
                }
                25..=35 => format!("qm {}", gen_pat(&g, &mut ctx.rng, graph, &mut ctx.stats, &pool)),
                36 => format!("remm {}", gen_pat(&g, &mut ctx.rng, graph, &mut ctx.stats, &pool)),
                // retain_matching with a negated narrow pattern keeps most of the store
                37 => if ctx.rng.chance(1, 3) { format!("retm {}", gen_pat(&g, &mut ctx.rng, graph, &mut ctx.stats, &pool)) } else {
                    let victim = if pool.is_empty() { g.iri(&mut ctx.rng) } else { ctx.rng.pick(&pool).o.clone() };
                    format!("retm A A ! O {}{}", victim.render(), if graph { "" } else { " GA" })
                },
                38 => format!("enum {}", ctx.rng.pick(&["subjects", "predicates", "objects", "graphs", "iris", "bnodes", "literals", "vars", "qtriples"])),
                _ => "len".to_string(),
            };
            let opname = line.split(' ').next().unwrap().to_string();
            ctx.stats.bump(&format!("op.{}", opname));
            ctx.emit(&line);
        }
        ctx.emit("all");
        if h < 2 {
            ctx.stats.sample(format!("history {} on {}{} with {} ops", h, kind, width, n));
        }
    }
    // the term-index-full boundary of the 16-bit stores, on each of s / p / o / g
    for (kind, width) in [("LD", "16"), ("FD", "16"), ("LG", "16"), ("FG", "16")] {
        if !ctx.thorough && kind.starts_with('F') {
            continue; // the heavily indexed variants take six times the memory/time: thorough only
        }
        let graph = kind.ends_with('G');
        ctx.emit(&format!("new {} {}", kind, width));
        ctx.stats.bump("history.index_full");
        // x:s, x:p + 65530 literals = 65532 terms; MAX = 65535 ⇒ room for exactly 3 more terms
        ctx.emit("fill 65530 0");
        ctx.emit("len");
        let t = |s: &str| T::Iri(format!("x:new{}", s));
        let old = T::Iri("x:s".into());
        let mk = |s: &T, p: &T, o: &T, gn: Option<&T>| Q { s: s.clone(), p: p.clone(), o: o.clone(), g: if graph { None } else { gn.cloned() } }.render();
        // needs 4 new terms (s, p, o, g): fails at the 4th ensure_index, after 3 terms were added
        if graph {
            ctx.emit(&format!("ins {}", mk(&t("1"), &t("2"), &t("3"), None)));
            ctx.emit(&format!("ins {}", mk(&t("4"), &old, &old, None))); // full at s
            ctx.emit(&format!("ins {}", mk(&old, &t("4"), &old, None))); // full at p
            ctx.emit(&format!("ins {}", mk(&old, &old, &t("4"), None))); // full at o
        } else {
            ctx.emit(&format!("ins {}", mk(&t("1"), &t("2"), &t("3"), Some(&t("4"))))); // full at g, 3 terms leaked into the index
            ctx.emit(&format!("ins {}", mk(&t("1"), &t("2"), &t("3"), None))); // now fits (terms known)
            ctx.emit(&format!("ins {}", mk(&old, &old, &old, Some(&t("5"))))); // full at g
            ctx.emit(&format!("ins {}", mk(&t("5"), &old, &old, None))); // full at s
            ctx.emit(&format!("insall {} | {}", mk(&old, &old, &t("1"), None), mk(&old, &t("6"), &old, None))); // 1 ok then full
        }
        ctx.emit("len");
        ctx.emit(&format!("has {}", mk(&t("1"), &t("2"), &t("3"), None)));
        ctx.emit(&format!("rem {}", mk(&t("1"), &t("2"), &t("3"), None)));
        ctx.emit(&format!("has {}", mk(&t("1"), &t("2"), &t("3"), None)));
        // queries with an unknown constant, and with a known one, on the full index
        ctx.emit(&format!("qm O {} A A{}", t("9").render(), if graph { "" } else { " GA" }));
        ctx.emit(&format!("qm O {} O {} O {}{}", old.render(), T::Iri("x:p".into()).render(), T::Lit("17".into(), "x:fill".into()).render(), if graph { "" } else { " GO -" }));
        ctx.emit(&format!("qm A A O {}{}", T::Lit("65529".into(), "x:fill".into()).render(), if graph { "" } else { " GA" }));
        ctx.emit("len");
    }
}

fn main() {
    vhcore::main_loop(generate, exec);
}
