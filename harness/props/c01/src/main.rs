//! C01 — in-memory graphs/datasets behave like a mathematical set of quads.
//!
//! A history is a sequence of request lines on ONE current store (`new` starts a new history):
//!   new <kind> <width> [via]                 ins/rem/has <quad>      insall/remall <quad> | <quad> …
//!   collect <kind> <width> <via> <quad> | …  collectfill <kind> <width> <via> <k>
//!   remm/retm/qm <sm> <pm> <om> [<gm>]       all   len   enum <which>   fill <k> <offset>   nterms
//! kinds: LD FD LG FG (sophia_inmem, width 16 | 32 | 64 = index type u16 | u32 | usize),
//!        HD BD VD = HashSet / BTreeSet / Vec of Spog,  HE BE VE = … of Gspo,  HG BG VG = … of [T; 3]
//! via:   d = the store type itself, r = reads through `&T` and mutations through `&mut T`,
//!        m = everything through `&mut T`, s = reads through the slice `[Q]` (Vec stores only)
//!        (the forwarding impls of api/src/{dataset,graph}/_foreign_impl.rs)
mod dynm;
use dynm::*;
use sophia_api::dataset::{CollectibleDataset, Dataset, MutableDataset};
use sophia_api::graph::{CollectibleGraph, Graph, MutableGraph};
use sophia_api::quad::{Gspo, Spog};
use sophia_api::term::matcher::GraphNameMatcher;
use sophia_api::term::{CmpTerm, SimpleTerm};
use sophia_inmem::dataset::{FastDataset, GenericFastDataset, GenericLightDataset, LightDataset};
use sophia_inmem::graph::{FastGraph, GenericFastGraph, GenericLightGraph, LightGraph};
use sophia_inmem::index::SimpleTermIndex;
use std::cell::RefCell;
use std::collections::{BTreeSet, HashSet};
use vhcore::tgen::{self, TermGen};
use vhcore::util::*;
use vhcore::GenCtx;

type CT = CmpTerm<SimpleTerm<'static>>;
type LD16 = sophia_inmem::dataset::small::LightDataset;
type FD16 = sophia_inmem::dataset::small::FastDataset;
type LG16 = sophia_inmem::graph::small::LightGraph;
type FG16 = sophia_inmem::graph::small::FastGraph;
type LD64 = GenericLightDataset<SimpleTermIndex<usize>>;
type FD64 = GenericFastDataset<SimpleTermIndex<usize>>;
type LG64 = GenericLightGraph<SimpleTermIndex<usize>>;
type FG64 = GenericFastGraph<SimpleTermIndex<usize>>;

enum Store {
    LD(LightDataset),
    FD(FastDataset),
    LD16(LD16),
    FD16(FD16),
    LD64(LD64),
    FD64(FD64),
    LG(LightGraph),
    FG(FastGraph),
    LG16(LG16),
    FG16(FG16),
    LG64(LG64),
    FG64(FG64),
    HD(HashSet<Spog<ST>>),
    BD(BTreeSet<Spog<CT>>),
    VD(Vec<Spog<ST>>),
    HE(HashSet<Gspo<ST>>),
    BE(BTreeSet<Gspo<CT>>),
    VE(Vec<Gspo<ST>>),
    HG(HashSet<[ST; 3]>),
    BG(BTreeSet<[CT; 3]>),
    VG(Vec<[ST; 3]>),
}

thread_local! {
    static CUR: RefCell<Option<(Store, u8)>> = const { RefCell::new(None) };
}

macro_rules! on_dataset {
    ($s:expr, $d:ident => $body:expr, else $other:expr) => {
        match $s {
            Store::LD($d) => $body,
            Store::FD($d) => $body,
            Store::LD16($d) => $body,
            Store::FD16($d) => $body,
            Store::LD64($d) => $body,
            Store::FD64($d) => $body,
            Store::HD($d) => $body,
            Store::BD($d) => $body,
            Store::VD($d) => $body,
            Store::HE($d) => $body,
            Store::BE($d) => $body,
            Store::VE($d) => $body,
            _ => $other,
        }
    };
}
macro_rules! on_graph {
    ($s:expr, $g:ident => $body:expr, else $other:expr) => {
        match $s {
            Store::LG($g) => $body,
            Store::FG($g) => $body,
            Store::LG16($g) => $body,
            Store::FG16($g) => $body,
            Store::LG64($g) => $body,
            Store::FG64($g) => $body,
            Store::HG($g) => $body,
            Store::BG($g) => $body,
            Store::VG($g) => $body,
            _ => $other,
        }
    };
}
/// `$body` sees `$d : &X` where X is the store type, `&Store` (impl … for &T) or `&mut Store`
/// (impl … for &mut T), or the slice `[Q]` of a Vec store, according to `via`
macro_rules! read_via {
    (on_dataset, $st:expr, $via:expr, $d:ident => $body:expr, else $other:expr) => {
        match ($via, &mut *$st) {
            (3, Store::VD(v)) => { let $d = &v[..]; $body }
            (3, Store::VE(v)) => { let $d = &v[..]; $body }
            (via, st) => read_via!(@fwd on_dataset, st, via, $d => $body, else $other),
        }
    };
    (on_graph, $st:expr, $via:expr, $d:ident => $body:expr, else $other:expr) => {
        match ($via, &mut *$st) {
            (3, Store::VG(v)) => { let $d = &v[..]; $body }
            (via, st) => read_via!(@fwd on_graph, st, via, $d => $body, else $other),
        }
    };
    (@fwd $on:ident, $st:expr, $via:expr, $d:ident => $body:expr, else $other:expr) => {
        $on!($st, dd => match $via {
            1 => { let $d = &&*dd; $body }
            2 => { let $d = &&mut *dd; $body }
            _ => { let $d = &*dd; $body }
        }, else $other)
    };
}
/// `$body` sees `$d : &mut X` where X is the store type or `&mut Store`
macro_rules! mut_via {
    ($on:ident, $st:expr, $via:expr, $d:ident => $body:expr, else $other:expr) => {
        $on!(&mut *$st, dd => match $via {
            1 | 2 => { let mut r = &mut *dd; let $d = &mut r; $body }
            _ => { let $d = &mut *dd; $body }
        }, else $other)
    };
}

fn is_graph(s: &Store) -> bool {
    on_graph!(s, _g => true, else false)
}

fn b(x: bool) -> &'static str {
    if x { "1" } else { "0" }
}

/// canonical text of a term/quad: tags folded to lower case (terms are compared up to `Term::eq`)
fn canon(t: &T) -> T {
    match t {
        T::Lang(l, tag) => T::Lang(l.clone(), tag.to_ascii_lowercase()),
        T::Triple(b) => T::Triple(Box::new([canon(&b[0]), canon(&b[1]), canon(&b[2])])),
        other => other.clone(),
    }
}
fn render_q(q: &Q, graph: bool) -> String {
    let s = if graph {
        format!("{} {} {}", canon(&q.s).render(), canon(&q.p).render(), canon(&q.o).render())
    } else {
        Q { s: canon(&q.s), p: canon(&q.p), o: canon(&q.o), g: q.g.as_ref().map(canon) }.render()
    };
    s.replace(' ', ",")
}
fn render_qs(mut v: Vec<String>) -> String {
    v.sort();
    if v.is_empty() { "_".into() } else { v.join(";") }
}
fn render_ts(v: Vec<T>) -> String {
    let mut v: Vec<String> = v.iter().map(|t| canon(t).render().replace(' ', ",")).collect();
    v.sort();
    v.dedup();
    if v.is_empty() { "_".into() } else { v.join(";") }
}

fn parse_quads(s: &str) -> Option<Vec<Q>> {
    s.split('|').filter(|p| !p.trim().is_empty()).map(|p| Q::parse(&mut p.split_whitespace().peekable())).collect()
}

type SQ = ([ST; 3], Option<ST>);
fn sq(q: &Q) -> SQ {
    tgen::q_to_simple(q)
}

fn via_code(s: Option<&str>) -> Option<u8> {
    Some(match s {
        None | Some("d") => 0,
        Some("r") => 1,
        Some("m") => 2,
        Some("s") => 3,
        _ => return None,
    })
}

fn new_store(kind: &str, width: &str) -> Option<Store> {
    Some(match (kind, width) {
        ("LD", "32") => Store::LD(LightDataset::new()),
        ("FD", "32") => Store::FD(FastDataset::new()),
        ("LD", "16") => Store::LD16(LD16::new()),
        ("FD", "16") => Store::FD16(FD16::new()),
        ("LD", "64") => Store::LD64(LD64::new()),
        ("FD", "64") => Store::FD64(FD64::new()),
        ("LG", "32") => Store::LG(LightGraph::new()),
        ("FG", "32") => Store::FG(FastGraph::new()),
        ("LG", "16") => Store::LG16(LG16::new()),
        ("FG", "16") => Store::FG16(FG16::new()),
        ("LG", "64") => Store::LG64(LG64::new()),
        ("FG", "64") => Store::FG64(FG64::new()),
        ("HD", _) => Store::HD(HashSet::new()),
        ("BD", _) => Store::BD(BTreeSet::new()),
        ("VD", _) => Store::VD(Vec::new()),
        ("HE", _) => Store::HE(HashSet::new()),
        ("BE", _) => Store::BE(BTreeSet::new()),
        ("VE", _) => Store::VE(Vec::new()),
        ("HG", _) => Store::HG(HashSet::new()),
        ("BG", _) => Store::BG(BTreeSet::new()),
        ("VG", _) => Store::VG(Vec::new()),
        _ => return None,
    })
}

/// `CollectibleDataset::from_quad_source` / `CollectibleGraph::from_triple_source`; `Err(())` = sink error
fn collect_store(kind: &str, width: &str, qs: Vec<SQ>, k: Option<usize>) -> Option<Result<Store, &'static str>> {
    macro_rules! cd { ($t:ty, $v:path) => { <$t>::from_quad_source(failing(qs, k)).map($v).map_err(|e| if e.is_sink_error() { "full" } else { "srcerr" }) } }
    macro_rules! cg { ($t:ty, $v:path) => { <$t>::from_triple_source(failing(qs.into_iter().map(|(spo, _)| spo).collect::<Vec<_>>(), k)).map($v).map_err(|e| if e.is_sink_error() { "full" } else { "srcerr" }) } }
    Some(match (kind, width) {
        ("LD", "32") => cd!(LightDataset, Store::LD),
        ("FD", "32") => cd!(FastDataset, Store::FD),
        ("LD", "16") => cd!(LD16, Store::LD16),
        ("FD", "16") => cd!(FD16, Store::FD16),
        ("LD", "64") => cd!(LD64, Store::LD64),
        ("FD", "64") => cd!(FD64, Store::FD64),
        ("LG", "32") => cg!(LightGraph, Store::LG),
        ("FG", "32") => cg!(FastGraph, Store::FG),
        ("LG", "16") => cg!(LG16, Store::LG16),
        ("FG", "16") => cg!(FG16, Store::FG16),
        ("LG", "64") => cg!(LG64, Store::LG64),
        ("FG", "64") => cg!(FG64, Store::FG64),
        ("HD", _) => cd!(HashSet<Spog<ST>>, Store::HD),
        ("BD", _) => cd!(BTreeSet<Spog<CT>>, Store::BD),
        ("VD", _) => cd!(Vec<Spog<ST>>, Store::VD),
        ("HE", _) => cd!(HashSet<Gspo<ST>>, Store::HE),
        ("BE", _) => cd!(BTreeSet<Gspo<CT>>, Store::BE),
        ("VE", _) => cd!(Vec<Gspo<ST>>, Store::VE),
        ("HG", _) => cg!(HashSet<[ST; 3]>, Store::HG),
        ("BG", _) => cg!(BTreeSet<[CT; 3]>, Store::BG),
        ("VG", _) => cg!(Vec<[ST; 3]>, Store::VG),
        _ => return None,
    })
}

/// a source that yields the first `k` items and then fails
#[derive(Debug)]
struct SrcErr;
impl std::fmt::Display for SrcErr {
    fn fmt(&self, f: &mut std::fmt::Formatter<'_>) -> std::fmt::Result {
        write!(f, "source error")
    }
}
impl std::error::Error for SrcErr {}
fn failing<X>(v: Vec<X>, k: Option<usize>) -> impl Iterator<Item = Result<X, SrcErr>> {
    let n = v.len();
    let k = k.unwrap_or(n).min(n);
    let fail = k < n;
    v.into_iter().take(k).map(Ok).chain((if fail { Some(Err(SrcErr)) } else { None }).into_iter())
}
/// outcome of a bulk operation: the count, the sink's error (`full`) or the source's (`srcerr`)
fn bulk<E1, E2>(r: Result<usize, sophia_api::source::StreamError<E1, E2>>) -> String
where
    E1: std::error::Error + Send + Sync + 'static,
    E2: std::error::Error + Send + Sync + 'static,
{
    match r {
        Ok(n) => format!("n={}", n),
        Err(e) if e.is_sink_error() => "n=full".into(),
        Err(_) => "n=srcerr".into(),
    }
}

fn store_len(st: &mut Store) -> usize {
    on_dataset!(st, d => d.quads().count(), else on_graph!(st, g => g.triples().count(), else 0))
}

fn fill_quad(i: usize) -> SQ {
    (
        [tgen::to_simple(&T::Iri("x:s".into())), tgen::to_simple(&T::Iri("x:p".into())), tgen::to_simple(&T::Lit(i.to_string(), "x:fill".into()))],
        None,
    )
}

pub fn exec(line: &str) -> String {
    let (op, rest) = line.split_once(' ').unwrap_or((line, ""));
    if op == "new" {
        let f: Vec<&str> = rest.split_whitespace().collect();
        if f.len() < 2 {
            return "bad-op".into();
        }
        let (Some(st), Some(via)) = (new_store(f[0], f[1]), via_code(f.get(2).copied())) else { return "bad-op".into() };
        CUR.with(|c| *c.borrow_mut() = Some((st, via)));
        return "ok=1".into();
    }
    if op == "collect" || op == "collectx" || op == "collectfill" {
        let mut it = rest.splitn(if op == "collectx" { 5 } else { 4 }, ' ');
        let (Some(kind), Some(width), Some(via)) = (it.next(), it.next(), it.next()) else { return "bad-op".into() };
        let Some(via) = via_code(Some(via)) else { return "bad-op".into() };
        let k: Option<usize> = if op == "collectx" {
            let Some(Ok(k)) = it.next().map(|k| k.parse::<usize>()) else { return "bad-op".into() };
            Some(k)
        } else {
            None
        };
        let tail = it.next().unwrap_or("");
        let sqs: Vec<SQ> = if op != "collectfill" {
            let Some(qs) = parse_quads(tail) else { return "bad-op".into() };
            qs.iter().map(sq).collect()
        } else {
            let Ok(k) = tail.trim().parse::<usize>() else { return "bad-op".into() };
            (0..k).map(fill_quad).collect()
        };
        let Some(r) = collect_store(kind, width, sqs, k) else { return "bad-op".into() };
        return match r {
            Ok(mut st) => {
                let n = store_len(&mut st);
                CUR.with(|c| *c.borrow_mut() = Some((st, via)));
                format!("n={}", n)
            }
            Err(why) => {
                // the half-built store is dropped by the library: go on with a fresh empty one
                CUR.with(|c| *c.borrow_mut() = new_store(kind, width).map(|st| (st, via)));
                format!("n={}", why)
            }
        };
    }
    CUR.with(|c| {
        let mut guard = c.borrow_mut();
        let Some((st, via)) = guard.as_mut() else { return "bad-op".to_string() };
        let via = *via;
        let graph = is_graph(st);
        match op {
            "ins" | "rem" | "has" => {
                let Some(q) = Q::parse(&mut rest.split_whitespace().peekable()) else { return "bad-op".into() };
                let (spo, g) = sq(&q);
                let [s, p, o] = spo;
                let r: Result<bool, ()> = match op {
                    "ins" => mut_via!(on_dataset, st, via, d => MutableDataset::insert(d, &s, &p, &o, g.as_ref()).map_err(|_| ()),
                        else mut_via!(on_graph, st, via, gr => MutableGraph::insert(gr, &s, &p, &o).map_err(|_| ()), else Err(()))),
                    "rem" => mut_via!(on_dataset, st, via, d => MutableDataset::remove(d, &s, &p, &o, g.as_ref()).map_err(|_| ()),
                        else mut_via!(on_graph, st, via, gr => MutableGraph::remove(gr, &s, &p, &o).map_err(|_| ()), else Err(()))),
                    _ => read_via!(on_dataset, st, via, d => Dataset::contains(d, &s, &p, &o, g.as_ref()).map_err(|_| ()),
                        else read_via!(on_graph, st, via, gr => Graph::contains(gr, &s, &p, &o).map_err(|_| ()), else Err(()))),
                };
                match r {
                    Ok(x) => format!("r={}", b(x)),
                    Err(()) => "r=full".into(),
                }
            }
            "insall" | "remall" | "insallx" | "remallx" => {
                let (k, rest) = if op.ends_with('x') {
                    let Some((k, r)) = rest.split_once(' ') else { return "bad-op".into() };
                    let Ok(k) = k.parse::<usize>() else { return "bad-op".into() };
                    (Some(k), r)
                } else {
                    (None, rest)
                };
                let Some(qs) = parse_quads(rest) else { return "bad-op".into() };
                let sqs: Vec<SQ> = qs.iter().map(sq).collect();
                let ins = op.starts_with("ins");
                if graph {
                    let ts: Vec<[ST; 3]> = sqs.into_iter().map(|(spo, _)| spo).collect();
                    if ins {
                        mut_via!(on_graph, st, via, gr => bulk(MutableGraph::insert_all(gr, failing(ts, k))), else "bad-op".into())
                    } else {
                        mut_via!(on_graph, st, via, gr => bulk(MutableGraph::remove_all(gr, failing(ts, k))), else "bad-op".into())
                    }
                } else if ins {
                    mut_via!(on_dataset, st, via, d => bulk(MutableDataset::insert_all(d, failing(sqs, k))), else "bad-op".into())
                } else {
                    mut_via!(on_dataset, st, via, d => bulk(MutableDataset::remove_all(d, failing(sqs, k))), else "bad-op".into())
                }
            }
            "qm" | "remm" | "retm" => {
                let mut toks = rest.split_whitespace().peekable();
                let (Some(sm), Some(pm), Some(om)) = (parse_tm(&mut toks), parse_tm(&mut toks), parse_tm(&mut toks)) else {
                    return "bad-op".into();
                };
                if graph {
                    if toks.peek().is_some() {
                        return "bad-op".into();
                    }
                    match op {
                        "qm" => {
                            let v: Vec<String> = read_via!(on_graph, st, via, gr => Graph::triples_matching(gr, DMRef(&sm), DMRef(&pm), DMRef(&om))
                                .map(|t| render_q(&tgen::view_triple(t.unwrap()), true)).collect(), else vec![]);
                            // the contract of `constant()` on the terms at hand
                            let all: Vec<SQ> = on_graph!(&mut *st, gr => gr.triples().map(|t| sq(&tgen::view_triple(t.unwrap()))).collect(), else vec![]);
                            let bad = [(&sm, 0), (&pm, 1), (&om, 2)].iter().find_map(|(m, i)| tm_constant_unsound(m, all.iter().map(|q| &q.0[*i])));
                            match bad {
                                Some(why) => format!("n={} quads={} FAIL.constant_unsound={}", v.len(), render_qs(v), hex(&why)),
                                None => format!("n={} quads={}", v.len(), render_qs(v)),
                            }
                        }
                        "remm" => {
                            let r = mut_via!(on_graph, st, via, gr => MutableGraph::remove_matching(gr, DMRef(&sm), DMRef(&pm), DMRef(&om)).map_err(|_| ()), else Err(()));
                            match r { Ok(n) => format!("n={}", n), Err(()) => "n=err".into() }
                        }
                        _ => {
                            let r = mut_via!(on_graph, st, via, gr => MutableGraph::retain_matching(gr, DMRef(&sm), DMRef(&pm), DMRef(&om)).map_err(|_| ()), else Err(()));
                            match r { Ok(()) => "ok=1".into(), Err(()) => "ok=err".into() }
                        }
                    }
                } else {
                    let Some(gm) = parse_gm(&mut toks) else { return "bad-op".into() };
                    if toks.peek().is_some() {
                        return "bad-op".into();
                    }
                    match op {
                        "qm" => {
                            let v: Vec<String> = read_via!(on_dataset, st, via, d => Dataset::quads_matching(d, DMRef(&sm), DMRef(&pm), DMRef(&om), GraphNameMatcher::matcher_ref(&gm))
                                .map(|q| render_q(&tgen::view_quad(q.unwrap()), false)).collect(), else vec![]);
                            let all: Vec<SQ> = on_dataset!(&mut *st, d => d.quads().map(|q| sq(&tgen::view_quad(q.unwrap()))).collect(), else vec![]);
                            let bad = [(&sm, 0), (&pm, 1), (&om, 2)].iter().find_map(|(m, i)| tm_constant_unsound(m, all.iter().map(|q| &q.0[*i])))
                                .or_else(|| gm_constant_unsound(&gm, all.iter().map(|q| q.1.as_ref())));
                            match bad {
                                Some(why) => format!("n={} quads={} FAIL.constant_unsound={}", v.len(), render_qs(v), hex(&why)),
                                None => format!("n={} quads={}", v.len(), render_qs(v)),
                            }
                        }
                        "remm" => {
                            let r = mut_via!(on_dataset, st, via, d => MutableDataset::remove_matching(d, DMRef(&sm), DMRef(&pm), DMRef(&om), GraphNameMatcher::matcher_ref(&gm)).map_err(|_| ()), else Err(()));
                            match r { Ok(n) => format!("n={}", n), Err(()) => "n=err".into() }
                        }
                        _ => {
                            let r = mut_via!(on_dataset, st, via, d => MutableDataset::retain_matching(d, DMRef(&sm), DMRef(&pm), DMRef(&om), GraphNameMatcher::matcher_ref(&gm)).map_err(|_| ()), else Err(()));
                            match r { Ok(()) => "ok=1".into(), Err(()) => "ok=err".into() }
                        }
                    }
                }
            }
            "all" => {
                let v: Vec<String> = read_via!(on_dataset, st, via, d => Dataset::quads(d).map(|q| render_q(&tgen::view_quad(q.unwrap()), false)).collect(),
                    else read_via!(on_graph, st, via, g => Graph::triples(g).map(|t| render_q(&tgen::view_triple(t.unwrap()), true)).collect(), else vec![]));
                format!("n={} quads={}", v.len(), render_qs(v))
            }
            "len" => {
                let n = read_via!(on_dataset, st, via, d => Dataset::quads(d).count(), else read_via!(on_graph, st, via, g => Graph::triples(g).count(), else 0));
                format!("n={}", n)
            }
            "enum" => {
                macro_rules! en { ($m:ident) => {
                    read_via!(on_dataset, st, via, d => Dataset::$m(d).map(|t| tgen::view(t.unwrap())).collect::<Vec<T>>(),
                        else read_via!(on_graph, st, via, g => Graph::$m(g).map(|t| tgen::view(t.unwrap())).collect::<Vec<T>>(), else vec![]))
                } }
                let v: Vec<T> = match rest.trim() {
                    "subjects" => en!(subjects),
                    "predicates" => en!(predicates),
                    "objects" => en!(objects),
                    "graphs" => read_via!(on_dataset, st, via, d => Dataset::graph_names(d).map(|t| tgen::view(t.unwrap())).collect(), else vec![]),
                    "iris" => en!(iris),
                    "bnodes" => en!(blank_nodes),
                    "literals" => en!(literals),
                    "vars" => en!(variables),
                    "qtriples" => en!(quoted_triples),
                    _ => return "bad-op".into(),
                };
                format!("terms={}", render_ts(v))
            }
            "fill" => {
                let f: Vec<&str> = rest.split_whitespace().collect();
                let (k, off): (usize, usize) = (f[0].parse().unwrap(), f[1].parse().unwrap());
                let mut n = 0;
                for i in 0..k {
                    let ([s, p, o], _) = fill_quad(i + off);
                    let r: Result<bool, ()> = mut_via!(on_dataset, st, via, d => MutableDataset::insert(d, &s, &p, &o, None::<&ST>).map_err(|_| ()),
                        else mut_via!(on_graph, st, via, gr => MutableGraph::insert(gr, &s, &p, &o).map_err(|_| ()), else Err(())));
                    match r {
                        Ok(true) => n += 1,
                        Ok(false) => {}
                        Err(()) => return "n=full".into(),
                    }
                }
                format!("n={}", n)
            }
            "nterms" => "nterms=?".into(),
            _ => "bad-op".into(),
        }
    })
}

// ---------------------------------------------------------------- generation

fn gen_tm(g: &TermGen, r: &mut Rng, depth: usize, stats: &mut Stats) -> String {
    let k = r.below(if depth > 0 { 14 } else { 12 });
    let name;
    let s = match k {
        0 | 1 => {
            name = "any";
            "A".to_string()
        }
        2 | 3 => {
            name = "opt";
            format!("O {}", g.term(r, 1).render())
        }
        4 => {
            name = "none";
            "N".into()
        }
        5 => {
            name = "slice";
            let n = r.below(4);
            let mut s = format!("S {}", n);
            for _ in 0..n {
                s += &format!(" {}", g.term(r, 1).render());
            }
            s
        }
        6 => {
            name = "array";
            let n = r.range(1, 2);
            let mut s = format!("R {}", n);
            for _ in 0..n {
                s += &format!(" {}", g.term(r, 1).render());
            }
            s
        }
        7 => {
            name = "kind";
            format!("K {}", r.pick(&["iri", "bnode", "literal", "triple", "variable"]))
        }
        8 => {
            name = "datatype";
            {
                let opts = [g.datatypes[0].clone(), g.datatypes[1].clone(), "http://www.w3.org/1999/02/22-rdf-syntax-ns#langString".to_string()];
                format!("D {}", hex(r.pick(&opts[..]).as_str()))
            }
        }
        9 => {
            name = "langtag";
            format!("L {}", hex(r.pick(&g.tags[..]).as_str()))
        }
        10 | 11 => {
            name = "closure";
            format!("F {}", r.below(2))
        }
        12 => {
            name = "not";
            format!("! {}", gen_tm(g, r, depth - 1, stats))
        }
        _ => {
            name = "triple";
            format!("T {} {} {}", gen_tm(g, r, depth - 1, stats), gen_tm(g, r, depth - 1, stats), gen_tm(g, r, depth - 1, stats))
        }
    };
    stats.bump(&format!("matcher.{}", name));
    s
}

fn gen_gname(g: &TermGen, r: &mut Rng) -> String {
    match r.below(4) {
        0 | 1 => "-".into(),
        2 => g.iri(r).render(),
        _ => g.bnode(r).render(),
    }
}

fn gen_gm(g: &TermGen, r: &mut Rng, depth: usize, stats: &mut Stats) -> String {
    let k = r.below(if depth > 0 { 12 } else { 11 });
    let name;
    let s = match k {
        0 | 1 => {
            name = "gany";
            "GA".to_string()
        }
        2 | 3 => {
            name = "gopt";
            format!("GO {}", gen_gname(g, r))
        }
        4 => {
            name = "gnone";
            "GN".into()
        }
        5 => {
            name = "gslice";
            let n = r.below(4);
            let mut s = format!("GS {}", n);
            for _ in 0..n {
                s += &format!(" {}", gen_gname(g, r));
            }
            s
        }
        6 => {
            name = "garray";
            let n = r.range(1, 2);
            let mut s = format!("GR {}", n);
            for _ in 0..n {
                s += &format!(" {}", gen_gname(g, r));
            }
            s
        }
        7 => {
            name = "gkind";
            format!("GK {}", r.pick(&["none", "iri", "bnode", "literal"]))
        }
        8 => {
            name = "gclosure";
            format!("GF {}", r.below(2))
        }
        9 => {
            name = "gtriple";
            if r.chance(1, 2) { "GT none".into() } else { format!("GT {} {} {}", gen_tm(g, r, 0, stats), gen_tm(g, r, 0, stats), gen_tm(g, r, 0, stats)) }
        }
        10 => {
            name = "gn";
            format!("Gm {}", gen_tm(g, r, 1, stats))
        }
        _ => {
            name = "gnot";
            format!("G! {}", gen_gm(g, r, depth - 1, stats))
        }
    };
    stats.bump(&format!("matcher.{}", name));
    s
}

fn kind_name(t: &T) -> &'static str {
    match t {
        T::Iri(_) => "iri",
        T::Bnode(_) => "bnode",
        T::Lit(..) | T::Lang(..) => "literal",
        T::Triple(_) => "triple",
        T::Var(_) => "variable",
    }
}

/// a NON-constant matcher that accepts `term` but is selective (its kind, a 2-element set containing it,
/// the negation of another constant, the closure of its parity): results stay non-empty while each
/// position's residual matcher accepts something different — swapping two of them changes the result
fn selective_tm(g: &TermGen, r: &mut Rng, term: &T, stats: &mut Stats) -> String {
    stats.bump("matcher.selective");
    match r.below(5) {
        0 => format!("K {}", kind_name(term)),
        1 => format!("S 2 {} {}", term.render(), g.term(r, 1).render()),
        2 => format!("R 2 {} {}", g.term(r, 1).render(), term.render()),
        3 => format!("F {}", weight(term) % 2),
        _ => {
            let other = g.term(r, 1);
            if canon(&other) == canon(term) { format!("K {}", kind_name(term)) } else { format!("! O {}", other.render()) }
        }
    }
}

fn selective_gm(g: &TermGen, r: &mut Rng, gn: &Option<T>, stats: &mut Stats) -> String {
    stats.bump("matcher.gselective");
    let show = |x: &Option<T>| x.as_ref().map(|t| t.render()).unwrap_or("-".into());
    match r.below(4) {
        0 => match gn {
            None => "GK none".to_string(),
            Some(t) if matches!(t, T::Triple(_) | T::Var(_)) => format!("Gm K {}", kind_name(t)),
            Some(t) => format!("GK {}", kind_name(t)),
        },
        1 => format!("GS 2 {} {}", show(gn), gen_gname(g, r)),
        2 => format!("GF {}", gn.as_ref().map(weight).unwrap_or(0) % 2),
        _ => match gn {
            Some(t) => format!("Gm {}", selective_tm(g, r, t, stats)),
            None => format!("G! GK {}", r.pick(&["iri", "bnode", "literal"])),
        },
    }
}

fn gen_pat(g: &TermGen, r: &mut Rng, graph: bool, stats: &mut Stats, pool: &[Q]) -> String {
    // Most patterns are derived from an existing quad so that every index arm is hit with constants
    // that exist and results are non-empty; per position: exact constant / Any / another matcher.
    let mut parts = vec![];
    let q = if !pool.is_empty() && r.chance(4, 5) { Some(r.pick(pool).clone()) } else { None };
    let mut shape = String::new();
    for i in 0..3 {
        let roll = r.below(10);
        if let (Some(q), true) = (&q, roll < 4) {
            let term = [&q.s, &q.p, &q.o][i];
            shape.push('1');
            parts.push(match r.below(3) {
                0 => format!("O {}", term.render()),
                1 => format!("S 1 {}", term.render()),
                _ => format!("R 1 {}", term.render()),
            });
        } else if let (Some(q), true) = (&q, roll < 7) {
            shape.push('0');
            parts.push(selective_tm(g, r, [&q.s, &q.p, &q.o][i], stats));
        } else if roll < 9 {
            shape.push('0');
            stats.bump("matcher.any");
            parts.push("A".to_string());
        } else {
            let m = gen_tm(g, r, 1, stats);
            shape.push(if m.starts_with("O ") || m.starts_with("S 1 ") || m.starts_with("R 1 ") { '1' } else { '0' });
            parts.push(m);
        }
    }
    if !graph {
        let roll = r.below(10);
        if let (Some(q), true) = (&q, roll < 4) {
            let gn = match &q.g {
                None => "-".to_string(),
                Some(t) => t.render(),
            };
            shape.push('1');
            parts.push(match r.below(4) {
                0 => format!("GO {}", gn),
                1 => format!("GS 1 {}", gn),
                2 => format!("GR 1 {}", gn),
                _ => match &q.g {
                    Some(t) => format!("Gm O {}", t.render()),
                    None => "GO -".into(),
                },
            });
        } else if let (Some(q), true) = (&q, roll < 7) {
            shape.push('0');
            parts.push(selective_gm(g, r, &q.g, stats));
        } else if roll < 9 {
            shape.push('0');
            stats.bump("matcher.gany");
            parts.push("GA".to_string());
        } else {
            let m = gen_gm(g, r, 1, stats);
            shape.push(if m.starts_with("GO ") || m.starts_with("GS 1 ") || m.starts_with("GR 1 ") || m.starts_with("Gm O ") || m.starts_with("Gm S 1 ") || m.starts_with("Gm R 1 ") { '1' } else { '0' });
            parts.push(m);
        }
    }
    stats.bump(&format!("bound_shape.{}", shape));
    parts.join(" ")
}

const KINDS: &[(&str, &str)] = &[
    ("LD", "32"), ("FD", "32"), ("LD", "16"), ("FD", "16"), ("LD", "64"), ("FD", "64"),
    ("LG", "32"), ("FG", "32"), ("LG", "16"), ("FG", "16"), ("LG", "64"), ("FG", "64"),
    ("HD", "0"), ("BD", "0"), ("VD", "0"), ("HE", "0"), ("BE", "0"), ("VE", "0"), ("HG", "0"), ("BG", "0"), ("VG", "0"),
];

fn size_bucket(n: usize) -> &'static str {
    match n {
        0 => "0",
        1..=4 => "1-4",
        5..=24 => "5-24",
        25..=99 => "25-99",
        _ => "100+",
    }
}

/// emit a request and run it on the real store right away (same process, same thread-local store),
/// only to MEASURE what the generated histories reach: store sizes, result sizes, flags
fn emit_run(ctx: &mut GenCtx, line: &str) {
    ctx.emit(line);
    let op = line.split(' ').next().unwrap_or("");
    let reply = catch(std::panic::AssertUnwindSafe(|| exec(line))).unwrap_or_default();
    let field = |k: &str| reply.split(' ').find_map(|t| t.strip_prefix(k)).map(|v| v.to_string());
    match op {
        "all" | "qm" => {
            if let Some(n) = field("n=").and_then(|v| v.parse::<usize>().ok()) {
                ctx.stats.bump(&format!("{}.{}", if op == "all" { "store_size" } else { "result_size" }, size_bucket(n)));
            }
        }
        "ins" | "rem" | "has" => {
            if let Some(r) = field("r=") {
                ctx.stats.bump(&format!("flag.{}.{}", op, r));
            }
        }
        "remm" | "insall" | "remall" | "insallx" | "remallx" | "collect" | "collectx" | "collectfill" => {
            if let Some(n) = field("n=") {
                ctx.stats.bump(&format!("count.{}.{}", op, n.parse::<usize>().map(size_bucket).unwrap_or(if n == "srcerr" { "srcerr" } else { "full" })));
            }
        }
        _ => {}
    }
}

pub fn generate(ctx: &mut GenCtx) {
    let histories = if ctx.thorough { 2520 } else { 126 };
    for h in 0..histories {
        let (kind, width) = KINDS[h % KINDS.len()];
        let graph = kind.ends_with('G');
        let vec_like = kind.starts_with('V');
        // two profiles: "small" = few distinct terms (collisions, duplicates, small stores), "big" = the full
        // alphabets, insert-heavy: stores of 50..150 quads with > 9 distinct terms per position
        let big = (h / KINDS.len()) % 3 == 2;
        let mut g = TermGen::default();
        if big {
            for i in 0..6 {
                g.iris.push(format!("http://ex.org/n{}", i));
                g.bnodes.push(format!("n{}", i));
            }
        } else {
            g.iris.truncate(4);
            g.lexicals.truncate(5);
        }
        ctx.stats.bump(if big { "profile.big" } else { "profile.small" });
        // through which impl the store is called: the type itself, `&T` / `&mut T`, the slice `[Q]`
        let via = match ctx.rng.below(10) {
            0..=2 => "d",
            3..=5 => "r",
            6..=7 => "m",
            _ => if vec_like { "s" } else { "d" },
        };
        ctx.stats.bump(&format!("via.{}", via));
        ctx.stats.bump(&format!("store.{}{}", kind, width));
        let generalized = h % 3 != 0;
        let mut pool: Vec<Q> = vec![];
        let mk_quad = |g: &TermGen, r: &mut Rng, stats: &mut Stats, pool: &[Q]| -> Q {
            let mut q = if generalized { g.any_quad(r) } else { g.strict_quad(r) };
            // the same term in several positions of one quad (s = p, p = o, s = g …): per-position
            // caches keyed by index must not be confused by equal indexes in different positions
            if generalized && r.chance(1, 4) {
                match r.below(if graph { 3 } else { 5 }) {
                    0 => q.p = q.s.clone(),
                    1 => q.o = q.p.clone(),
                    2 => q.o = q.s.clone(),
                    3 => q.g = Some(q.s.clone()),
                    _ => q.g = Some(q.o.clone()),
                }
                stats.bump("same_term_two_positions");
            }
            // re-use known quads often (duplicates, removal of present quads)
            if !pool.is_empty() && r.chance(if big { 1 } else { 2 }, 5) {
                q = r.pick(pool).clone();
                // … sometimes with a case-variant tag (must collide in the term index)
                if let T::Lang(l, t) = &q.o {
                    if r.chance(1, 2) {
                        q.o = T::Lang(l.clone(), if t.chars().any(|c| c.is_ascii_uppercase()) { t.to_lowercase() } else { t.to_uppercase() });
                        stats.bump("case_variant_tag");
                    }
                }
            }
            if graph {
                q.g = None;
            }
            q
        };
        // a history starts with an empty store or with one collected from a source (duplicates included)
        if ctx.rng.chance(1, 3) {
            let k = ctx.rng.range(0, if big { 30 } else { 8 });
            let mut v = vec![];
            for _ in 0..k {
                let q = mk_quad(&g, &mut ctx.rng, &mut ctx.stats, &pool);
                pool.push(q.clone());
                v.push(q.render());
            }
            if !v.is_empty() && ctx.rng.chance(1, 5) {
                // the source fails: no store is built
                ctx.stats.bump("op.collectx");
                pool.clear();
                let k = ctx.rng.below(v.len());
                emit_run(ctx, &format!("collectx {} {} {} {} {}", kind, width, via, k, v.join(" | ")));
            } else {
                ctx.stats.bump("op.collect");
                emit_run(ctx, &format!("collect {} {} {} {}", kind, width, via, v.join(" | ")));
            }
        } else {
            emit_run(ctx, &format!("new {} {} {}", kind, width, via));
        }
        let n = if big { ctx.rng.range(80, if ctx.thorough { 260 } else { 160 }) } else { ctx.rng.range(15, if ctx.thorough { 150 } else { 70 }) };
        for _ in 0..n {
            let q = mk_quad(&g, &mut ctx.rng, &mut ctx.stats, &pool);
            let op = ctx.rng.below(if big { 48 } else { 41 });
            let line = match op {
                0..=13 | 41..=47 => {
                    pool.push(q.clone());
                    format!("ins {}", q.render())
                }
                14 => "all".to_string(),
                15..=18 => format!("rem {}", q.render()),
                19..=20 => format!("has {}", q.render()),
                21..=23 => {
                    let k = ctx.rng.range(0, 4);
                    let mut v = vec![];
                    for _ in 0..k {
                        let mut q2 = if ctx.rng.chance(1, 2) && !pool.is_empty() { ctx.rng.pick(&pool).clone() } else { g.strict_quad(&mut ctx.rng) };
                        if graph {
                            q2.g = None;
                        }
                        pool.push(q2.clone());
                        v.push(q2.render());
                    }
                    // sometimes the source fails after k quads: those before the failure must be in
                    if !v.is_empty() && ctx.rng.chance(1, 4) {
                        format!("insallx {} {}", ctx.rng.below(v.len()), v.join(" | "))
                    } else {
                        format!("insall {}", v.join(" | "))
                    }
                }
                24 => {
                    let k = ctx.rng.range(0, 3);
                    let mut v = vec![];
                    for _ in 0..k {
                        let mut q2 = if ctx.rng.chance(3, 4) && !pool.is_empty() { ctx.rng.pick(&pool).clone() } else { g.strict_quad(&mut ctx.rng) };
                        if graph {
                            q2.g = None;
                        }
                        v.push(q2.render());
                    }
                    if !v.is_empty() && ctx.rng.chance(1, 4) {
                        format!("remallx {} {}", ctx.rng.below(v.len()), v.join(" | "))
                    } else {
                        format!("remall {}", v.join(" | "))
                    }
                }
                25..=35 => format!("qm {}", gen_pat(&g, &mut ctx.rng, graph, &mut ctx.stats, &pool)),
                36 => format!("remm {}", gen_pat(&g, &mut ctx.rng, graph, &mut ctx.stats, &pool)),
                // retain_matching with a negated narrow pattern keeps most of the store
                37 => if ctx.rng.chance(1, 3) && !big { format!("retm {}", gen_pat(&g, &mut ctx.rng, graph, &mut ctx.stats, &pool)) } else {
                    let victim = if pool.is_empty() { g.iri(&mut ctx.rng) } else { ctx.rng.pick(&pool).o.clone() };
                    format!("retm A A ! O {}{}", victim.render(), if graph { "" } else { " GA" })
                },
                38 | 39 => format!("enum {}", ctx.rng.pick(&["subjects", "predicates", "objects", "graphs", "iris", "bnodes", "literals", "vars", "qtriples"])),
                _ => {
                    // rebuild the store from a source made of (part of) what was inserted so far
                    if ctx.rng.chance(1, 3) {
                        let k = ctx.rng.range(0, 10).min(pool.len());
                        let v: Vec<Q> = (0..k).map(|_| ctx.rng.pick(&pool).clone()).collect();
                        pool = v.clone();
                        format!("collect {} {} {} {}", kind, width, via, v.iter().map(|q| q.render()).collect::<Vec<_>>().join(" | "))
                    } else {
                        "len".to_string()
                    }
                }
            };
            let opname = line.split(' ').next().unwrap().to_string();
            ctx.stats.bump(&format!("op.{}", opname));
            if vec_like {
                ctx.stats.bump(&format!("vec_op.{}", opname));
            }
            emit_run(ctx, &line);
        }
        emit_run(ctx, "all");
        if h < 2 {
            ctx.stats.sample(format!("history {} on {}{} via {} with {} ops", h, kind, width, via, n));
        }
    }
    // the term-index-full boundary of the 16-bit stores, on each of s / p / o / g
    for (kind, width) in [("LD", "16"), ("FD", "16"), ("LG", "16"), ("FG", "16")] {
        if !ctx.thorough && kind.starts_with('F') {
            continue; // the heavily indexed variants take six times the memory/time: thorough only
        }
        let graph = kind.ends_with('G');
        let t = |s: &str| T::Iri(format!("x:new{}", s));
        let old = T::Iri("x:s".into());
        let oldp = T::Iri("x:p".into());
        let lit = |i: usize| T::Lit(i.to_string(), "x:fill".into());
        let mk = |s: &T, p: &T, o: &T, gn: Option<&T>| Q { s: s.clone(), p: p.clone(), o: o.clone(), g: if graph { None } else { gn.cloned() } }.render();
        let ga = if graph { "" } else { " GA" };

        // (A) an index with NO room left: x:s, x:p + 65533 literals = 65535 terms = indices 0..=65534, and
        // MAX = 65535 is never issued. Every outcome is determined by the property alone (a quad with a
        // new term cannot be inserted, whatever the lookup order; nothing can leak), so all of it is oracle.
        let via = *ctx.rng.pick(&["d", "r", "m"]);
        ctx.emit(&format!("new {} {} {}", kind, width, via));
        ctx.stats.bump("history.index_full_no_room");
        ctx.emit("fill 65533 0");
        ctx.emit("len");
        ctx.emit(&format!("ins {}", mk(&t("1"), &old, &old, None))); // full at s
        ctx.emit(&format!("ins {}", mk(&old, &t("1"), &old, None))); // full at p
        ctx.emit(&format!("ins {}", mk(&old, &old, &t("1"), None))); // full at o
        if !graph {
            ctx.emit(&format!("ins {}", mk(&old, &old, &old, Some(&t("1"))))); // full at g
            ctx.emit(&format!("ins {}", mk(&old, &old, &old, Some(&oldp)))); // known terms only: fits
        }
        ctx.emit(&format!("ins {}", mk(&old, &old, &old, None))); // known terms only: fits
        ctx.emit(&format!("ins {}", mk(&lit(65532), &lit(0), &old, None))); // the last and the first index issued
        ctx.emit(&format!("insall {} | {} | {}", mk(&oldp, &old, &old, None), mk(&old, &t("6"), &old, None), mk(&oldp, &oldp, &old, None))); // 1 ok then full
        ctx.emit("len");
        ctx.emit(&format!("has {}", mk(&lit(65532), &lit(0), &old, None)));
        ctx.emit(&format!("has {}", mk(&t("1"), &old, &old, None)));
        ctx.emit(&format!("rem {}", mk(&t("1"), &old, &old, None)));
        ctx.emit(&format!("rem {}", mk(&old, &old, &old, None)));
        ctx.emit(&format!("qm O {} A A{}", t("9").render(), ga)); // unknown constant
        ctx.emit(&format!("qm O {} A O {}{}", lit(65532).render(), old.render(), ga)); // the last index issued, as a constant
        ctx.emit(&format!("qm O {} O {} O {}{}", old.render(), oldp.render(), lit(17).render(), if graph { "" } else { " GO -" }));
        if !graph {
            ctx.emit(&format!("qm A A A GO {}", oldp.render())); // the one named graph
            ctx.emit(&format!("qm A O {} A GN", old.render()));
        }
        ctx.emit(&format!("remm O {} A A{}", oldp.render(), ga));
        ctx.emit("len");
        // from_quad_source / from_triple_source of a source that exactly fits and of one that needs one
        // term more (sink error, nothing kept)
        ctx.stats.bump("history.collect_full");
        ctx.emit(&format!("collectfill {} {} {} 65533", kind, width, via));
        ctx.emit(&format!("ins {}", mk(&old, &old, &t("1"), None))); // full: no room for a single new term
        ctx.emit(&format!("has {}", mk(&old, &oldp, &lit(65532), None)));
        ctx.emit(&format!("collectfill {} {} {} 65534", kind, width, via));
        ctx.emit("len");
        ctx.emit(&format!("ins {}", mk(&old, &old, &t("1"), None))); // the fresh store accepts it
        ctx.emit("all");

        // (B) room for exactly 3 more terms, and insertions that need 4: the failing insertion leaves the
        // terms looked up before the failing one in the index ("leak"). Which ones is the implementation's
        // business, so after the first such failure the model's answers are compared as a pure
        // model-vs-implementation tie (the driver drops its oracle fields).
        let via = *ctx.rng.pick(&["d", "r", "m"]);
        ctx.emit(&format!("new {} {} {}", kind, width, via));
        ctx.stats.bump("history.index_full_leak");
        // x:s, x:p + 65530 literals = 65532 terms; MAX = 65535 ⇒ room for exactly 3 more terms
        ctx.emit("fill 65530 0");
        ctx.emit("len");
        if graph {
            ctx.emit(&format!("ins {}", mk(&t("1"), &t("2"), &t("3"), None)));
            ctx.emit(&format!("ins {}", mk(&t("4"), &old, &old, None))); // full at s
            ctx.emit(&format!("ins {}", mk(&old, &t("4"), &old, None))); // full at p
            ctx.emit(&format!("ins {}", mk(&old, &old, &t("4"), None))); // full at o
        } else {
            ctx.emit(&format!("ins {}", mk(&t("1"), &t("2"), &t("3"), Some(&t("4"))))); // full at g, 3 terms leaked into the index
            ctx.emit(&format!("ins {}", mk(&t("1"), &t("2"), &t("3"), None))); // now fits (terms known)
            ctx.emit(&format!("ins {}", mk(&old, &old, &old, Some(&t("5"))))); // full at g
            ctx.emit(&format!("ins {}", mk(&t("5"), &old, &old, None))); // full at s
            ctx.emit(&format!("insall {} | {}", mk(&old, &old, &t("1"), None), mk(&old, &t("6"), &old, None))); // 1 ok then full
        }
        ctx.emit("len");
        ctx.emit(&format!("has {}", mk(&t("1"), &t("2"), &t("3"), None)));
        ctx.emit(&format!("rem {}", mk(&t("1"), &t("2"), &t("3"), None)));
        ctx.emit(&format!("has {}", mk(&t("1"), &t("2"), &t("3"), None)));
        // a full scan of the full index
        ctx.emit(&format!("qm A A O {}{}", lit(65529).render(), ga));
        ctx.emit("len");
    }
}

fn main() {
    vhcore::main_loop(generate, exec);
}
