//! C18 — RDF/XML serialisation round trip.
//!
//! requests:
//!   ser <indent> <term>*      3k terms in prefix notation (`T::render`): the triples, in order
//!   split <hexiri>            namespace / local-name split as the real formatter performs it
//!                             (observed on the output of a one-triple document)
//!   sink <indent> <lim> <term>*   the same serialisation into a writer that accepts `lim` bytes and
//!                             then fails (`a<N>` = N bytes, `r<K>` = K bytes less than the document
//!                             needs): the error must be reported, never swallowed
//!   src <indent> <k> <term>*  the triple source fails after `k` triples: must be a `SourceError`
//!
//! `ser` runs the REAL `RdfXmlSerializer` with `RdfXmlConfig::with_indentation(n)`, prints the
//! output bytes (byte-exact differential with the Lean model), parses them back with the REAL
//! `sophia_xml::parser::parse_str`, and judges the property on this side:
//!   FAIL.not_wellformed   output is not a namespace-well-formed XML 1.0 document (own checker)
//!   FAIL.roundtrip        output does not parse, or parses to a graph that is not isomorphic
//!                         (own exact test, blank labels may be renamed, language tags compared
//!                         case-insensitively) to the input restricted to representable triples
//!   FAIL.indent_changes_result  the parse differs between indentation 0..8 or the default
//!                         configuration (`RdfXmlSerializer::new`, `new_stringifier`,
//!                         `RdfXmlConfig::default`, `serialize_graph`)
//!   FAIL.sink_error_swallowed / FAIL.sink_spurious_error / FAIL.sink_bytes   (`sink`)
//!   FAIL.source_error_swallowed / FAIL.source_spurious_error                (`src`)
//! Inputs with characters outside XML `Char` are out of the property's scope: outcome recorded
//! (`oos=1`), never flagged.
use sophia_api::prelude::*;
use sophia_api::source::StreamError;
use sophia_api::term::SimpleTerm;
use sophia_xml::serializer::{RdfXmlConfig, RdfXmlSerializer};
use std::collections::{BTreeMap, BTreeSet};
use std::io;
use vhcore::tgen::{to_simple, view, NEAR_MISS_DATATYPES, NEAR_MISS_VOCAB, RDF, XSD};
use vhcore::util::*;
use vhcore::GenCtx;

type Tr = [T; 3];

// ------------------------------------------------------------------------------------------
// XML character classes (XML 1.0 5th edition), transcribed independently of rio_xml
// ------------------------------------------------------------------------------------------

fn xml_char(c: char) -> bool {
    matches!(c, '\t' | '\n' | '\r' | '\u{20}'..='\u{D7FF}' | '\u{E000}'..='\u{FFFD}' | '\u{10000}'..='\u{10FFFF}')
}

fn name_start(c: char) -> bool {
    matches!(c, 'A'..='Z' | '_' | 'a'..='z' | '\u{C0}'..='\u{D6}' | '\u{D8}'..='\u{F6}' | '\u{F8}'..='\u{2FF}'
        | '\u{370}'..='\u{37D}' | '\u{37F}'..='\u{1FFF}' | '\u{200C}'..='\u{200D}' | '\u{2070}'..='\u{218F}'
        | '\u{2C00}'..='\u{2FEF}' | '\u{3001}'..='\u{D7FF}' | '\u{F900}'..='\u{FDCF}' | '\u{FDF0}'..='\u{FFFD}'
        | '\u{10000}'..='\u{EFFFF}')
}

fn name_char(c: char) -> bool {
    name_start(c) || matches!(c, '-' | '.' | '0'..='9' | '\u{B7}' | '\u{300}'..='\u{36F}' | '\u{203F}'..='\u{2040}')
}

fn is_ncname(s: &str) -> bool {
    let mut it = s.chars();
    match it.next() {
        Some(c) if name_start(c) => it.all(name_char),
        _ => false,
    }
}

// ------------------------------------------------------------------------------------------
// own well-formedness checker (namespace-well-formed XML 1.0; comments, processing instructions,
// CDATA sections and a document type declaration are skipped, entity declarations are not
// interpreted: a reference to a declared general entity would be reported as `bad-entity`)
// ------------------------------------------------------------------------------------------

struct Cur<'a> {
    s: &'a [char],
    i: usize,
}

impl<'a> Cur<'a> {
    fn peek(&self) -> Option<char> {
        self.s.get(self.i).copied()
    }
    fn eat(&mut self, lit: &str) -> bool {
        let l: Vec<char> = lit.chars().collect();
        if self.s[self.i..].starts_with(&l) {
            self.i += l.len();
            true
        } else {
            false
        }
    }
    fn ws(&mut self) -> usize {
        let st = self.i;
        while matches!(self.peek(), Some(' ' | '\t' | '\n' | '\r')) {
            self.i += 1;
        }
        self.i - st
    }
    /// QName: NCName | NCName ':' NCName ; returns (prefix, local)
    fn qname(&mut self) -> Result<(String, String), String> {
        let st = self.i;
        while let Some(c) = self.peek() {
            if name_char(c) || c == ':' {
                self.i += 1;
            } else {
                break;
            }
        }
        let n: String = self.s[st..self.i].iter().collect();
        let parts: Vec<&str> = n.split(':').collect();
        match parts.as_slice() {
            [l] if is_ncname(l) => Ok((String::new(), l.to_string())),
            [p, l] if is_ncname(p) && is_ncname(l) => Ok((p.to_string(), l.to_string())),
            _ => Err(format!("bad-qname:{}", hex(&n))),
        }
    }
    /// a reference after '&'
    fn reference(&mut self) -> Result<(), String> {
        for e in ["lt;", "gt;", "amp;", "apos;", "quot;"] {
            if self.eat(e) {
                return Ok(());
            }
        }
        if self.eat("#x") {
            let st = self.i;
            while matches!(self.peek(), Some(c) if c.is_ascii_hexdigit()) {
                self.i += 1;
            }
            let v: String = self.s[st..self.i].iter().collect();
            let ok = u32::from_str_radix(&v, 16).ok().and_then(char::from_u32).map(xml_char).unwrap_or(false);
            return if ok && self.eat(";") { Ok(()) } else { Err("bad-charref".into()) };
        }
        if self.eat("#") {
            let st = self.i;
            while matches!(self.peek(), Some(c) if c.is_ascii_digit()) {
                self.i += 1;
            }
            let v: String = self.s[st..self.i].iter().collect();
            let ok = v.parse::<u32>().ok().and_then(char::from_u32).map(xml_char).unwrap_or(false);
            return if ok && self.eat(";") { Ok(()) } else { Err("bad-charref".into()) };
        }
        Err("bad-entity".into())
    }
}

fn well_formed(doc: &str) -> Result<(), String> {
    if let Some(c) = doc.chars().find(|c| !xml_char(*c)) {
        return Err(format!("illegal-char:{:x}", c as u32));
    }
    let chars: Vec<char> = doc.chars().collect();
    let mut c = Cur { s: &chars, i: 0 };
    if c.eat("<?xml") {
        // XMLDecl: version, optional encoding; checked loosely (fixed text in the formatter)
        while let Some(ch) = c.peek() {
            if ch == '?' {
                break;
            }
            if ch == '<' {
                return Err("bad-decl".into());
            }
            c.i += 1;
        }
        if !c.eat("?>") {
            return Err("bad-decl".into());
        }
    }
    c.ws();
    // element stack: (qname string, namespace bindings introduced)
    let mut stack: Vec<(String, Vec<String>)> = vec![];
    let mut bound: Vec<String> = vec!["xml".into()];
    let mut seen_root = false;
    let mut seen_doctype = false;
    loop {
        match c.peek() {
            None => break,
            Some('<') => {
                c.i += 1;
                if c.eat("/") {
                    let (p, l) = c.qname()?;
                    c.ws();
                    if !c.eat(">") {
                        return Err("bad-end-tag".into());
                    }
                    let name = if p.is_empty() { l } else { format!("{}:{}", p, l) };
                    match stack.pop() {
                        Some((n, intro)) if n == name => {
                            for _ in intro {
                                bound.pop();
                            }
                        }
                        _ => return Err("unbalanced".into()),
                    }
                    continue;
                }
                // comments, processing instructions, CDATA sections, a document type declaration:
                // the serialiser emits none of them today, but a document that contains them is
                // still well-formed
                if c.eat("!--") {
                    loop {
                        if c.eat("-->") {
                            break;
                        }
                        if c.eat("--") || c.peek().is_none() {
                            return Err("bad-comment".into());
                        }
                        c.i += 1;
                    }
                    continue;
                }
                if c.eat("?") {
                    let st = c.i;
                    while matches!(c.peek(), Some(ch) if name_char(ch) || ch == ':') {
                        c.i += 1;
                    }
                    let target: String = c.s[st..c.i].iter().collect();
                    if !is_ncname(&target) || target.eq_ignore_ascii_case("xml") {
                        return Err("bad-pi".into());
                    }
                    loop {
                        if c.eat("?>") {
                            break;
                        }
                        if c.peek().is_none() {
                            return Err("bad-pi".into());
                        }
                        c.i += 1;
                    }
                    continue;
                }
                if c.eat("![CDATA[") {
                    if stack.is_empty() {
                        return Err("text-outside-root".into());
                    }
                    loop {
                        if c.eat("]]>") {
                            break;
                        }
                        if c.peek().is_none() {
                            return Err("bad-cdata".into());
                        }
                        c.i += 1;
                    }
                    continue;
                }
                if c.eat("!DOCTYPE") {
                    if seen_root || seen_doctype {
                        return Err("misplaced-doctype".into());
                    }
                    seen_doctype = true;
                    let mut depth = 0usize;
                    loop {
                        match c.peek() {
                            None => return Err("bad-doctype".into()),
                            Some(q @ ('"' | '\'')) => {
                                c.i += 1;
                                while c.peek().is_some_and(|x| x != q) {
                                    c.i += 1;
                                }
                                if c.peek().is_none() {
                                    return Err("bad-doctype".into());
                                }
                                c.i += 1;
                            }
                            Some('[') => {
                                depth += 1;
                                c.i += 1;
                            }
                            Some(']') => {
                                depth = depth.saturating_sub(1);
                                c.i += 1;
                            }
                            Some('>') if depth == 0 => {
                                c.i += 1;
                                break;
                            }
                            Some(_) => c.i += 1,
                        }
                    }
                    continue;
                }
                if matches!(c.peek(), Some('!' | '?')) {
                    return Err("unexpected-markup".into());
                }
                if stack.is_empty() && seen_root {
                    return Err("second-root".into());
                }
                seen_root = true;
                let (p, l) = c.qname()?;
                let name = if p.is_empty() { l } else { format!("{}:{}", p, l) };
                let mut attrs: Vec<(String, String)> = vec![];
                let mut intro = vec![];
                let empty;
                loop {
                    let w = c.ws();
                    if c.eat("/>") {
                        empty = true;
                        break;
                    }
                    if c.eat(">") {
                        empty = false;
                        break;
                    }
                    if w == 0 {
                        return Err("attr-without-space".into());
                    }
                    let (ap, al) = c.qname()?;
                    c.ws();
                    if !c.eat("=") {
                        return Err("attr-without-eq".into());
                    }
                    c.ws();
                    let q = match c.peek() {
                        Some(q @ ('"' | '\'')) => q,
                        _ => return Err("attr-unquoted".into()),
                    };
                    c.i += 1;
                    let mut empty_value = true;
                    loop {
                        match c.peek() {
                            None => return Err("attr-unterminated".into()),
                            Some(ch) if ch == q => {
                                c.i += 1;
                                break;
                            }
                            Some('<') => return Err("lt-in-attr".into()),
                            Some('&') => {
                                c.i += 1;
                                c.reference()?;
                            }
                            Some(_) => c.i += 1,
                        }
                        empty_value = false;
                    }
                    if attrs.contains(&(ap.clone(), al.clone())) {
                        return Err("duplicate-attr".into());
                    }
                    if ap == "xmlns" {
                        if empty_value {
                            return Err("empty-prefix-binding".into());
                        }
                        intro.push(al.clone());
                    }
                    attrs.push((ap, al));
                }
                for b in &intro {
                    bound.push(b.clone());
                }
                if !p.is_empty() && !bound.contains(&p) {
                    return Err(format!("unbound-prefix:{}", p));
                }
                for (ap, _) in &attrs {
                    if !ap.is_empty() && ap != "xmlns" && !bound.contains(ap) {
                        return Err(format!("unbound-prefix:{}", ap));
                    }
                }
                if empty {
                    for _ in &intro {
                        bound.pop();
                    }
                } else {
                    stack.push((name, intro));
                }
            }
            Some(_) => {
                // character data
                let inside = !stack.is_empty();
                loop {
                    match c.peek() {
                        None | Some('<') => break,
                        Some('&') => {
                            if !inside {
                                return Err("text-outside-root".into());
                            }
                            c.i += 1;
                            c.reference()?;
                        }
                        Some(ch) => {
                            if !inside && !matches!(ch, ' ' | '\t' | '\n' | '\r') {
                                return Err("text-outside-root".into());
                            }
                            if c.eat("]]>") {
                                return Err("cdata-end-in-text".into());
                            }
                            c.i += 1;
                        }
                    }
                }
            }
        }
    }
    if !stack.is_empty() {
        return Err("unclosed".into());
    }
    if !seen_root {
        return Err("no-root".into());
    }
    Ok(())
}

// ------------------------------------------------------------------------------------------
// abstract graphs, representability (restated here independently of convert_triple), isomorphism
// ------------------------------------------------------------------------------------------

/// a triple RDF/XML can express
fn representable(t: &Tr) -> bool {
    matches!(t[0], T::Iri(_) | T::Bnode(_)) && matches!(t[1], T::Iri(_)) && matches!(t[2], T::Iri(_) | T::Bnode(_) | T::Lit(..) | T::Lang(..))
}

/// contains a quoted triple that `convert_triple` hands to the formatter (which then fails)
fn strict_star(t: &T) -> bool {
    match t {
        T::Triple(b) => {
            (matches!(b[0], T::Iri(_) | T::Bnode(_)) || strict_star(&b[0]))
                && matches!(b[1], T::Iri(_))
                && (matches!(b[2], T::Iri(_) | T::Bnode(_) | T::Lit(..) | T::Lang(..)) || strict_star(&b[2]))
        }
        _ => false,
    }
}

fn norm_term(t: &T) -> T {
    match t {
        T::Lang(l, tag) => T::Lang(l.clone(), tag.to_ascii_lowercase()),
        T::Triple(b) => T::Triple(Box::new([norm_term(&b[0]), norm_term(&b[1]), norm_term(&b[2])])),
        x => x.clone(),
    }
}

fn norm_graph(g: &[Tr]) -> BTreeSet<Tr> {
    g.iter().map(|t| [norm_term(&t[0]), norm_term(&t[1]), norm_term(&t[2])]).collect()
}

fn rename(t: &T, m: &BTreeMap<String, String>) -> Option<T> {
    Some(match t {
        T::Bnode(b) => T::Bnode(m.get(b)?.clone()),
        x => x.clone(),
    })
}

fn labels(g: &BTreeSet<Tr>) -> Vec<String> {
    let mut s = BTreeSet::new();
    for t in g {
        for x in t {
            if let T::Bnode(b) = x {
                s.insert(b.clone());
            }
        }
    }
    s.into_iter().collect()
}

/// exact graph isomorphism: a bijection of blank labels mapping `a` onto `b` (backtracking over
/// injections; a triple is checked as soon as all its labels are assigned, so a wrong partial
/// assignment is abandoned at once and graphs with a dozen labels stay cheap even when the answer
/// is "no")
fn isomorphic(a: &BTreeSet<Tr>, b: &BTreeSet<Tr>) -> bool {
    if a.len() != b.len() {
        return false;
    }
    let la = labels(a);
    let lb = labels(b);
    if la.len() != lb.len() {
        return false;
    }
    // stage[i] = triples of `a` whose highest label index is i; ground triples are checked first
    let idx = |x: &T| match x {
        T::Bnode(l) => la.iter().position(|y| y == l),
        _ => None,
    };
    let mut stage: Vec<Vec<&Tr>> = vec![vec![]; la.len()];
    for t in a {
        match t.iter().filter_map(idx).max() {
            None => {
                if !b.contains(t) {
                    return false;
                }
            }
            Some(i) => stage[i].push(t),
        }
    }
    fn go(i: usize, la: &[String], lb: &[String], used: &mut Vec<bool>, m: &mut BTreeMap<String, String>, stage: &[Vec<&Tr>], b: &BTreeSet<Tr>) -> bool {
        if i == la.len() {
            return true;
        }
        for j in 0..lb.len() {
            if !used[j] {
                used[j] = true;
                m.insert(la[i].clone(), lb[j].clone());
                let ok = stage[i].iter().all(|t| match (rename(&t[0], m), rename(&t[1], m), rename(&t[2], m)) {
                    (Some(s), Some(p), Some(o)) => b.contains(&[s, p, o]),
                    _ => false,
                });
                if ok && go(i + 1, la, lb, used, m, stage, b) {
                    return true;
                }
                m.remove(&la[i]);
                used[j] = false;
            }
        }
        false
    }
    go(0, &la, &lb, &mut vec![false; lb.len()], &mut BTreeMap::new(), &stage, b)
}

/// canonical one-token rendering of a parsed graph (sorted, deduplicated, tags as delivered)
fn render_graph(g: &[Tr]) -> String {
    let set: BTreeSet<String> = g
        .iter()
        .map(|t| format!("{},{},{}", t[0].render(), t[1].render(), t[2].render()).replace(' ', ","))
        .collect();
    if set.is_empty() {
        "_".to_string()
    } else {
        set.into_iter().collect::<Vec<_>>().join(";")
    }
}

// ------------------------------------------------------------------------------------------
// the real code
// ------------------------------------------------------------------------------------------

fn simple_graph(g: &[Tr]) -> Vec<[SimpleTerm<'static>; 3]> {
    g.iter().map(|t| [to_simple(&t[0]), to_simple(&t[1]), to_simple(&t[2])]).collect()
}

fn serialize(indent: usize, g: &[Tr]) -> Result<String, String> {
    let triples = simple_graph(g);
    let config = RdfXmlConfig::new().with_indentation(indent);
    let mut ser = RdfXmlSerializer::new_stringifier_with_config(config);
    match ser.serialize_triples(triples.triples()) {
        Ok(s) => Ok(s.to_string()),
        Err(e) => Err(e.to_string()),
    }
}

/// the entry points that never see `with_indentation`: `new_stringifier` + `serialize_graph`,
/// `RdfXmlSerializer::new` on a plain `Vec<u8>`, `RdfXmlConfig::default()` / `::new()` passed
/// explicitly, and `new_with_config` on a `&mut Vec<u8>` (a writer type other than `Vec<u8>`)
fn serialize_default(g: &[Tr]) -> Vec<Result<String, String>> {
    let triples = simple_graph(g);
    let mut out = vec![];
    let mut ser = RdfXmlSerializer::new_stringifier();
    out.push(match ser.serialize_graph(&triples) {
        Ok(s) => Ok(s.to_string()),
        Err(e) => Err(e.to_string()),
    });
    let mut ser = RdfXmlSerializer::new(Vec::<u8>::new());
    out.push(match ser.serialize_triples(triples.triples()) {
        Ok(s) => Ok(String::from_utf8_lossy(s.as_utf8()).to_string()),
        Err(e) => Err(e.to_string()),
    });
    for config in [RdfXmlConfig::default(), RdfXmlConfig::new()] {
        let mut buf: Vec<u8> = vec![];
        let mut ser = RdfXmlSerializer::new_with_config(&mut buf, config);
        let r = ser.serialize_triples(triples.triples()).map(|_| ()).map_err(|e| e.to_string());
        out.push(r.map(|_| String::from_utf8_lossy(&buf).to_string()));
    }
    out
}

/// a writer that accepts `limit` bytes (partial writes included) and fails afterwards
struct FailAfter {
    buf: Vec<u8>,
    limit: usize,
    failed: usize,
}

impl io::Write for FailAfter {
    fn write(&mut self, b: &[u8]) -> io::Result<usize> {
        let room = self.limit - self.buf.len();
        if room == 0 && !b.is_empty() {
            self.failed += 1;
            return Err(io::Error::other("disk full"));
        }
        let n = room.min(b.len());
        self.buf.extend_from_slice(&b[..n]);
        Ok(n)
    }
    fn flush(&mut self) -> io::Result<()> {
        Ok(())
    }
}

#[derive(Debug)]
struct SourceBroke;
impl std::fmt::Display for SourceBroke {
    fn fmt(&self, f: &mut std::fmt::Formatter<'_>) -> std::fmt::Result {
        write!(f, "source broke")
    }
}
impl std::error::Error for SourceBroke {}

fn parse_graph(f: &[&str]) -> Option<Vec<Tr>> {
    let mut toks = f.iter().copied();
    let mut g: Vec<Tr> = vec![];
    loop {
        let mut pk = toks.clone();
        if pk.next().is_none() {
            break;
        }
        let (Some(s), Some(p), Some(o)) = (T::parse(&mut toks), T::parse(&mut toks), T::parse(&mut toks)) else {
            return None;
        };
        g.push([s, p, o]);
    }
    Some(g)
}

/// `convert_triple` hands the triple to the formatter, which refuses it (quoted triple inside)
fn formatter_refuses(t: &Tr) -> bool {
    (matches!(t[0], T::Iri(_) | T::Bnode(_)) || strict_star(&t[0]))
        && matches!(t[1], T::Iri(_))
        && (matches!(t[2], T::Iri(_) | T::Bnode(_) | T::Lit(..) | T::Lang(..)) || strict_star(&t[2]))
        && !representable(t)
}

/// `sink <indent> <a<N>|r<K>> <term>*`
fn exec_sink(f: &[&str]) -> String {
    let (Some(indent), Some(lim)) = (f.first().and_then(|s| s.parse::<usize>().ok()), f.get(1)) else { return "bad-op".into() };
    let Some(g) = parse_graph(&f[2..]) else { return "bad-op".into() };
    let full = serialize(indent, &g);
    let need = full.as_ref().map(|d| d.len()).unwrap_or(0);
    let limit = match (lim.strip_prefix('a'), lim.strip_prefix('r')) {
        (Some(n), _) => n.parse::<usize>().ok(),
        (_, Some(k)) => k.parse::<usize>().ok().map(|k| need.saturating_sub(k)),
        _ => None,
    };
    let Some(limit) = limit else { return "bad-op".into() };
    let triples = simple_graph(&g);
    let mut w = FailAfter { buf: vec![], limit, failed: 0 };
    let res = {
        let config = RdfXmlConfig::new().with_indentation(indent);
        let mut ser = RdfXmlSerializer::new_with_config(&mut w, config);
        match ser.serialize_triples(triples.triples()) {
            Ok(_) => "ok",
            Err(StreamError::SinkError(_)) => "sinkerr",
            Err(StreamError::SourceError(_)) => "srcerr",
        }
    };
    let mut out = format!("res={} written={} refused={}", res, w.buf.len(), w.failed.min(1));
    // The property: "either fails with an error or produces a well-formed document ...".  The
    // writer said `Err` and the serialiser says `Ok`: the document it claims to have produced is
    // not in the writer.
    if w.failed > 0 && res == "ok" {
        out += &format!(" FAIL.sink_error_swallowed={}of{}", limit, need);
    }
    // `Ok` without any refusal: what the writer holds is the document; when it is not byte for
    // byte what the `Vec<u8>` run produced it is judged on its own (anything else about `res`,
    // `written` is compared with the model only)
    if w.failed == 0 && res == "ok" {
        match &full {
            Ok(doc) if doc.as_bytes() == &w.buf[..] => out += " bytes=same",
            _ => {
                out += " bytes=differ";
                if in_scope(&g) {
                    let expected: Vec<Tr> = g.iter().filter(|t| representable(t)).cloned().collect();
                    match std::str::from_utf8(&w.buf) {
                        Ok(d) => {
                            for x in judge_doc(d, &expected).1 {
                                out.push(' ');
                                out += &x;
                            }
                        }
                        Err(_) => out += " FAIL.not_wellformed=not-utf8",
                    }
                }
            }
        }
    }
    out
}

/// `src <indent> <k> <term>*`: the source yields the first k triples, then an error
fn exec_src(f: &[&str]) -> String {
    let (Some(indent), Some(k)) = (f.first().and_then(|s| s.parse::<usize>().ok()), f.get(1).and_then(|s| s.parse::<usize>().ok())) else {
        return "bad-op".into();
    };
    let Some(g) = parse_graph(&f[2..]) else { return "bad-op".into() };
    let triples = simple_graph(&g);
    let breaks = k < triples.len();
    let items: Vec<Result<[SimpleTerm<'static>; 3], SourceBroke>> =
        triples.into_iter().take(k).map(Ok).chain(if breaks { vec![Err(SourceBroke)] } else { vec![] }).collect();
    let config = RdfXmlConfig::new().with_indentation(indent);
    let mut ser = RdfXmlSerializer::new_stringifier_with_config(config);
    let res = match ser.serialize_triples(items.into_iter()) {
        Ok(_) => "ok",
        Err(StreamError::SinkError(_)) => "sinkerr",
        Err(StreamError::SourceError(_)) => "srcerr",
    };
    let mut out = format!("res={}", res);
    // the source said `Err` and the serialiser says `Ok`: the graph was not serialised (which
    // error is reported, and a formatter refusal coming first, are compared with the model only)
    if breaks && res == "ok" {
        out += " FAIL.source_error_swallowed=ok";
    }
    if res == "ok" {
        // nothing failed: the document is the ordinary one (model field)
        let doc = ser.as_str().to_string();
        out += if Ok(&doc) == serialize(indent, &g).as_ref() { " same=1" } else { " same=0" };
    }
    out
}

fn parse(doc: &str) -> Result<Vec<Tr>, String> {
    let mut out: Vec<Tr> = vec![];
    let r = sophia_xml::parser::parse_str(doc).for_each_triple(|t| {
        out.push([view(t.s()), view(t.p()), view(t.o())]);
    });
    match r {
        Ok(()) => Ok(out),
        Err(e) => Err(e.to_string()),
    }
}

fn all_strings<'a>(t: &'a T, out: &mut Vec<&'a str>) {
    match t {
        T::Iri(s) | T::Bnode(s) | T::Var(s) => out.push(s),
        T::Lit(a, b) | T::Lang(a, b) => {
            out.push(a);
            out.push(b);
        }
        T::Triple(b) => {
            for x in b.iter() {
                all_strings(x, out)
            }
        }
    }
}

/// element name the formatter would have to use: does the predicate have a legal one?
/// (independent restatement: some suffix of the IRI is an NCName and the rest is non-empty)
fn qnameable(p: &str) -> bool {
    let idx: Vec<usize> = p.char_indices().map(|(i, _)| i).collect();
    idx.iter().any(|&i| i > 0 && is_ncname(&p[i..]))
}

/// the property's demands on one output document: namespace-well-formed, parses, and the parse is
/// isomorphic to the representable part of the input -> (reply fields, oracle failures)
fn judge_doc(doc: &str, expected: &[Tr]) -> (String, Vec<String>) {
    let mut out = String::new();
    let mut fails: Vec<String> = vec![];
    let wf = well_formed(doc);
    out += &format!(" wf={}", if wf.is_ok() { "1".to_string() } else { wf.clone().unwrap_err() });
    let parsed = catch(std::panic::AssertUnwindSafe(|| parse(doc)));
    match &parsed {
        Ok(Ok(pg)) => {
            out += &format!(" parse=ok g={}", render_graph(pg));
            let iso = isomorphic(&norm_graph(pg), &norm_graph(expected));
            out += &format!(" rt={}", if iso { 1 } else { 0 });
            if !iso {
                fails.push("FAIL.roundtrip=not-isomorphic".into());
            }
        }
        Ok(Err(_)) => {
            out += " parse=err g=err rt=0";
            fails.push("FAIL.roundtrip=parse-error".into());
        }
        Err(_) => {
            out += " parse=panic g=panic rt=0";
            fails.push("FAIL.roundtrip=parse-panic".into());
        }
    }
    if let Err(e) = &wf {
        fails.push(format!("FAIL.not_wellformed={}", e));
    }
    (out, fails)
}

fn in_scope(g: &[Tr]) -> bool {
    let mut strs = vec![];
    for t in g {
        for x in t {
            all_strings(x, &mut strs);
        }
    }
    strs.iter().all(|s| s.chars().all(xml_char))
}

fn exec_ser(f: &[&str]) -> String {
    let Some(indent) = f.first().and_then(|s| s.parse::<usize>().ok()) else { return "bad-op".into() };
    let Some(g) = parse_graph(&f[1..]) else { return "bad-op".into() };
    let in_scope = in_scope(&g);
    let expected: Vec<Tr> = g.iter().filter(|t| representable(t)).cloned().collect();
    let has_star = g.iter().any(formatter_refuses);
    let all_qname = expected.iter().all(|t| matches!(&t[1], T::Iri(p) if qnameable(p)));

    let res = serialize(indent, &g);
    let mut out = String::new();
    let mut fails: Vec<String> = vec![];
    match &res {
        Err(_) => {
            out += "out=err parse=na g=na";
            // an error is an admissible outcome unless the graph is in the class for which the
            // property promises success
            if in_scope && all_qname && !has_star {
                fails.push("FAIL.roundtrip=serializer-error".into());
            }
        }
        Ok(doc) => {
            out += &format!("out={}", hex(doc));
            let (fields, f) = judge_doc(doc, &expected);
            out += &fields;
            fails.extend(f);
        }
    }
    // indentation must not change the parsed result
    let mut results: BTreeSet<String> = BTreeSet::new();
    let mut doc0: Result<String, String> = Err(String::new());
    let mut docs: Vec<Result<String, String>> = vec![];
    for n in 0..=8usize {
        let d = serialize(n, &g);
        if n == 0 {
            doc0 = d.clone();
        }
        docs.push(d);
    }
    // ... nor may the configuration-less entry points (default = indentation 0)
    let dflt = serialize_default(&g);
    out += &match dflt.iter().find(|d| **d != doc0) {
        None => " dflt=eq0".to_string(),
        Some(Ok(d)) => format!(" dflt={}", hex(d)),
        Some(Err(_)) => " dflt=err".to_string(),
    };
    docs.extend(dflt);
    // distinct results UP TO ISOMORPHISM (a parser that relabels blank nodes per document must not
    // be reported): string equality first, then the exact isomorphism test against the
    // representatives seen so far
    let mut graphs: Vec<BTreeSet<Tr>> = vec![];
    for d in docs {
        let r = match d {
            Err(_) => "err".to_string(),
            Ok(doc) => match catch(std::panic::AssertUnwindSafe(|| parse(&doc))) {
                Ok(Ok(pg)) => {
                    let r = render_graph(&pg);
                    if results.contains(&r) {
                        continue;
                    }
                    let ng = norm_graph(&pg);
                    if graphs.iter().any(|h| isomorphic(h, &ng)) {
                        continue;
                    }
                    graphs.push(ng);
                    r
                }
                Ok(Err(_)) => "parse-err".to_string(),
                Err(_) => "parse-panic".to_string(),
            },
        };
        results.insert(r);
    }
    // the configuration is what was asked for
    let config = RdfXmlConfig::new().with_indentation(indent);
    let ser = RdfXmlSerializer::new_stringifier_with_config(config.clone());
    out += &format!(" cfg={},{},{}", config.indentation(), ser.config().indentation(), RdfXmlSerializer::new_stringifier().config().indentation());
    out += &format!(" indents={}", results.len());
    if results.len() != 1 {
        fails.push(format!("FAIL.indent_changes_result={}", results.len()));
    }
    if in_scope {
        out += " oos=0";
        for x in fails {
            out.push(' ');
            out += &x;
        }
    } else {
        out += &format!(" oos=1 noted={}", fails.len());
    }
    out
}

/// observe the formatter's namespace split on a one-triple document
fn exec_split(h: &str) -> String {
    let Some(iri) = unhex(h) else { return "bad-hex".into() };
    let g = vec![[T::Iri("x:s".into()), T::Iri(iri), T::Iri("x:o".into())]];
    let Ok(doc) = serialize(0, &g) else { return "ns=err local=err".into() };
    let marker = "<rdf:Description rdf:about=\"x:s\"><";
    let Some(at) = doc.find(marker) else { return "ns=lost local=lost".into() };
    let rest = &doc[at + marker.len()..];
    let Some(sp) = rest.find(' ') else { return "ns=lost local=lost".into() };
    let name = &rest[..sp];
    let rest = &rest[sp + 1..];
    let (key, local) = if name == "prop:" && rest.starts_with("xmlns:prop=\"") { ("xmlns:prop=\"", "") } else { ("xmlns=\"", name) };
    let Some(rest) = rest.strip_prefix(key) else { return "ns=lost local=lost".into() };
    let Some(q) = rest.find('"') else { return "ns=lost local=lost".into() };
    let ns = rest[..q].replace("&lt;", "<").replace("&gt;", ">").replace("&quot;", "\"").replace("&apos;", "'").replace("&amp;", "&");
    format!("ns={} local={}", hex(&ns), hex(local))
}

/// `rd <hexdoc>`: the REAL parser on a document (the real serialiser's bytes, verbatim or with
/// numeric character references put in by the generator); the model side runs its reader on the
/// same bytes.  No oracle here: this ties the model reader to rio_xml / quick-xml directly.
fn exec_rd(h: &str) -> String {
    let Some(doc) = unhex(h) else { return "bad-hex".into() };
    match catch(std::panic::AssertUnwindSafe(|| parse(&doc))) {
        Ok(Ok(pg)) => format!("parse=ok g={}", render_graph(&pg)),
        Ok(Err(_)) => "parse=err g=err".into(),
        Err(m) => format!("parse=panic g=panic pmsg={}", hex(&m)),
    }
}

pub fn exec(line: &str) -> String {
    let f: Vec<&str> = line.split_whitespace().collect();
    match f.as_slice() {
        ["ser", rest @ ..] => exec_ser(rest),
        ["split", h] => exec_split(h),
        ["sink", rest @ ..] => exec_sink(rest),
        ["src", rest @ ..] => exec_src(rest),
        ["rd", h] => exec_rd(h),
        _ => "bad-op".into(),
    }
}

// ------------------------------------------------------------------------------------------
// generator
// ------------------------------------------------------------------------------------------

const TEXT_ATOMS: &[&str] = &[
    "&", "<", ">", "\"", "'", "]]>", "&amp;", "&#13;", "&lt;", "<!--", "<![CDATA[", "<a>", "</p>", " ", "  ", "\t", "\n", "\r", "\r\n",
    "\n\n", "\u{85}", "\u{2028}", "\u{A0}", "\u{1F600}", "\u{10000}", "\u{10FFFF}", "\u{FFFD}", "\u{7F}", "\u{9F}", "a", "b", "Z", "0",
    "é", "chat", "x y", ";", "#", "%", "=",
];
const WS_ATOMS: &[&str] = &[" ", "  ", "\t", "\n", "\r", "\r\n", "\n  ", " \t\n"];
const OOS_ATOMS: &[&str] = &["\u{0}", "\u{1}", "\u{8}", "\u{B}", "\u{C}", "\u{1F}", "\u{FFFE}", "\u{FFFF}"];
const TAGS: &[&str] = &["en", "EN", "en-GB", "en-gb", "fr", "de-CH-1996", "zh-Hant", "sl-rozaj-biske"];
const SUBJ_IRIS: &[&str] = &["http://ex.org/a", "http://ex.org/b", "http://ex.org/a&b='c'", "x:s", "http://ex.org/é", "urn:uuid:1", "http://ex.org/\u{10000}"];
/// odd but valid absolute IRIs (RFC 3987): IP literals, userinfo, port, empty path, query with a
/// private-use character, fragment, sub-delims, percent escapes, case variants of the RDF / XSD
/// namespaces, IRIs that end where a namespace would
const ODD_IRIS: &[&str] = &[
    "http://[::1]/x",
    "http://[2001:db8::7]:8080/p?q#f",
    "http://user:pw@ex.org:8080/p;v=1?q=a&b=c#frag",
    "http://ex.org",
    "http://ex.org?q",
    "http://ex.org/?q=\u{E000}",
    "http://ex.org/a(b)*+,;=!$'",
    "http://ex.org/%C3%A9%2F",
    "mailto:a@b.c",
    "file:///a/b.c",
    "tag:ex.org,2020:y",
    "a:",
    "a+b-c.d:e",
    "HTTP://EX.ORG/A",
    "http://www.w3.org/1999/02/22-rdf-syntax-ns#type",
    "http://www.w3.org/1999/02/22-rdf-syntax-ns#nil",
    "http://www.w3.org/1999/02/22-rdf-syntax-ns#RDF",
    "http://www.w3.org/2001/XMLSchema#string",
    "http://www.w3.org/XML/1998/namespace",
    "http://www.w3.org/2000/xmlns/",
    "http://ex.org/\u{FFEF}\u{1FFFD}",
];
/// datatypes that resemble xsd:string / rdf:langString without being equal (beside the shared pool)
const NEAR_STRING_DATATYPES: &[&str] = &[
    "https://www.w3.org/2001/XMLSchema#string",
    "HTTP://www.w3.org/2001/XMLSchema#string",
    "http://www.w3.org/2001/xmlschema#string",
    "http://www.w3.org/2001/XMLSchema#string?",
    "http://www.w3.org/2001/XMLSchema#string/",
    "http://www.w3.org/2001/XMLSchema/string",
    "http://www.w3.org/2001/XMLSchema#normalizedString",
    "http://www.w3.org/2001/XMLSchema#%73tring",
    "http://www.w3.org/1999/02/22-rdf-syntax-ns#langString",
    "http://www.w3.org/1999/02/22-rdf-syntax-ns#PlainLiteral",
    "x:string",
];
/// local names that resemble RDF/XML's syntax names without being one (must round-trip)
const NEAR_RDF_NAMES: &[&str] = &["lix", "Li", "l", "_0", "_01", "_10", "description", "Descriptio", "aboutX", "About", "id", "rdf", "Resource", "nodeId", "Datatype", "parsetype", "bagId", "aboutEachX", "ParseType"];
const BNODES: &[&str] = &["b0", "b1", "x.y", "a-b", "é", "_u", "b\u{B7}1", "rio1", "riog00000001", "0", "1a"];
/// labels that are NCNames (the last two of BNODES are not)
const GOOD_BNODES: usize = 9;

fn datatypes() -> Vec<String> {
    vec![
        format!("{}string", XSD),
        format!("{}integer", XSD),
        format!("{}XMLLiteral", RDF),
        format!("{}HTML", RDF),
        "http://ex.org/dt".into(),
        "http://ex.org/dt?a=1&b='2'".into(),
        "x:d".into(),
    ]
}

/// IRIs that merely look like xsd:string (a loosened comparison in `convert_triple` would drop
/// their `rdf:datatype`)
fn near_miss_datatypes() -> Vec<String> {
    NEAR_MISS_DATATYPES.iter().chain(NEAR_STRING_DATATYPES).map(|s| s.to_string()).collect()
}

/// predicates with every namespace-split shape
fn predicates() -> Vec<(String, &'static str)> {
    let mut v: Vec<(String, &'static str)> = vec![
        ("http://ex.org/p".into(), "slash"),
        ("http://ex.org/ns#p".into(), "hash"),
        ("http://ex.org/ns#q".into(), "hash"),
        ("http://ex.org/".into(), "ends-slash"),
        ("http://ex.org/ns#".into(), "ends-hash"),
        ("http://ex.org/1p".into(), "digit-initial"),
        ("http://ex.org/-p.q-1".into(), "digit-initial"),
        ("http://ex.org/123".into(), "no-namestart"),
        ("http://ex.org/p?q=1".into(), "no-namestart"),
        ("http://ex.org/a%20b".into(), "percent"),
        ("http://ex.org/a%20".into(), "percent-end"),
        ("http://ex.org/a%C3%A9".into(), "percent-end"),
        ("http://ex.org/é".into(), "non-ascii"),
        ("http://ex.org/\u{B7}x".into(), "non-ascii"),
        ("http://ex.org/\u{10000}y".into(), "non-ascii"),
        ("http://ex.org/x\u{203F}\u{300}".into(), "non-ascii"),
        ("http://ex.org/\u{D7}".into(), "non-ascii-nonname"),
        ("x:p".into(), "colon"),
        ("urn:a:b".into(), "colon"),
        ("http://ex.org/a:b".into(), "colon"),
        ("x:".into(), "colon-end"),
        ("http://ex.org/a&b='c'/p".into(), "markup-in-ns"),
        ("http://ex.org/p-1.x".into(), "slash"),
        ("http://ex.org/xml".into(), "xml-name"),
        ("http://ex.org/xmlns".into(), "xml-name"),
        ("http://ex.org/p_q".into(), "slash"),
    ];
    for l in ["type", "value", "_1", "li", "Description", "about", "ID", "RDF", "resource", "nodeID", "datatype", "parseType", "bagID", "aboutEach", "aboutEachPrefix", "Seq", "first"] {
        v.push((format!("{}{}", RDF, l), "rdf-ns"));
    }
    for l in NEAR_RDF_NAMES {
        v.push((format!("{}{}", RDF, l), "rdf-near"));
    }
    for p in NEAR_MISS_VOCAB {
        // (the bare namespace has no NCName suffix: the `prop:` finding)
        v.push((p.to_string(), if p.ends_with('#') { "ends-hash" } else { "rdf-near" }));
    }
    for p in ["http://ex.org/22-rdf-syntax-ns#li", "https://www.w3.org/1999/02/22-rdf-syntax-ns#about", "http://www.w3.org/1999/02/22-rdf-syntax-ns/li"] {
        v.push((p.to_string(), "rdf-near"));
    }
    for p in ["http://[::1]/p", "http://user@ex.org:80/a?b=c&d#p", "http://ex.org/?p", "mailto:a@b.p", "http://ex.org/a(b)p"] {
        v.push((p.to_string(), "odd-iri"));
    }
    v
}

fn pk(ctx: &mut GenCtx, xs: &[&'static str]) -> &'static str {
    *ctx.rng.pick(xs)
}

fn gen_text(ctx: &mut GenCtx) -> String {
    let k = ctx.rng.below(100);
    let mut s = String::new();
    if k < 6 {
        ctx.stats.bump("text.empty");
    } else if k < 9 {
        ctx.stats.bump("text.whitespace_only");
        for _ in 0..ctx.rng.range(1, 3) {
            s.push_str(pk(ctx, WS_ATOMS));
        }
    } else if k < 30 {
        ctx.stats.bump("text.lead_trail_ws");
        s.push_str(pk(ctx, WS_ATOMS));
        s.push_str(pk(ctx, TEXT_ATOMS));
        s.push_str(pk(ctx, WS_ATOMS));
    } else if k < 34 {
        ctx.stats.bump("text.out_of_scope_char");
        s.push_str(pk(ctx, TEXT_ATOMS));
        s.push_str(pk(ctx, OOS_ATOMS));
    } else if k < 36 {
        // long text: crosses any internal buffer / chunk boundary of the writer
        ctx.stats.bump("text.long");
        for _ in 0..ctx.rng.range(200, 3000) {
            s.push_str(pk(ctx, TEXT_ATOMS));
        }
    } else if k < 42 {
        // runs of one atom (CR CR, && ...), and an atom at the very start / very end
        ctx.stats.bump("text.atom_run");
        let a = pk(ctx, TEXT_ATOMS);
        for _ in 0..ctx.rng.range(2, 4) {
            s.push_str(a);
        }
        if ctx.rng.chance(1, 2) {
            s.push_str(pk(ctx, TEXT_ATOMS));
            s.push_str(a);
        }
    } else {
        ctx.stats.bump("text.mixed");
        for _ in 0..ctx.rng.range(1, 5) {
            s.push_str(pk(ctx, TEXT_ATOMS));
        }
    }
    if s.contains('\r') {
        ctx.stats.bump("text.has_cr");
    }
    if s.chars().any(|c| c as u32 >= 0x10000) {
        ctx.stats.bump("text.has_non_bmp");
    }
    if s.chars().any(|c| "&<>\"'".contains(c)) {
        ctx.stats.bump("text.has_markup");
    }
    s
}

fn gen_literal(ctx: &mut GenCtx, dts: &[String]) -> T {
    let text = gen_text(ctx);
    if ctx.rng.chance(1, 3) {
        ctx.stats.bump("object.lang");
        T::Lang(text, pk(ctx, TAGS).to_string())
    } else if ctx.rng.chance(1, 4) {
        let near = near_miss_datatypes();
        let dt = ctx.rng.pick(&near).clone();
        ctx.stats.bump("object.near_miss_datatype");
        T::Lit(text, dt)
    } else {
        let dt = ctx.rng.pick(dts).clone();
        ctx.stats.bump(if dt.ends_with("XMLLiteral") {
            "object.xmlliteral"
        } else if dt == format!("{}string", XSD) {
            "object.simple"
        } else {
            "object.typed"
        });
        T::Lit(text, dt)
    }
}

fn gen_iri(ctx: &mut GenCtx) -> T {
    if ctx.rng.chance(1, 4) {
        ctx.stats.bump("iri.odd");
        T::Iri(pk(ctx, ODD_IRIS).to_string())
    } else if ctx.rng.chance(1, 10) {
        ctx.stats.bump("iri.near_miss_vocab");
        T::Iri(pk(ctx, NEAR_MISS_VOCAB).to_string())
    } else {
        T::Iri(pk(ctx, SUBJ_IRIS).to_string())
    }
}

fn gen_bnode(ctx: &mut GenCtx) -> T {
    if ctx.rng.chance(1, 25) {
        ctx.stats.bump("bnode.digit_initial");
        T::Bnode(pk(ctx, &BNODES[GOOD_BNODES..]).to_string())
    } else {
        T::Bnode(pk(ctx, &BNODES[..GOOD_BNODES]).to_string())
    }
}

fn gen_subject(ctx: &mut GenCtx) -> T {
    if ctx.rng.chance(2, 5) {
        ctx.stats.bump("subject.bnode");
        gen_bnode(ctx)
    } else {
        ctx.stats.bump("subject.iri");
        gen_iri(ctx)
    }
}

fn gen_object(ctx: &mut GenCtx, dts: &[String]) -> T {
    match ctx.rng.below(10) {
        0 | 1 => {
            ctx.stats.bump("object.iri");
            gen_iri(ctx)
        }
        2 | 3 => {
            ctx.stats.bump("object.bnode");
            gen_bnode(ctx)
        }
        _ => gen_literal(ctx, dts),
    }
}

fn gen_strict(ctx: &mut GenCtx, preds: &[(String, &'static str)], dts: &[String]) -> Tr {
    let (p, shape) = ctx.rng.pick(preds).clone();
    ctx.stats.bump(&format!("pred.{}", shape));
    [gen_subject(ctx), T::Iri(p), gen_object(ctx, dts)]
}

fn gen_nonrepresentable(ctx: &mut GenCtx, preds: &[(String, &'static str)], dts: &[String]) -> Tr {
    let mut t = gen_strict(ctx, preds, dts);
    match ctx.rng.below(11) {
        8 => {
            // two quoted constituents: `convert_triple` pushes twice on its stack
            ctx.stats.bump("nonrep.quoted_both");
            let q1 = gen_strict(ctx, preds, dts);
            let q2 = gen_strict(ctx, preds, dts);
            t[0] = T::Triple(Box::new(q1));
            t[2] = T::Triple(Box::new(q2));
        }
        9 => {
            // nesting depth 2 (and 3), in subject and/or object position
            ctx.stats.bump("nonrep.quoted_depth2");
            let mut q = gen_strict(ctx, preds, dts);
            for _ in 0..ctx.rng.range(1, 2) {
                let mut outer = gen_strict(ctx, preds, dts);
                let pos = if ctx.rng.chance(1, 2) { 0 } else { 2 };
                outer[pos] = T::Triple(Box::new(q));
                q = outer;
            }
            if ctx.rng.chance(1, 2) {
                t[0] = T::Triple(Box::new(q.clone()));
            }
            if ctx.rng.chance(1, 2) || !matches!(t[0], T::Triple(_)) {
                t[2] = T::Triple(Box::new(q));
            }
        }
        10 => {
            // deep quoted triple with a non-convertible leaf: skipped, not an error
            ctx.stats.bump("nonrep.quoted_depth2_bad_leaf");
            let mut q = gen_strict(ctx, preds, dts);
            q[ctx.rng.below(3)] = if ctx.rng.chance(1, 2) { T::Var("w".into()) } else { T::Lit("s".into(), format!("{}string", XSD)) };
            if matches!(q[2], T::Lit(..)) && ctx.rng.chance(1, 2) {
                q[0] = T::Lit("s".into(), format!("{}string", XSD));
            }
            let mut outer = gen_strict(ctx, preds, dts);
            outer[if ctx.rng.chance(1, 2) { 0 } else { 2 }] = T::Triple(Box::new(q));
            let q2 = gen_strict(ctx, preds, dts);
            t[0] = T::Triple(Box::new(q2));
            t[2] = T::Triple(Box::new(outer));
        }
        0 => {
            ctx.stats.bump("nonrep.literal_subject");
            t[0] = gen_literal(ctx, dts);
        }
        1 => {
            ctx.stats.bump("nonrep.bnode_predicate");
            t[1] = T::Bnode("b0".into());
        }
        2 => {
            ctx.stats.bump("nonrep.literal_predicate");
            t[1] = gen_literal(ctx, dts);
        }
        3 => {
            ctx.stats.bump("nonrep.variable");
            let i = ctx.rng.below(3);
            t[i] = T::Var("v".into());
        }
        4 => {
            ctx.stats.bump("nonrep.quoted_subject");
            let q = gen_strict(ctx, preds, dts);
            t[0] = T::Triple(Box::new(q));
        }
        5 => {
            ctx.stats.bump("nonrep.quoted_object");
            let q = gen_strict(ctx, preds, dts);
            t[2] = T::Triple(Box::new(q));
        }
        6 => {
            ctx.stats.bump("nonrep.quoted_with_bad_inner");
            let mut q = gen_strict(ctx, preds, dts);
            q[ctx.rng.below(3)] = T::Var("w".into());
            if ctx.rng.chance(1, 2) {
                t[0] = T::Triple(Box::new(q));
            } else {
                t[2] = T::Triple(Box::new(q));
            }
        }
        _ => {
            ctx.stats.bump("nonrep.quoted_predicate");
            let q = gen_strict(ctx, preds, dts);
            t[1] = T::Triple(Box::new(q));
        }
    }
    t
}

fn emit_op(ctx: &mut GenCtx, head: &str, g: &[Tr]) {
    let mut line = head.to_string();
    for t in g {
        for x in t {
            line.push(' ');
            line += &x.render();
        }
    }
    ctx.emit(&line);
}

fn emit_ser(ctx: &mut GenCtx, indent: usize, g: &[Tr]) {
    emit_op(ctx, &format!("ser {}", indent), g);
}

/// a failing writer: the byte budget relative to the start (`a`) or to the end (`r`) of the document
fn emit_sink(ctx: &mut GenCtx, indent: usize, g: &[Tr]) {
    let lim = match ctx.rng.below(10) {
        0 => {
            ctx.stats.bump("sink.limit.zero");
            "a0".to_string()
        }
        1 => {
            ctx.stats.bump("sink.limit.in_declaration");
            format!("a{}", ctx.rng.range(1, 38))
        }
        2 | 3 => {
            ctx.stats.bump("sink.limit.in_body");
            format!("a{}", ctx.rng.range(39, 400))
        }
        4 => {
            ctx.stats.bump("sink.limit.exact");
            "r0".to_string()
        }
        5 | 6 => {
            // the last byte(s) are written by `finish()`
            ctx.stats.bump("sink.limit.in_finish");
            format!("r{}", ctx.rng.range(1, 10))
        }
        7 => {
            ctx.stats.bump("sink.limit.near_end");
            format!("r{}", ctx.rng.range(11, 80))
        }
        8 => {
            ctx.stats.bump("sink.limit.one_short");
            "r1".to_string()
        }
        _ => {
            ctx.stats.bump("sink.limit.ample");
            format!("a{}", 1_000_000 + ctx.rng.below(5))
        }
    };
    emit_op(ctx, &format!("sink {} {}", indent, lim), g);
}

fn char_ref(ctx: &mut GenCtx, c: char) -> String {
    let n = c as u32;
    match ctx.rng.below(6) {
        0 => format!("&#{};", n),
        1 => format!("&#x{:x};", n),
        2 => format!("&#x{:X};", n),
        3 => format!("&#{:05};", n),
        4 => format!("&#x{:06x};", n),
        _ => format!("&#x{:X};", n).to_lowercase(),
    }
}

const BAD_REFS: &[&str] = &[
    "&#0;", "&#x0;", "&#xD800;", "&#xDFFF;", "&#x110000;", "&#;", "&#x;", "&#xZ;", "&#+65;", "&#-65;", "&#65", "&#X41;", "&foo;", "&", "&;", "&#65 ;", "&# 65;",
    "&#99999999999;", "&#xFFFFFFFFF;", "&#1_0;", "&LT;", "&lt", "&#x4g;", "&#６５;",
];
/// accepted by quick-xml although not XML `Char`s / or unusual but fine
const ODD_REFS: &[&str] = &["&#1;", "&#x8;", "&#xFFFE;", "&#xFFFF;", "&#x10FFFF;", "&#xE000;", "&#xD7FF;", "&#x20;", "&#9;", "&#10;", "&#13;", "&#x85;", "&#x2028;", "&#38;", "&#60;", "&#x26;#60;"];

/// `doc` cut into markup (`<...>`) and character data; `<` and `>` never occur raw inside either
/// in the serialiser's output
fn segments(doc: &str) -> Vec<(bool, String)> {
    let mut out: Vec<(bool, String)> = vec![];
    let mut cur = String::new();
    for c in doc.chars() {
        match c {
            '<' => {
                if !cur.is_empty() {
                    out.push((false, std::mem::take(&mut cur)));
                }
                cur.push(c);
            }
            '>' => {
                cur.push(c);
                out.push((true, std::mem::take(&mut cur)));
            }
            _ => cur.push(c),
        }
    }
    if !cur.is_empty() {
        out.push((false, cur));
    }
    out
}

/// rewrite `s` (character data or one attribute value): predefined entities and some characters
/// become numeric character references denoting the SAME character
fn with_refs(ctx: &mut GenCtx, s: &str, ws_chance: usize, changed: &mut bool) -> String {
    let mut v = String::new();
    let mut rest = s;
    'outer: while let Some(c) = rest.chars().next() {
        for (ent, ch) in [("&lt;", '<'), ("&gt;", '>'), ("&amp;", '&'), ("&quot;", '"'), ("&apos;", '\'')] {
            if rest.starts_with(ent) {
                if ctx.rng.chance(1, 2) {
                    v += &char_ref(ctx, ch);
                    *changed = true;
                    ctx.stats.bump("rd.ref_for_entity");
                } else {
                    v += ent;
                }
                rest = &rest[ent.len()..];
                continue 'outer;
            }
        }
        let pick = match c {
            '\r' | '\t' => ctx.rng.chance(1, 2),
            '\n' | ' ' => ws_chance > 0 && ctx.rng.chance(1, ws_chance),
            c if !c.is_ascii() => ctx.rng.chance(1, 4),
            c if c.is_ascii_alphanumeric() => ctx.rng.chance(1, 40),
            _ => false,
        };
        if pick {
            v += &char_ref(ctx, c);
            *changed = true;
            ctx.stats.bump(if c == '\r' { "rd.ref_for_cr" } else if c.is_ascii() { "rd.ref_for_ascii" } else { "rd.ref_for_non_ascii" });
        } else {
            v.push(c);
        }
        rest = &rest[c.len_utf8()..];
    }
    v
}

/// the real serialiser's bytes for `g`, verbatim and with numeric character references put in —
/// only where the model reader claims to mirror rio_xml / quick-xml: in character data and inside
/// attribute values (references inside names or between attributes are malformed XML, on which
/// the real parser's behaviour belongs to C08)
fn emit_rd(ctx: &mut GenCtx, indent: usize, g: &[Tr]) {
    if !in_scope(g) {
        return;
    }
    let Ok(doc) = serialize(indent, g) else { return };
    ctx.emit(&format!("rd {}", hex(&doc)));
    ctx.stats.bump("rd.verbatim");
    let segs = segments(&doc);
    // (1) same characters, written as references
    let mut changed = false;
    let mut v = String::new();
    for (markup, s) in &segs {
        if *markup {
            if s.starts_with("<?") {
                v += s;
                continue;
            }
            // attribute values only
            for (k, part) in s.split('"').enumerate() {
                if k > 0 {
                    v.push('"');
                }
                if k % 2 == 1 {
                    v += &with_refs(ctx, part, 0, &mut changed);
                } else {
                    v += part;
                }
            }
        } else if s.chars().all(|c| matches!(c, ' ' | '\t' | '\n' | '\r')) {
            // indentation or a whitespace-only literal: rarely (the raw text is then no longer
            // whitespace-only: an error between elements, a kept literal inside a property)
            if ctx.rng.chance(1, 25) {
                ctx.stats.bump("rd.ref_in_whitespace_only_text");
                v += &with_refs(ctx, s, 2, &mut changed);
            } else {
                v += s;
            }
        } else {
            v += &with_refs(ctx, s, 6, &mut changed);
        }
    }
    if changed {
        ctx.emit(&format!("rd {}", hex(&v)));
        ctx.stats.bump("rd.with_refs");
    }
    // (2) one odd or malformed reference inside the character data of an element
    let texts: Vec<usize> = (0..segs.len()).filter(|&i| !segs[i].0 && i > 0 && i + 1 < segs.len() && !segs[i - 1].1.starts_with("</") && !segs[i - 1].1.starts_with("<rdf:") && segs[i + 1].1.starts_with("</")).collect();
    if !texts.is_empty() {
        let at = *ctx.rng.pick(&texts);
        let (pool, what) = if ctx.rng.chance(1, 2) { (BAD_REFS, "rd.malformed_ref") } else { (ODD_REFS, "rd.odd_ref") };
        let r = pk(ctx, pool);
        let mut w = String::new();
        for (i, (_, s)) in segs.iter().enumerate() {
            if i == at {
                let chars: Vec<char> = s.chars().collect();
                // never inside an existing entity
                let cut = match ctx.rng.below(3) {
                    0 => 0,
                    1 => chars.len(),
                    _ => {
                        let k = ctx.rng.below(chars.len() + 1);
                        let head: String = chars[..k].iter().collect();
                        if head.rfind('&').is_some_and(|a| !head[a..].contains(';')) { 0 } else { k }
                    }
                };
                w.extend(chars[..cut].iter());
                w += r;
                w.extend(chars[cut..].iter());
            } else {
                w += s;
            }
        }
        ctx.emit(&format!("rd {}", hex(&w)));
        ctx.stats.bump(what);
    }
}

fn emit_src(ctx: &mut GenCtx, indent: usize, g: &[Tr]) {
    let k = ctx.rng.range(0, g.len() + 1);
    ctx.stats.bump(if k == 0 { "src.fails_first" } else if k < g.len() { "src.fails_midway" } else if k == g.len() { "src.fails_never_exact" } else { "src.fails_never" });
    emit_op(ctx, &format!("src {} {}", indent, k), g);
}

pub fn generate(ctx: &mut GenCtx) {
    let preds = predicates();
    let dts = datatypes();
    let plain: Vec<(String, &'static str)> = preds.iter().filter(|(_, s)| matches!(*s, "slash" | "hash" | "colon" | "non-ascii" | "digit-initial" | "percent" | "markup-in-ns" | "rdf-near" | "odd-iri")).cloned().collect();
    // every predicate shape: its split, and one document per object kind
    for (p, shape) in &preds {
        ctx.emit(&format!("split {}", hex(p)));
        ctx.stats.bump("split");
        let _ = shape;
        let s = T::Iri("http://ex.org/a".into());
        emit_ser(ctx, 0, &[[s.clone(), T::Iri(p.clone()), T::Iri("http://ex.org/b".into())]]);
        emit_ser(ctx, 2, &[[s.clone(), T::Iri(p.clone()), T::Lit("a b".into(), format!("{}string", XSD))]]);
    }
    // every text atom alone and doubled, in every literal kind, with and without indentation
    let mut atoms: Vec<String> = TEXT_ATOMS.iter().chain(WS_ATOMS).chain(OOS_ATOMS).map(|s| s.to_string()).collect();
    atoms.push(String::new());
    for a in &atoms {
        for (k, text) in [a.clone(), format!("a{}", a), format!("{}a", a), format!("a{}b", a)].into_iter().enumerate() {
            let s = T::Iri("http://ex.org/a".into());
            let p = T::Iri("http://ex.org/p".into());
            let o = match k % 3 {
                0 => T::Lit(text, format!("{}string", XSD)),
                1 => T::Lang(text, "en".into()),
                _ => T::Lit(text, format!("{}XMLLiteral", RDF)),
            };
            emit_ser(ctx, if k % 2 == 0 { 0 } else { 4 }, &[[s, p, o]]);
            ctx.stats.bump("atom_case");
        }
    }
    // every blank label in both positions
    for b in BNODES {
        emit_ser(ctx, 1, &[[T::Bnode(b.to_string()), T::Iri("http://ex.org/p".into()), T::Bnode(b.to_string())]]);
        ctx.stats.bump("bnode_case");
    }
    // distinct blank nodes whose labels would collide if the serialiser renamed some of them to
    // generated names (b0, b1, rio1, riog00000001 ...): every non-ASCII NCName label next to every
    // generated-looking one, both orders
    for odd in ["é", "b\u{B7}1", "_u", "x.y"] {
        for plain_l in ["b0", "b1", "rio1", "riog00000001"] {
            let (x, y) = (T::Bnode(odd.to_string()), T::Bnode(plain_l.to_string()));
            let px = T::Iri("http://ex.org/p".into());
            let l1 = T::Lit("1".into(), format!("{}string", XSD));
            let l2 = T::Lit("2".into(), format!("{}string", XSD));
            emit_ser(ctx, 0, &[[x.clone(), px.clone(), l1.clone()], [y.clone(), px.clone(), l2.clone()]]);
            emit_ser(ctx, 2, &[[y.clone(), px.clone(), l2.clone()], [x.clone(), px.clone(), y.clone()], [x.clone(), px.clone(), l1.clone()]]);
            ctx.stats.bump("bnode_collision_case");
        }
    }
    // structure: empty graph, grouping by consecutive subject, duplicates, large indentation
    let a = T::Iri("http://ex.org/a".into());
    let b = T::Bnode("a".into());
    let p = T::Iri("http://ex.org/p".into());
    let lit = T::Lit(" x ".into(), format!("{}string", XSD));
    for n in [0usize, 1, 3, 8, 50, 200] {
        emit_ser(ctx, n, &[]);
        emit_ser(ctx, n, &[[a.clone(), p.clone(), lit.clone()], [a.clone(), p.clone(), b.clone()], [b.clone(), p.clone(), a.clone()], [a.clone(), p.clone(), lit.clone()]]);
        // one rdf:Description per run of equal subjects, not per subject
        emit_ser(ctx, n, &[[b.clone(), p.clone(), lit.clone()], [a.clone(), p.clone(), lit.clone()], [b.clone(), p.clone(), a.clone()]]);
        ctx.stats.bump("structure_case");
    }
    // every near-miss datatype (and xsd:string itself), with and without indentation
    let xs = T::Iri("x:s".into());
    for dt in near_miss_datatypes().iter().chain(dts.iter()) {
        for (indent, text) in [(0usize, "a b"), (3, " <&> ")] {
            emit_ser(ctx, indent, &[[xs.clone(), p.clone(), T::Lit(text.into(), dt.clone())]]);
            ctx.stats.bump("datatype_case");
        }
    }
    // every odd IRI in subject, object and datatype position
    for i in ODD_IRIS.iter().chain(NEAR_MISS_VOCAB) {
        let t = T::Iri(i.to_string());
        emit_ser(ctx, 2, &[[t.clone(), p.clone(), t.clone()], [t.clone(), p.clone(), T::Lit("v".into(), i.to_string())]]);
        ctx.stats.bump("iri_case");
    }
    // quoted triples: one / both positions, depth 1..3, with a non-convertible leaf (skipped)
    // or without (formatter error), before and after a representable triple
    let q1 = T::Triple(Box::new([a.clone(), p.clone(), lit.clone()]));
    let q2 = T::Triple(Box::new([q1.clone(), p.clone(), q1.clone()]));
    let q3 = T::Triple(Box::new([b.clone(), p.clone(), q2.clone()]));
    let bad1 = T::Triple(Box::new([lit.clone(), p.clone(), a.clone()]));
    let bad2 = T::Triple(Box::new([q1.clone(), p.clone(), bad1.clone()]));
    let plain_t: Tr = [a.clone(), p.clone(), lit.clone()];
    for (s_, o_) in [(&q1, &a), (&a, &q1), (&q1, &q1), (&q2, &a), (&a, &q2), (&q2, &q2), (&q3, &q1), (&q1, &q3), (&bad1, &a), (&a, &bad1), (&q1, &bad1), (&bad2, &q1), (&q2, &bad2), (&bad2, &bad2)] {
        let t: Tr = [(*s_).clone(), p.clone(), (*o_).clone()];
        emit_ser(ctx, 0, &[t.clone()]);
        emit_ser(ctx, 2, &[plain_t.clone(), t.clone(), plain_t.clone()]);
        emit_op(ctx, "src 0 1", &[plain_t.clone(), t.clone()]);
        emit_op(ctx, "src 0 2", &[plain_t.clone(), t.clone(), plain_t.clone()]);
        emit_op(ctx, "sink 0 a1000000", &[t.clone(), plain_t.clone()]);
        ctx.stats.bump("quoted_case");
    }
    // a failing writer at every position of a small document, and a failing source at every position
    let small: Vec<Tr> = vec![plain_t.clone(), [b.clone(), p.clone(), T::Lang("é\r\n".into(), "en".into())], [b.clone(), T::Iri("http://ex.org/".into()), a.clone()]];
    for indent in [0usize, 2] {
        for k in 0..=330usize {
            emit_op(ctx, &format!("sink {} a{}", indent, k), &small);
            ctx.stats.bump("sink.every_position");
        }
        for k in 0..=30usize {
            emit_op(ctx, &format!("sink {} r{}", indent, k), &small);
        }
        for k in 0..=4usize {
            emit_op(ctx, &format!("src {} {}", indent, k), &small);
            emit_op(ctx, &format!("src {} {}", indent, k), &[]);
            ctx.stats.bump("src.every_position");
        }
        emit_op(ctx, &format!("sink {} r0", indent), &[]);
        emit_op(ctx, &format!("sink {} r1", indent), &[]);
        emit_op(ctx, &format!("sink {} a0", indent), &[]);
    }
    let n = if ctx.thorough { 30000 } else { 2500 };
    for _ in 0..n {
        let big = ctx.rng.chance(1, 60);
        let k = if big {
            ctx.stats.bump("graph.big");
            ctx.rng.range(20, 60)
        } else {
            ctx.rng.range(1, 5)
        };
        let mut g: Vec<Tr> = vec![];
        let mut all_rep = true;
        for i in 0..k {
            let mut t = if big {
                // mostly strict; skipped triples allowed, refused ones (serialiser error) not
                let t = if ctx.rng.chance(1, 10) { gen_nonrepresentable(ctx, &plain, &dts) } else { gen_strict(ctx, &plain, &dts) };
                if formatter_refuses(&t) {
                    gen_strict(ctx, &plain, &dts)
                } else {
                    all_rep = all_rep && representable(&t);
                    t
                }
            } else if ctx.rng.chance(1, 8) {
                all_rep = false;
                gen_nonrepresentable(ctx, &plain, &dts)
            } else if ctx.rng.chance(1, 12) {
                gen_strict(ctx, &preds, &dts)
            } else {
                gen_strict(ctx, &plain, &dts)
            };
            // consecutive same subject: grouping under one rdf:Description
            if i > 0 && ctx.rng.chance(1, 2) && representable(&t) {
                t[0] = g[i - 1][0].clone();
                if !matches!(t[0], T::Iri(_) | T::Bnode(_)) {
                    t[0] = T::Iri("http://ex.org/a".into());
                } else {
                    ctx.stats.bump("graph.same_subject_run");
                }
            }
            if big {
                // a big graph must really round-trip: none of the known-finding shapes
                // (digit-initial blank label, whitespace-only text)
                for x in t.iter_mut() {
                    match x {
                        T::Bnode(l) if !is_ncname(l) => *l = "b7".into(),
                        T::Lit(v, _) | T::Lang(v, _) if !v.is_empty() && v.chars().all(|c| matches!(c, ' ' | '\t' | '\n' | '\r')) => v.push('w'),
                        _ => {}
                    }
                }
            }
            g.push(t);
        }
        if all_rep {
            ctx.stats.bump("graph.all_representable");
        } else {
            ctx.stats.bump("graph.with_nonrepresentable");
        }
        let indent = if ctx.rng.chance(1, 40) { ctx.rng.range(9, 70) } else { ctx.rng.range(0, 8) };
        ctx.stats.bump(&format!("indent.{}", if indent > 8 { "big".to_string() } else { indent.to_string() }));
        emit_ser(ctx, indent, &g);
        if ctx.rng.chance(1, 5) {
            emit_sink(ctx, indent, &g);
        }
        if ctx.rng.chance(1, 8) {
            emit_src(ctx, indent, &g);
        }
        if ctx.rng.chance(1, 3) {
            emit_rd(ctx, indent, &g);
        }
    }
}

fn main() {
    vhcore::main_loop(generate, exec);
}
