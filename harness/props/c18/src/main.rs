//! C18 — RDF/XML serialisation round trip.
//!
//! requests:
//!   ser <indent> <term>*      3k terms in prefix notation (`T::render`): the triples, in order
//!   split <hexiri>            namespace / local-name split as the real formatter performs it
//!                             (observed on the output of a one-triple document)
//!
//! `ser` runs the REAL `RdfXmlSerializer` with `RdfXmlConfig::with_indentation(n)`, prints the
//! output bytes (byte-exact differential with the Lean model), parses them back with the REAL
//! `sophia_xml::parser::parse_str`, and judges the property on this side:
//!   FAIL.not_wellformed   output is not a namespace-well-formed XML 1.0 document (own checker)
//!   FAIL.roundtrip        output does not parse, or parses to a graph that is not isomorphic
//!                         (own exact test, blank labels may be renamed, language tags compared
//!                         case-insensitively) to the input restricted to representable triples
//!   FAIL.indent_changes_result  the parse differs between indentation 0..8
//! Inputs with characters outside XML `Char` are out of the property's scope: outcome recorded
//! (`oos=1`), never flagged.
use sophia_api::prelude::*;
use sophia_api::term::SimpleTerm;
use sophia_xml::serializer::{RdfXmlConfig, RdfXmlSerializer};
use std::collections::{BTreeMap, BTreeSet};
use vhcore::tgen::{to_simple, view, RDF, XSD};
use vhcore::util::*;
use vhcore::GenCtx;

type Tr = [T; 3];

// ------------------------------------------------------------------------------------------
// XML character classes (XML 1.0 5th edition), transcribed independently of rio_xml
// ------------------------------------------------------------------------------------------

fn xml_char(c: char) -> bool {
    matches!(c, '\t' | '\n' | '\r' | '\u{20}'..='\u{D7FF}' | '\u{E000}'..='\u{FFFD}' | '\u{10000}'..='\u{10FFFF}')
}

fn name_start(c: char) -> bool {
    matches!(c, 'A'..='Z' | '_' | 'a'..='z' | '\u{C0}'..='\u{D6}' | '\u{D8}'..='\u{F6}' | '\u{F8}'..='\u{2FF}'
        | '\u{370}'..='\u{37D}' | '\u{37F}'..='\u{1FFF}' | '\u{200C}'..='\u{200D}' | '\u{2070}'..='\u{218F}'
        | '\u{2C00}'..='\u{2FEF}' | '\u{3001}'..='\u{D7FF}' | '\u{F900}'..='\u{FDCF}' | '\u{FDF0}'..='\u{FFFD}'
        | '\u{10000}'..='\u{EFFFF}')
}

fn name_char(c: char) -> bool {
    name_start(c) || matches!(c, '-' | '.' | '0'..='9' | '\u{B7}' | '\u{300}'..='\u{36F}' | '\u{203F}'..='\u{2040}')
}

fn is_ncname(s: &str) -> bool {
    let mut it = s.chars();
    match it.next() {
        Some(c) if name_start(c) => it.all(name_char),
        _ => false,
    }
}

// ------------------------------------------------------------------------------------------
// own well-formedness checker (namespace-well-formed XML 1.0 without DTD, comments, PI, CDATA —
// none of which the serialiser emits; meeting one is reported as not well-formed)
// ------------------------------------------------------------------------------------------

struct Cur<'a> {
    s: &'a [char],
    i: usize,
}

impl<'a> Cur<'a> {
    fn peek(&self) -> Option<char> {
        self.s.get(self.i).copied()
    }
    fn eat(&mut self, lit: &str) -> bool {
        let l: Vec<char> = lit.chars().collect();
        if self.s[self.i..].starts_with(&l) {
            self.i += l.len();
            true
        } else {
            false
        }
    }
    fn ws(&mut self) -> usize {
        let st = self.i;
        while matches!(self.peek(), Some(' ' | '\t' | '\n' | '\r')) {
            self.i += 1;
        }
        self.i - st
    }
    /// QName: NCName | NCName ':' NCName ; returns (prefix, local)
    fn qname(&mut self) -> Result<(String, String), String> {
        let st = self.i;
        while let Some(c) = self.peek() {
            if name_char(c) || c == ':' {
                self.i += 1;
            } else {
                break;
            }
        }
        let n: String = self.s[st..self.i].iter().collect();
        let parts: Vec<&str> = n.split(':').collect();
        match parts.as_slice() {
            [l] if is_ncname(l) => Ok((String::new(), l.to_string())),
            [p, l] if is_ncname(p) && is_ncname(l) => Ok((p.to_string(), l.to_string())),
            _ => Err(format!("bad-qname:{}", hex(&n))),
        }
    }
    /// a reference after '&'
    fn reference(&mut self) -> Result<(), String> {
        for e in ["lt;", "gt;", "amp;", "apos;", "quot;"] {
            if self.eat(e) {
                return Ok(());
            }
        }
        if self.eat("#x") {
            let st = self.i;
            while matches!(self.peek(), Some(c) if c.is_ascii_hexdigit()) {
                self.i += 1;
            }
            let v: String = self.s[st..self.i].iter().collect();
            let ok = u32::from_str_radix(&v, 16).ok().and_then(char::from_u32).map(xml_char).unwrap_or(false);
            return if ok && self.eat(";") { Ok(()) } else { Err("bad-charref".into()) };
        }
        if self.eat("#") {
            let st = self.i;
            while matches!(self.peek(), Some(c) if c.is_ascii_digit()) {
                self.i += 1;
            }
            let v: String = self.s[st..self.i].iter().collect();
            let ok = v.parse::<u32>().ok().and_then(char::from_u32).map(xml_char).unwrap_or(false);
            return if ok && self.eat(";") { Ok(()) } else { Err("bad-charref".into()) };
        }
        Err("bad-entity".into())
    }
}

fn well_formed(doc: &str) -> Result<(), String> {
    if let Some(c) = doc.chars().find(|c| !xml_char(*c)) {
        return Err(format!("illegal-char:{:x}", c as u32));
    }
    let chars: Vec<char> = doc.chars().collect();
    let mut c = Cur { s: &chars, i: 0 };
    if c.eat("<?xml") {
        // XMLDecl: version, optional encoding; checked loosely (fixed text in the formatter)
        while let Some(ch) = c.peek() {
            if ch == '?' {
                break;
            }
            if ch == '<' {
                return Err("bad-decl".into());
            }
            c.i += 1;
        }
        if !c.eat("?>") {
            return Err("bad-decl".into());
        }
    }
    c.ws();
    // element stack: (qname string, namespace bindings introduced)
    let mut stack: Vec<(String, Vec<String>)> = vec![];
    let mut bound: Vec<String> = vec!["xml".into()];
    let mut seen_root = false;
    loop {
        match c.peek() {
            None => break,
            Some('<') => {
                c.i += 1;
                if c.eat("/") {
                    let (p, l) = c.qname()?;
                    c.ws();
                    if !c.eat(">") {
                        return Err("bad-end-tag".into());
                    }
                    let name = if p.is_empty() { l } else { format!("{}:{}", p, l) };
                    match stack.pop() {
                        Some((n, intro)) if n == name => {
                            for _ in intro {
                                bound.pop();
                            }
                        }
                        _ => return Err("unbalanced".into()),
                    }
                    continue;
                }
                if matches!(c.peek(), Some('!' | '?')) {
                    return Err("unexpected-markup".into());
                }
                if stack.is_empty() && seen_root {
                    return Err("second-root".into());
                }
                seen_root = true;
                let (p, l) = c.qname()?;
                let name = if p.is_empty() { l } else { format!("{}:{}", p, l) };
                let mut attrs: Vec<(String, String)> = vec![];
                let mut intro = vec![];
                let empty;
                loop {
                    let w = c.ws();
                    if c.eat("/>") {
                        empty = true;
                        break;
                    }
                    if c.eat(">") {
                        empty = false;
                        break;
                    }
                    if w == 0 {
                        return Err("attr-without-space".into());
                    }
                    let (ap, al) = c.qname()?;
                    c.ws();
                    if !c.eat("=") {
                        return Err("attr-without-eq".into());
                    }
                    c.ws();
                    let q = match c.peek() {
                        Some(q @ ('"' | '\'')) => q,
                        _ => return Err("attr-unquoted".into()),
                    };
                    c.i += 1;
                    let mut empty_value = true;
                    loop {
                        match c.peek() {
                            None => return Err("attr-unterminated".into()),
                            Some(ch) if ch == q => {
                                c.i += 1;
                                break;
                            }
                            Some('<') => return Err("lt-in-attr".into()),
                            Some('&') => {
                                c.i += 1;
                                c.reference()?;
                            }
                            Some(_) => c.i += 1,
                        }
                        empty_value = false;
                    }
                    if attrs.contains(&(ap.clone(), al.clone())) {
                        return Err("duplicate-attr".into());
                    }
                    if ap == "xmlns" {
                        if empty_value {
                            return Err("empty-prefix-binding".into());
                        }
                        intro.push(al.clone());
                    }
                    attrs.push((ap, al));
                }
                for b in &intro {
                    bound.push(b.clone());
                }
                if !p.is_empty() && !bound.contains(&p) {
                    return Err(format!("unbound-prefix:{}", p));
                }
                for (ap, _) in &attrs {
                    if !ap.is_empty() && ap != "xmlns" && !bound.contains(ap) {
                        return Err(format!("unbound-prefix:{}", ap));
                    }
                }
                if empty {
                    for _ in &intro {
                        bound.pop();
                    }
                } else {
                    stack.push((name, intro));
                }
            }
            Some(_) => {
                // character data
                let inside = !stack.is_empty();
                loop {
                    match c.peek() {
                        None | Some('<') => break,
                        Some('&') => {
                            if !inside {
                                return Err("text-outside-root".into());
                            }
                            c.i += 1;
                            c.reference()?;
                        }
                        Some(ch) => {
                            if !inside && !matches!(ch, ' ' | '\t' | '\n' | '\r') {
                                return Err("text-outside-root".into());
                            }
                            if c.eat("]]>") {
                                return Err("cdata-end-in-text".into());
                            }
                            c.i += 1;
                        }
                    }
                }
            }
        }
    }
    if !stack.is_empty() {
        return Err("unclosed".into());
    }
    if !seen_root {
        return Err("no-root".into());
    }
    Ok(())
}

// ------------------------------------------------------------------------------------------
// abstract graphs, representability (restated here independently of convert_triple), isomorphism
// ------------------------------------------------------------------------------------------

/// a triple RDF/XML can express
fn representable(t: &Tr) -> bool {
    matches!(t[0], T::Iri(_) | T::Bnode(_)) && matches!(t[1], T::Iri(_)) && matches!(t[2], T::Iri(_) | T::Bnode(_) | T::Lit(..) | T::Lang(..))
}

/// contains a quoted triple that `convert_triple` hands to the formatter (which then fails)
fn strict_star(t: &T) -> bool {
    match t {
        T::Triple(b) => {
            (matches!(b[0], T::Iri(_) | T::Bnode(_)) || strict_star(&b[0]))
                && matches!(b[1], T::Iri(_))
                && (matches!(b[2], T::Iri(_) | T::Bnode(_) | T::Lit(..) | T::Lang(..)) || strict_star(&b[2]))
        }
        _ => false,
    }
}

fn norm_term(t: &T) -> T {
    match t {
        T::Lang(l, tag) => T::Lang(l.clone(), tag.to_ascii_lowercase()),
        T::Triple(b) => T::Triple(Box::new([norm_term(&b[0]), norm_term(&b[1]), norm_term(&b[2])])),
        x => x.clone(),
    }
}

fn norm_graph(g: &[Tr]) -> BTreeSet<Tr> {
    g.iter().map(|t| [norm_term(&t[0]), norm_term(&t[1]), norm_term(&t[2])]).collect()
}

fn rename(t: &T, m: &BTreeMap<String, String>) -> Option<T> {
    Some(match t {
        T::Bnode(b) => T::Bnode(m.get(b)?.clone()),
        x => x.clone(),
    })
}

fn labels(g: &BTreeSet<Tr>) -> Vec<String> {
    let mut s = BTreeSet::new();
    for t in g {
        for x in t {
            if let T::Bnode(b) = x {
                s.insert(b.clone());
            }
        }
    }
    s.into_iter().collect()
}

/// exact graph isomorphism: a bijection of blank labels mapping `a` onto `b` (backtracking over
/// all injections; graphs here have at most a handful of labels)
fn isomorphic(a: &BTreeSet<Tr>, b: &BTreeSet<Tr>) -> bool {
    if a.len() != b.len() {
        return false;
    }
    let la = labels(a);
    let lb = labels(b);
    if la.len() != lb.len() {
        return false;
    }
    fn go(i: usize, la: &[String], lb: &[String], used: &mut Vec<bool>, m: &mut BTreeMap<String, String>, a: &BTreeSet<Tr>, b: &BTreeSet<Tr>) -> bool {
        if i == la.len() {
            return a.iter().all(|t| match (rename(&t[0], m), rename(&t[1], m), rename(&t[2], m)) {
                (Some(s), Some(p), Some(o)) => b.contains(&[s, p, o]),
                _ => false,
            });
        }
        for j in 0..lb.len() {
            if !used[j] {
                used[j] = true;
                m.insert(la[i].clone(), lb[j].clone());
                if go(i + 1, la, lb, used, m, a, b) {
                    return true;
                }
                m.remove(&la[i]);
                used[j] = false;
            }
        }
        false
    }
    go(0, &la, &lb, &mut vec![false; lb.len()], &mut BTreeMap::new(), a, b)
}

/// canonical one-token rendering of a parsed graph (sorted, deduplicated, tags as delivered)
fn render_graph(g: &[Tr]) -> String {
    let set: BTreeSet<String> = g
        .iter()
        .map(|t| format!("{},{},{}", t[0].render(), t[1].render(), t[2].render()).replace(' ', ","))
        .collect();
    if set.is_empty() {
        "_".to_string()
    } else {
        set.into_iter().collect::<Vec<_>>().join(";")
    }
}

// ------------------------------------------------------------------------------------------
// the real code
// ------------------------------------------------------------------------------------------

fn serialize(indent: usize, g: &[Tr]) -> Result<String, String> {
    let triples: Vec<[SimpleTerm<'static>; 3]> = g.iter().map(|t| [to_simple(&t[0]), to_simple(&t[1]), to_simple(&t[2])]).collect();
    let config = RdfXmlConfig::new().with_indentation(indent);
    let mut ser = RdfXmlSerializer::new_stringifier_with_config(config);
    match ser.serialize_triples(triples.triples()) {
        Ok(s) => Ok(s.to_string()),
        Err(e) => Err(e.to_string()),
    }
}

fn parse(doc: &str) -> Result<Vec<Tr>, String> {
    let mut out: Vec<Tr> = vec![];
    let r = sophia_xml::parser::parse_str(doc).for_each_triple(|t| {
        out.push([view(t.s()), view(t.p()), view(t.o())]);
    });
    match r {
        Ok(()) => Ok(out),
        Err(e) => Err(e.to_string()),
    }
}

fn all_strings<'a>(t: &'a T, out: &mut Vec<&'a str>) {
    match t {
        T::Iri(s) | T::Bnode(s) | T::Var(s) => out.push(s),
        T::Lit(a, b) | T::Lang(a, b) => {
            out.push(a);
            out.push(b);
        }
        T::Triple(b) => {
            for x in b.iter() {
                all_strings(x, out)
            }
        }
    }
}

/// element name the formatter would have to use: does the predicate have a legal one?
/// (independent restatement: some suffix of the IRI is an NCName and the rest is non-empty)
fn qnameable(p: &str) -> bool {
    let idx: Vec<usize> = p.char_indices().map(|(i, _)| i).collect();
    idx.iter().any(|&i| i > 0 && is_ncname(&p[i..]))
}

fn exec_ser(f: &[&str]) -> String {
    let Some(indent) = f.first().and_then(|s| s.parse::<usize>().ok()) else { return "bad-op".into() };
    let mut toks = f[1..].iter().copied();
    let mut g: Vec<Tr> = vec![];
    loop {
        let mut pk = toks.clone();
        if pk.next().is_none() {
            break;
        }
        let (Some(s), Some(p), Some(o)) = (T::parse(&mut toks), T::parse(&mut toks), T::parse(&mut toks)) else {
            return "bad-op".into();
        };
        g.push([s, p, o]);
    }
    let mut strs = vec![];
    for t in &g {
        for x in t {
            all_strings(x, &mut strs);
        }
    }
    let in_scope = strs.iter().all(|s| s.chars().all(xml_char));
    let expected: Vec<Tr> = g.iter().filter(|t| representable(t)).cloned().collect();
    let has_star = g.iter().any(|t| {
        (matches!(t[0], T::Iri(_) | T::Bnode(_)) || strict_star(&t[0]))
            && matches!(t[1], T::Iri(_))
            && (matches!(t[2], T::Iri(_) | T::Bnode(_) | T::Lit(..) | T::Lang(..)) || strict_star(&t[2]))
            && !representable(t)
    });
    let all_qname = expected.iter().all(|t| matches!(&t[1], T::Iri(p) if qnameable(p)));

    let res = serialize(indent, &g);
    let mut out = String::new();
    let mut fails: Vec<String> = vec![];
    match &res {
        Err(_) => {
            out += "out=err parse=na g=na";
            // an error is an admissible outcome unless the graph is in the class for which the
            // property promises success
            if in_scope && all_qname && !has_star {
                fails.push("FAIL.roundtrip=serializer-error".into());
            }
        }
        Ok(doc) => {
            out += &format!("out={}", hex(doc));
            let wf = well_formed(doc);
            out += &format!(" wf={}", if wf.is_ok() { "1".to_string() } else { wf.clone().unwrap_err() });
            let parsed = catch(std::panic::AssertUnwindSafe(|| parse(doc)));
            match &parsed {
                Ok(Ok(pg)) => {
                    out += &format!(" parse=ok g={}", render_graph(pg));
                    let iso = isomorphic(&norm_graph(pg), &norm_graph(&expected));
                    out += &format!(" rt={}", if iso { 1 } else { 0 });
                    if !iso {
                        fails.push("FAIL.roundtrip=not-isomorphic".into());
                    }
                }
                Ok(Err(_)) => {
                    out += " parse=err g=err rt=0";
                    fails.push("FAIL.roundtrip=parse-error".into());
                }
                Err(_) => {
                    out += " parse=panic g=panic rt=0";
                    fails.push("FAIL.roundtrip=parse-panic".into());
                }
            }
            if let Err(e) = &wf {
                fails.push(format!("FAIL.not_wellformed={}", e));
            }
        }
    }
    // indentation must not change the parsed result
    let mut results: BTreeSet<String> = BTreeSet::new();
    for n in 0..=8usize {
        let r = match serialize(n, &g) {
            Err(_) => "err".to_string(),
            Ok(doc) => match catch(std::panic::AssertUnwindSafe(|| parse(&doc))) {
                Ok(Ok(pg)) => render_graph(&pg),
                Ok(Err(_)) => "parse-err".to_string(),
                Err(_) => "parse-panic".to_string(),
            },
        };
        results.insert(r);
    }
    out += &format!(" indents={}", results.len());
    if results.len() != 1 {
        fails.push(format!("FAIL.indent_changes_result={}", results.len()));
    }
    if in_scope {
        out += " oos=0";
        for x in fails {
            out.push(' ');
            out += &x;
        }
    } else {
        out += &format!(" oos=1 noted={}", fails.len());
    }
    out
}

/// observe the formatter's namespace split on a one-triple document
fn exec_split(h: &str) -> String {
    let Some(iri) = unhex(h) else { return "bad-hex".into() };
    let g = vec![[T::Iri("x:s".into()), T::Iri(iri), T::Iri("x:o".into())]];
    let Ok(doc) = serialize(0, &g) else { return "ns=err local=err".into() };
    let marker = "<rdf:Description rdf:about=\"x:s\"><";
    let Some(at) = doc.find(marker) else { return "ns=lost local=lost".into() };
    let rest = &doc[at + marker.len()..];
    let Some(sp) = rest.find(' ') else { return "ns=lost local=lost".into() };
    let name = &rest[..sp];
    let rest = &rest[sp + 1..];
    let (key, local) = if name == "prop:" && rest.starts_with("xmlns:prop=\"") { ("xmlns:prop=\"", "") } else { ("xmlns=\"", name) };
    let Some(rest) = rest.strip_prefix(key) else { return "ns=lost local=lost".into() };
    let Some(q) = rest.find('"') else { return "ns=lost local=lost".into() };
    let ns = rest[..q].replace("&lt;", "<").replace("&gt;", ">").replace("&quot;", "\"").replace("&apos;", "'").replace("&amp;", "&");
    format!("ns={} local={}", hex(&ns), hex(local))
}

pub fn exec(line: &str) -> String {
    let f: Vec<&str> = line.split_whitespace().collect();
    match f.as_slice() {
        ["ser", rest @ ..] => exec_ser(rest),
        ["split", h] => exec_split(h),
        _ => "bad-op".into(),
    }
}

// ------------------------------------------------------------------------------------------
// generator
// ------------------------------------------------------------------------------------------

const TEXT_ATOMS: &[&str] = &[
    "&", "<", ">", "\"", "'", "]]>", "&amp;", "&#13;", "&lt;", "<!--", "<![CDATA[", "<a>", "</p>", " ", "  ", "\t", "\n", "\r", "\r\n",
    "\n\n", "\u{85}", "\u{2028}", "\u{A0}", "\u{1F600}", "\u{10000}", "\u{10FFFF}", "\u{FFFD}", "\u{7F}", "\u{9F}", "a", "b", "Z", "0",
    "é", "chat", "x y", ";", "#", "%", "=",
];
const WS_ATOMS: &[&str] = &[" ", "  ", "\t", "\n", "\r", "\r\n", "\n  ", " \t\n"];
const OOS_ATOMS: &[&str] = &["\u{0}", "\u{1}", "\u{8}", "\u{B}", "\u{C}", "\u{1F}", "\u{FFFE}", "\u{FFFF}"];
const TAGS: &[&str] = &["en", "EN", "en-GB", "en-gb", "fr", "de-CH-1996", "zh-Hant", "sl-rozaj-biske"];
const SUBJ_IRIS: &[&str] = &["http://ex.org/a", "http://ex.org/b", "http://ex.org/a&b='c'", "x:s", "http://ex.org/é", "urn:uuid:1", "http://ex.org/\u{10000}"];
const BNODES: &[&str] = &["b0", "b1", "x.y", "a-b", "é", "_u", "b\u{B7}1", "rio1", "riog00000001", "0", "1a"];
/// labels that are NCNames (the last two of BNODES are not)
const GOOD_BNODES: usize = 9;

fn datatypes() -> Vec<String> {
    vec![
        format!("{}string", XSD),
        format!("{}integer", XSD),
        format!("{}XMLLiteral", RDF),
        format!("{}HTML", RDF),
        "http://ex.org/dt".into(),
        "http://ex.org/dt?a=1&b='2'".into(),
        "x:d".into(),
    ]
}

/// predicates with every namespace-split shape
fn predicates() -> Vec<(String, &'static str)> {
    let mut v: Vec<(String, &'static str)> = vec![
        ("http://ex.org/p".into(), "slash"),
        ("http://ex.org/ns#p".into(), "hash"),
        ("http://ex.org/ns#q".into(), "hash"),
        ("http://ex.org/".into(), "ends-slash"),
        ("http://ex.org/ns#".into(), "ends-hash"),
        ("http://ex.org/1p".into(), "digit-initial"),
        ("http://ex.org/-p.q-1".into(), "digit-initial"),
        ("http://ex.org/123".into(), "no-namestart"),
        ("http://ex.org/p?q=1".into(), "no-namestart"),
        ("http://ex.org/a%20b".into(), "percent"),
        ("http://ex.org/a%20".into(), "percent-end"),
        ("http://ex.org/a%C3%A9".into(), "percent-end"),
        ("http://ex.org/é".into(), "non-ascii"),
        ("http://ex.org/\u{B7}x".into(), "non-ascii"),
        ("http://ex.org/\u{10000}y".into(), "non-ascii"),
        ("http://ex.org/x\u{203F}\u{300}".into(), "non-ascii"),
        ("http://ex.org/\u{D7}".into(), "non-ascii-nonname"),
        ("x:p".into(), "colon"),
        ("urn:a:b".into(), "colon"),
        ("http://ex.org/a:b".into(), "colon"),
        ("x:".into(), "colon-end"),
        ("http://ex.org/a&b='c'/p".into(), "markup-in-ns"),
        ("http://ex.org/p-1.x".into(), "slash"),
        ("http://ex.org/xml".into(), "xml-name"),
        ("http://ex.org/xmlns".into(), "xml-name"),
        ("http://ex.org/p_q".into(), "slash"),
    ];
    for l in ["type", "value", "_1", "li", "Description", "about", "ID", "RDF", "resource", "nodeID", "datatype", "parseType", "bagID", "aboutEach", "aboutEachPrefix", "Seq", "first"] {
        v.push((format!("{}{}", RDF, l), "rdf-ns"));
    }
    v
}

fn pk(ctx: &mut GenCtx, xs: &[&'static str]) -> &'static str {
    *ctx.rng.pick(xs)
}

fn gen_text(ctx: &mut GenCtx) -> String {
    let k = ctx.rng.below(100);
    let mut s = String::new();
    if k < 6 {
        ctx.stats.bump("text.empty");
    } else if k < 9 {
        ctx.stats.bump("text.whitespace_only");
        for _ in 0..ctx.rng.range(1, 3) {
            s.push_str(pk(ctx, WS_ATOMS));
        }
    } else if k < 30 {
        ctx.stats.bump("text.lead_trail_ws");
        s.push_str(pk(ctx, WS_ATOMS));
        s.push_str(pk(ctx, TEXT_ATOMS));
        s.push_str(pk(ctx, WS_ATOMS));
    } else if k < 34 {
        ctx.stats.bump("text.out_of_scope_char");
        s.push_str(pk(ctx, TEXT_ATOMS));
        s.push_str(pk(ctx, OOS_ATOMS));
    } else {
        ctx.stats.bump("text.mixed");
        for _ in 0..ctx.rng.range(1, 5) {
            s.push_str(pk(ctx, TEXT_ATOMS));
        }
    }
    if s.contains('\r') {
        ctx.stats.bump("text.has_cr");
    }
    if s.chars().any(|c| c as u32 >= 0x10000) {
        ctx.stats.bump("text.has_non_bmp");
    }
    if s.chars().any(|c| "&<>\"'".contains(c)) {
        ctx.stats.bump("text.has_markup");
    }
    s
}

fn gen_literal(ctx: &mut GenCtx, dts: &[String]) -> T {
    let text = gen_text(ctx);
    if ctx.rng.chance(1, 3) {
        ctx.stats.bump("object.lang");
        T::Lang(text, pk(ctx, TAGS).to_string())
    } else {
        let dt = ctx.rng.pick(dts).clone();
        ctx.stats.bump(if dt.ends_with("XMLLiteral") { "object.xmlliteral" } else if dt.ends_with("#string") { "object.simple" } else { "object.typed" });
        T::Lit(text, dt)
    }
}

fn gen_bnode(ctx: &mut GenCtx) -> T {
    if ctx.rng.chance(1, 25) {
        ctx.stats.bump("bnode.digit_initial");
        T::Bnode(pk(ctx, &BNODES[GOOD_BNODES..]).to_string())
    } else {
        T::Bnode(pk(ctx, &BNODES[..GOOD_BNODES]).to_string())
    }
}

fn gen_subject(ctx: &mut GenCtx) -> T {
    if ctx.rng.chance(2, 5) {
        ctx.stats.bump("subject.bnode");
        gen_bnode(ctx)
    } else {
        ctx.stats.bump("subject.iri");
        T::Iri(pk(ctx, SUBJ_IRIS).to_string())
    }
}

fn gen_object(ctx: &mut GenCtx, dts: &[String]) -> T {
    match ctx.rng.below(10) {
        0 | 1 => {
            ctx.stats.bump("object.iri");
            T::Iri(pk(ctx, SUBJ_IRIS).to_string())
        }
        2 | 3 => {
            ctx.stats.bump("object.bnode");
            gen_bnode(ctx)
        }
        _ => gen_literal(ctx, dts),
    }
}

fn gen_strict(ctx: &mut GenCtx, preds: &[(String, &'static str)], dts: &[String]) -> Tr {
    let (p, shape) = ctx.rng.pick(preds).clone();
    ctx.stats.bump(&format!("pred.{}", shape));
    [gen_subject(ctx), T::Iri(p), gen_object(ctx, dts)]
}

fn gen_nonrepresentable(ctx: &mut GenCtx, preds: &[(String, &'static str)], dts: &[String]) -> Tr {
    let mut t = gen_strict(ctx, preds, dts);
    match ctx.rng.below(8) {
        0 => {
            ctx.stats.bump("nonrep.literal_subject");
            t[0] = gen_literal(ctx, dts);
        }
        1 => {
            ctx.stats.bump("nonrep.bnode_predicate");
            t[1] = T::Bnode("b0".into());
        }
        2 => {
            ctx.stats.bump("nonrep.literal_predicate");
            t[1] = gen_literal(ctx, dts);
        }
        3 => {
            ctx.stats.bump("nonrep.variable");
            let i = ctx.rng.below(3);
            t[i] = T::Var("v".into());
        }
        4 => {
            ctx.stats.bump("nonrep.quoted_subject");
            let q = gen_strict(ctx, preds, dts);
            t[0] = T::Triple(Box::new(q));
        }
        5 => {
            ctx.stats.bump("nonrep.quoted_object");
            let q = gen_strict(ctx, preds, dts);
            t[2] = T::Triple(Box::new(q));
        }
        6 => {
            ctx.stats.bump("nonrep.quoted_with_bad_inner");
            let mut q = gen_strict(ctx, preds, dts);
            q[ctx.rng.below(3)] = T::Var("w".into());
            if ctx.rng.chance(1, 2) {
                t[0] = T::Triple(Box::new(q));
            } else {
                t[2] = T::Triple(Box::new(q));
            }
        }
        _ => {
            ctx.stats.bump("nonrep.quoted_predicate");
            let q = gen_strict(ctx, preds, dts);
            t[1] = T::Triple(Box::new(q));
        }
    }
    t
}

fn emit_ser(ctx: &mut GenCtx, indent: usize, g: &[Tr]) {
    let mut line = format!("ser {}", indent);
    for t in g {
        for x in t {
            line.push(' ');
            line += &x.render();
        }
    }
    ctx.emit(&line);
}

pub fn generate(ctx: &mut GenCtx) {
    let preds = predicates();
    let dts = datatypes();
    let plain: Vec<(String, &'static str)> = preds.iter().filter(|(_, s)| matches!(*s, "slash" | "hash" | "colon" | "non-ascii" | "digit-initial" | "percent" | "markup-in-ns")).cloned().collect();
    // every predicate shape: its split, and one document per object kind
    for (p, shape) in &preds {
        ctx.emit(&format!("split {}", hex(p)));
        ctx.stats.bump("split");
        let _ = shape;
        let s = T::Iri("http://ex.org/a".into());
        emit_ser(ctx, 0, &[[s.clone(), T::Iri(p.clone()), T::Iri("http://ex.org/b".into())]]);
        emit_ser(ctx, 2, &[[s.clone(), T::Iri(p.clone()), T::Lit("a b".into(), format!("{}string", XSD))]]);
    }
    // every text atom alone and doubled, in every literal kind, with and without indentation
    let mut atoms: Vec<String> = TEXT_ATOMS.iter().chain(WS_ATOMS).chain(OOS_ATOMS).map(|s| s.to_string()).collect();
    atoms.push(String::new());
    for a in &atoms {
        for (k, text) in [a.clone(), format!("a{}", a), format!("{}a", a), format!("a{}b", a)].into_iter().enumerate() {
            let s = T::Iri("http://ex.org/a".into());
            let p = T::Iri("http://ex.org/p".into());
            let o = match k % 3 {
                0 => T::Lit(text, format!("{}string", XSD)),
                1 => T::Lang(text, "en".into()),
                _ => T::Lit(text, format!("{}XMLLiteral", RDF)),
            };
            emit_ser(ctx, if k % 2 == 0 { 0 } else { 4 }, &[[s, p, o]]);
            ctx.stats.bump("atom_case");
        }
    }
    // every blank label in both positions
    for b in BNODES {
        emit_ser(ctx, 1, &[[T::Bnode(b.to_string()), T::Iri("http://ex.org/p".into()), T::Bnode(b.to_string())]]);
        ctx.stats.bump("bnode_case");
    }
    // structure: empty graph, grouping by consecutive subject, duplicates, large indentation
    let a = T::Iri("http://ex.org/a".into());
    let b = T::Bnode("a".into());
    let p = T::Iri("http://ex.org/p".into());
    let lit = T::Lit(" x ".into(), format!("{}string", XSD));
    for n in [0usize, 1, 3, 8, 50, 200] {
        emit_ser(ctx, n, &[]);
        emit_ser(ctx, n, &[[a.clone(), p.clone(), lit.clone()], [a.clone(), p.clone(), b.clone()], [b.clone(), p.clone(), a.clone()], [a.clone(), p.clone(), lit.clone()]]);
        // one rdf:Description per run of equal subjects, not per subject
        emit_ser(ctx, n, &[[b.clone(), p.clone(), lit.clone()], [a.clone(), p.clone(), lit.clone()], [b.clone(), p.clone(), a.clone()]]);
        ctx.stats.bump("structure_case");
    }
    let n = if ctx.thorough { 30000 } else { 2500 };
    for _ in 0..n {
        let k = ctx.rng.range(1, 5);
        let mut g: Vec<Tr> = vec![];
        let mut all_rep = true;
        for i in 0..k {
            let mut t = if ctx.rng.chance(1, 8) {
                all_rep = false;
                gen_nonrepresentable(ctx, &plain, &dts)
            } else if ctx.rng.chance(1, 12) {
                gen_strict(ctx, &preds, &dts)
            } else {
                gen_strict(ctx, &plain, &dts)
            };
            // consecutive same subject: grouping under one rdf:Description
            if i > 0 && ctx.rng.chance(1, 2) && representable(&t) {
                t[0] = g[i - 1][0].clone();
                if !matches!(t[0], T::Iri(_) | T::Bnode(_)) {
                    t[0] = T::Iri("http://ex.org/a".into());
                } else {
                    ctx.stats.bump("graph.same_subject_run");
                }
            }
            g.push(t);
        }
        if all_rep {
            ctx.stats.bump("graph.all_representable");
        } else {
            ctx.stats.bump("graph.with_nonrepresentable");
        }
        let indent = if ctx.rng.chance(1, 40) { ctx.rng.range(9, 70) } else { ctx.rng.range(0, 8) };
        ctx.stats.bump(&format!("indent.{}", if indent > 8 { "big".to_string() } else { indent.to_string() }));
        emit_ser(ctx, indent, &g);
    }
}

fn main() {
    vhcore::main_loop(generate, exec);
}
