//! C17 — relativising an IRI against a base is the inverse of resolving.
//!
//! requests:
//!   n <hexbase> <parents>            fields of `Relativizer::new(base, parents)` (read off its public `Debug` output)
//!   z <hexbase> <parents> <hexiri>   `Relativizer::new(base, parents).relativize(iri)` under catch, then the real
//!                                    `BaseIri::resolve` of the returned reference
//! reply of `z`:
//!   rel=<hex|none|panic>  nopanic=0/1  some=0/1
//!   pk=<invalid|boundary|other>  kind of panic: `IriRef::new_unchecked(..)` on a string that is no IRI reference
//!                         (debug assertions are on, as in `cargo test`), or a slice inside a multi-byte character
//!   res=<hex|err|panic>   the real resolution of the real reference (differs from the model's `o.res` only where
//!                         the *resolver* (oxiri) deviates from RFC 3986, cf. C09 — not relativize's fault)
//!   resolves=0/1          real resolution gives back the IRI
//!   isref=0/1             the reference is an `irelative-ref` (no scheme)
//!   parents_ok=0/1        leading `..` segments of the reference <= parents
use sophia_iri::relativize::Relativizer;
use sophia_iri::resolve::BaseIri;
use sophia_iri::Iri;
use vhcore::util::*;
use vhcore::GenCtx;

const PARENTS: [u8; 6] = [0, 1, 2, 3, 4, 255];
const FAMILY: [&str; 7] = ["b", "c", "", ".", "..", "x:y", "é"];

#[derive(Clone, Debug)]
struct P {
    scheme: String,
    auth: Option<String>,
    rooted: bool,
    segs: Vec<String>,
    query: Option<String>,
    frag: Option<String>,
}

impl P {
    fn path(&self) -> String {
        let mut s = String::new();
        if self.rooted {
            s.push('/');
        }
        s.push_str(&self.segs.join("/"));
        s
    }
    fn render(&self) -> String {
        let mut s = format!("{}:", self.scheme);
        if let Some(a) = &self.auth {
            s.push_str("//");
            s.push_str(a);
        }
        s.push_str(&self.path());
        if let Some(q) = &self.query {
            s.push('?');
            s.push_str(q);
        }
        if let Some(f) = &self.frag {
            s.push('#');
            s.push_str(f);
        }
        s
    }
}

const SCHEMES: [&str; 4] = ["http", "x", "x-ample", "urn"];
const AUTHS: [&str; 9] = ["a", "", "é", "ab", "a.b:80", "u@h", "[::1]", "ê", "a:8"];
const SEGS: [&str; 16] = ["b", "c", "", ".", "..", "x:y", "é", "ê", "bc", "b;p", "d", "%2e", "e", ":", "b.", "..."];
const QUERIES: [&str; 8] = ["", "q", "q/r", "q?r", "é", "a/../b", "ê", "q/"];
const FRAGS: [&str; 7] = ["", "f", "f/g?h", "é", "f#", "ê", "/"];

fn opt<'a>(ctx: &mut GenCtx, num: usize, den: usize, xs: &'a [&'a str]) -> Option<String> {
    if ctx.rng.chance(num, den) { Some(ctx.rng.pick(xs).to_string()) } else { None }
}

fn seg(ctx: &mut GenCtx) -> String {
    // small alphabet biased to plain names so that long common prefixes are frequent
    if ctx.rng.chance(1, 2) {
        ctx.rng.pick(&SEGS[..3]).to_string()
    } else {
        ctx.rng.pick(&SEGS[..]).to_string()
    }
}

fn gen_base(ctx: &mut GenCtx) -> P {
    let scheme = ctx.rng.pick(&SCHEMES[..]).to_string();
    let auth = if ctx.rng.chance(3, 5) { Some(ctx.rng.pick(&AUTHS[..]).to_string()) } else { None };
    let n = match ctx.rng.below(10) {
        0 => 0,
        1 | 2 => 1,
        3 | 4 | 5 => 2,
        6 | 7 => 3,
        8 => 4,
        _ => 6,
    };
    let rooted = if auth.is_some() { n > 0 || ctx.rng.chance(1, 2) } else { ctx.rng.chance(2, 3) };
    let segs: Vec<String> = (0..n).map(|_| seg(ctx)).collect();
    let query = opt(ctx, 1, 3, &QUERIES);
    let frag = opt(ctx, 1, 3, &FRAGS);
    P { scheme, auth, rooted, segs, query, frag }
}

fn cut_at_char(s: &str, k: usize) -> &str {
    let mut i = k.min(s.len());
    while !s.is_char_boundary(i) {
        i -= 1;
    }
    &s[..i]
}

/// an IRI related to `b` (the shapes of the property's quantifier), and the name of the shape
fn derive(ctx: &mut GenCtx, b: &P) -> (String, &'static str) {
    let bs = b.render();
    match ctx.rng.below(16) {
        0 | 1 => {
            // same document: same path, query / fragment vary
            let mut p = b.clone();
            if ctx.rng.chance(2, 3) {
                p.query = opt(ctx, 1, 2, &QUERIES);
            }
            if ctx.rng.chance(2, 3) {
                p.frag = opt(ctx, 1, 2, &FRAGS);
            }
            (p.render(), "samedoc")
        }
        2..=7 => {
            // common directory prefix, then new segments
            let mut p = b.clone();
            let keep = ctx.rng.below(b.segs.len() + 1);
            p.segs.truncate(keep);
            for _ in 0..ctx.rng.below(4) {
                let s = seg(ctx);
                p.segs.push(s);
            }
            if p.auth.is_some() && !p.segs.is_empty() {
                p.rooted = true;
            }
            p.query = opt(ctx, 1, 3, &QUERIES);
            p.frag = opt(ctx, 1, 3, &FRAGS);
            (p.render(), "sibling")
        }
        8 | 9 => {
            // the base (with or without query / fragment) extended by a few characters
            let mut p = b.clone();
            let stem = match ctx.rng.below(3) {
                0 => bs.clone(),
                1 => {
                    p.frag = None;
                    p.render()
                }
                _ => {
                    p.frag = None;
                    p.query = None;
                    p.render()
                }
            };
            let ext = ["c", "é", ":", "/", "/c", "//c", "?q", "#f", ".", "..", "/.", "/..", "x:y", "c/d", "./c", "../c", "é/ê"];
            (format!("{}{}", stem, ctx.rng.pick(&ext[..])), "extend")
        }
        10 => {
            let k = ctx.rng.below(bs.len() + 1);
            (cut_at_char(&bs, k).to_string(), "truncate")
        }
        11 | 12 => {
            // authority or scheme with a shared prefix
            let mut p = b.clone();
            if ctx.rng.chance(3, 4) {
                p.auth = if ctx.rng.chance(4, 5) { Some(ctx.rng.pick(&AUTHS[..]).to_string()) } else { None };
                if p.auth.is_some() && !p.segs.is_empty() {
                    p.rooted = true;
                }
            } else {
                p.scheme = ctx.rng.pick(&SCHEMES[..]).to_string();
            }
            (p.render(), "authority")
        }
        13 => (gen_base(ctx).render(), "independent"),
        _ => {
            // one character of the base replaced / inserted / deleted
            let chars: Vec<char> = bs.chars().collect();
            let alpha = ['/', '?', '#', ':', '.', 'b', 'c', 'é', 'ê', 'e'];
            let i = ctx.rng.below(chars.len());
            let mut o: Vec<char> = chars.clone();
            match ctx.rng.below(3) {
                0 => o[i] = *ctx.rng.pick(&alpha[..]),
                1 => o.insert(i, *ctx.rng.pick(&alpha[..])),
                _ => {
                    o.remove(i);
                }
            }
            (o.into_iter().collect(), "edit")
        }
    }
}

fn valid_pair(base: &str, iri: &str) -> bool {
    BaseIri::new(base).is_ok() && Iri::new(base).is_ok() && Iri::new(iri).is_ok()
}

fn shape_stats(ctx: &mut GenCtx, base: &str, iri: &str) {
    let lcp = base.bytes().zip(iri.bytes()).take_while(|(a, b)| a == b).count();
    if !base.is_char_boundary(lcp) || !iri.is_char_boundary(lcp) {
        ctx.stats.bump("shape.lcp_inside_multibyte");
    }
    if lcp < iri.len() {
        let rest = &iri.as_bytes()[lcp..];
        match rest[0] {
            b'/' => ctx.stats.bump("shape.diverge_at_slash"),
            b'?' | b'#' => ctx.stats.bump("shape.diverge_at_qf"),
            b'.' => ctx.stats.bump("shape.diverge_at_dot"),
            _ => {}
        }
    } else {
        ctx.stats.bump("shape.iri_is_prefix_of_base");
    }
    if base == iri {
        ctx.stats.bump("shape.equal");
    }
    if !base.contains("//") {
        ctx.stats.bump("shape.base_no_authority");
    }
}

fn family_seqs() -> Vec<String> {
    let mut out = vec![String::new()];
    let mut level: Vec<Vec<&str>> = vec![vec![]];
    for _ in 0..3 {
        let mut next = vec![];
        for s in &level {
            for a in FAMILY {
                let mut t = s.clone();
                t.push(a);
                out.push(t.join("/"));
                next.push(t);
            }
        }
        level = next;
    }
    // NB: joining [""] gives "" as does []; duplicates are harmless but dropped
    out.sort();
    out.dedup();
    out
}

pub fn generate(ctx: &mut GenCtx) {
    // fixed corpus: the shapes the shipped test matrix lacks
    let corpus: &[(&str, &str)] = &[
        ("http://a/b/c", "http://a/b/x:y"),
        ("http://a/b/d", "http://a/b//c"),
        ("http://a/b", "http://a/bc"),
        ("http://a", "http://ab"),
        ("http://a", "http://a/b"),
        ("http://a?q", "http://ab"),
        ("http://a/b?q", "http://a/b?qr"),
        ("http://a/b/", "http://a/b/c"),
        ("http://a/b/c", "http://a/b/../x"),
        ("http://a/b/c", "http://a/b/./x"),
        ("http://é?q", "http://é/x"),
        ("http://a/é", "http://a/ê"),
        ("http://a/b?é", "http://a/b?ê"),
        ("http://a/b/../c/d", "http://a/b/../c/x"),
        ("x-ample:ab/c/d", "x-ample:x"),
        ("x:", "x:a"),
        ("x:", "x://a"),
        ("x:a", "x:a:b"),
        ("x:/a/b", "x://c"),
        ("http://a/b/c/d?q#f", "http://a/b/c/d?q#f"),
        ("http://a/b/c/d?q#f", "http://a/b/c/d"),
        ("http://a/b/c/d?q#f", "http://a/b/c/d#g"),
        ("http://a/b/c/d", "http://a/b/c/d?q/r#f/g"),
        ("http://a/b/c/d", "http://a/b/c/"),
        ("http://a/b/c/d", "http://a/b/"),
        ("http://a/b/c/d", "http://a/"),
        ("http://a/b/c/d", "http://a"),
    ];
    for (b, i) in corpus {
        for n in PARENTS {
            ctx.emit(&format!("z {} {} {}", hex(b), n, hex(i)));
            ctx.stats.bump("corpus");
        }
        ctx.emit(&format!("n {} {}", hex(b), 2));
    }
    // the struct-field cases of relativize.rs' own test table, at all parent limits
    for b in [
        "http://a/b/c/d?e#f?g", "http://a/b/c/d#f?g", "http://a/b/c/", "http://a/b", "http://a/", "http://a/?e#f", "http://a",
        "x-ample:ab/c/d?e#f?g", "x-ample:ab/c/", "x-ample:ab", "x-ample:", "x-ample:?e#f", "http://é/ê/é?é#é", "x:/", "x://",
        "x:///", "http://a//b//", "x:a//b/",
    ] {
        for n in PARENTS {
            ctx.emit(&format!("n {} {}", hex(b), n));
            ctx.stats.bump("new.corpus");
        }
    }

    // grammar-based pairs biased to shared prefixes
    let npairs = if ctx.thorough { 60000 } else { 5000 };
    let mut made = 0;
    let mut tries = 0;
    while made < npairs && tries < npairs * 20 {
        tries += 1;
        let b = gen_base(ctx);
        let bs = b.render();
        let (is, shape) = derive(ctx, &b);
        if !valid_pair(&bs, &is) {
            ctx.stats.bump("gen.rejected_invalid");
            continue;
        }
        made += 1;
        ctx.stats.bump(&format!("pair.{}", shape));
        shape_stats(ctx, &bs, &is);
        if made <= 4 {
            ctx.stats.sample(format!("z {:?} {:?}", bs, is));
        }
        let n1 = *ctx.rng.pick(&PARENTS[..]);
        let mut n2 = *ctx.rng.pick(&PARENTS[..]);
        if n2 == n1 {
            n2 = PARENTS[(PARENTS.iter().position(|x| *x == n1).unwrap() + 1) % PARENTS.len()];
        }
        ctx.emit(&format!("z {} {} {}", hex(&bs), n1, hex(&is)));
        ctx.emit(&format!("z {} {} {}", hex(&bs), n2, hex(&is)));
        if made % 3 == 0 {
            ctx.emit(&format!("n {} {}", hex(&bs), n1));
            ctx.stats.bump("new.random");
        }
    }

    // closed family of DESIGN 4.17: up to 3 segments from FAMILY on both sides under a common prefix
    let seqs = family_seqs();
    let prefixes = ["http://a/", "x:/", "x:r/", "http://a/p/q/", "http://é/"];
    if ctx.thorough {
        let mut k = 0usize;
        for sb in &seqs {
            for si in &seqs {
                let b = format!("http://a/{}", sb);
                let i = format!("http://a/{}", si);
                let n = PARENTS[k % PARENTS.len()];
                k += 1;
                ctx.emit(&format!("z {} {} {}", hex(&b), n, hex(&i)));
                ctx.stats.bump("family.exhaustive");
            }
        }
    }
    let nfam = if ctx.thorough { 40000 } else { 5000 };
    for _ in 0..nfam {
        let pre = if ctx.thorough || ctx.rng.chance(1, 2) { *ctx.rng.pick(&prefixes[..]) } else { prefixes[0] };
        let b = format!("{}{}", pre, ctx.rng.pick(&seqs[..]));
        let i = format!("{}{}", pre, ctx.rng.pick(&seqs[..]));
        if !valid_pair(&b, &i) {
            ctx.stats.bump("family.rejected_invalid");
            continue;
        }
        let n = *ctx.rng.pick(&PARENTS[..]);
        ctx.emit(&format!("z {} {} {}", hex(&b), n, hex(&i)));
        ctx.stats.bump("family.sampled");
    }
}

fn b01(x: bool) -> &'static str {
    if x { "1" } else { "0" }
}

/// number of leading `..` segments of the path of a reference
fn count_dotdot(r: &str) -> usize {
    let path = r.split(['?', '#']).next().unwrap_or("");
    path.split('/').take_while(|s| *s == "..").count()
}

fn field<'a>(dbg: &'a str, name: &str, end: &str) -> Option<&'a str> {
    let i = dbg.rfind(name)?;
    let rest = &dbg[i + name.len()..];
    let j = rest.find(end)?;
    Some(&rest[..j])
}

pub fn exec(line: &str) -> String {
    let f: Vec<&str> = line.split_whitespace().collect();
    match f.as_slice() {
        ["n", hb, n] => {
            let (Some(bs), Ok(n)) = (unhex(hb), n.parse::<u8>()) else { return "bad-hex".into() };
            if Iri::new(bs.as_str()).is_err() {
                return "skip=1".into();
            }
            let Ok(base) = BaseIri::new(bs.as_str()) else { return "skip=1".into() };
            let r = catch(|| format!("{:?}", Relativizer::new(base.as_ref(), n)));
            match r {
                Err(_) => "new=panic".into(),
                Ok(d) => {
                    // Relativizer { base: "...", query_end: 16, path_end: 14, slashes: [12, 10], pseudoroot: 9 }
                    let qe = field(&d, "query_end: ", ",");
                    let pe = field(&d, "path_end: ", ",");
                    let sl = field(&d, "slashes: [", "]");
                    let pr = field(&d, "pseudoroot: ", " }");
                    match (qe, pe, sl, pr) {
                        (Some(qe), Some(pe), Some(sl), Some(pr)) => {
                            let sl: String = sl.chars().filter(|c| !c.is_whitespace()).collect();
                            format!("new=ok query_end={} path_end={} slashes=[{}] pseudoroot={}", qe, pe, sl, pr)
                        }
                        _ => "new=unparsed".into(),
                    }
                }
            }
        }
        ["z", hb, n, hi] => {
            let (Some(bs), Ok(n), Some(is)) = (unhex(hb), n.parse::<u8>(), unhex(hi)) else { return "bad-hex".into() };
            if Iri::new(bs.as_str()).is_err() {
                return "skip=1".into();
            }
            let (Ok(base), Ok(iri)) = (BaseIri::new(bs.as_str()), Iri::new(is.as_str())) else {
                return "skip=1".into();
            };
            let r = catch(|| Relativizer::new(base.as_ref(), n).relativize(iri).map(|r| r.to_string()));
            match r {
                Err(m) => {
                    // `IriRef::new_unchecked` is `IriRef::new(..).unwrap()` when debug assertions are on (as in `cargo test`)
                    let pk = if m.contains("InvalidIri") {
                        "invalid"
                    } else if m.contains("char boundary") {
                        "boundary"
                    } else {
                        "other"
                    };
                    format!("rel=panic pk={} nopanic=0", pk)
                }
                Ok(None) => "rel=none nopanic=1 some=0".into(),
                Ok(Some(rf)) => {
                    let res = catch(|| base.resolve(rf.as_str()).map(|i| i.to_string()));
                    let (res_s, resolves) = match &res {
                        Ok(Ok(s)) => (hex(s), s == &is),
                        Ok(Err(_)) => ("err".to_string(), false),
                        Err(_) => ("panic".to_string(), false),
                    };
                    let isref = sophia_iri::is_relative_iri_ref(&rf);
                    let parents_ok = count_dotdot(&rf) <= n as usize;
                    format!(
                        "rel={} nopanic=1 some=1 res={} resolves={} isref={} parents_ok={}",
                        hex(&rf),
                        res_s,
                        b01(resolves),
                        b01(isref),
                        b01(parents_ok)
                    )
                }
            }
        }
        _ => "bad-op".into(),
    }
}

fn main() {
    vhcore::main_loop(generate, exec);
}
