//! C17 — relativising an IRI against a base is the inverse of resolving.
//!
//! requests:
//!   n <hexbase> <parents>            fields of `Relativizer::new(base, parents)` (read off its public `Debug` output)
//!   z <hexbase> <parents> <hexiri>   `Relativizer::new(base, parents).relativize(iri)` under catch, then the real
//!                                    `BaseIri::resolve` of the returned reference
//! reply of `z`:
//!   rel=<hex|none|panic>  nopanic=0/1  some=0/1
//!   pk=<invalid|boundary|other>  kind of panic: `IriRef::new_unchecked(..)` on a string that is no IRI reference
//!                         (debug assertions are on, as in `cargo test`), or a slice inside a multi-byte character
//!   res=<hex|err|panic>   the real resolution of the real reference (differs from the model's `o.res` only where
//!                         the *resolver* (oxiri) deviates from RFC 3986, cf. C09 — not relativize's fault)
//!   resolves=0/1          real resolution gives back the IRI
//!   isref=0/1             the reference is an `irelative-ref` (no scheme)
//!   parents_ok=0/1        leading `..` segments of the reference <= parents
//!   gen_same=0/1          `Relativizer<String>`, a clone of it and `base()` agree with `Relativizer<&str>`
//!   res_same=0/1          `resolve(IriRef)` and `resolve_into` agree with `resolve(&str)`
//!   utf8=1                the inputs are Rust strings (the model evaluates its UTF-8 shape predicate on them)
use sophia_iri::relativize::Relativizer;
use sophia_iri::resolve::BaseIri;
use sophia_iri::{Iri, IriRef};
use vhcore::util::*;
use vhcore::GenCtx;

/// parent-step limits: every small value up to the deepest generated base (12 segments), and the maximum
const PARENTS: [u8; 12] = [0, 1, 2, 3, 4, 5, 6, 7, 9, 12, 254, 255];
const FAMILY: [&str; 7] = ["b", "c", "", ".", "..", "x:y", "é"];

#[derive(Clone, Debug)]
struct P {
    scheme: String,
    auth: Option<String>,
    rooted: bool,
    segs: Vec<String>,
    query: Option<String>,
    frag: Option<String>,
}

impl P {
    fn path(&self) -> String {
        let mut s = String::new();
        if self.rooted {
            s.push('/');
        }
        s.push_str(&self.segs.join("/"));
        s
    }
    fn render(&self) -> String {
        let mut s = format!("{}:", self.scheme);
        if let Some(a) = &self.auth {
            s.push_str("//");
            s.push_str(a);
        }
        s.push_str(&self.path());
        if let Some(q) = &self.query {
            s.push('?');
            s.push_str(q);
        }
        if let Some(f) = &self.frag {
            s.push('#');
            s.push_str(f);
        }
        s
    }
}

const SCHEMES: [&str; 4] = ["http", "x", "x-ample", "urn"];
// multi-byte characters of every UTF-8 width, with siblings sharing 1, 2 and 3 leading octets:
//   é C3A9 / ê C3AA;  € E282AC / ₠ E282A0 / ‰ E280B0;  𝄞 F09D849E / 𝄟 F09D849F / 𝅘 F09D8598 / 😀 F09F9880
const AUTHS: [&str; 14] = ["a", "", "é", "ab", "a.b:80", "u@h", "[::1]", "ê", "a:8", "€", "a€", "₠", "𝄞", "a𝄟"];
const SEGS: [&str; 24] = [
    "b", "c", "", ".", "..", "x:y", "é", "ê", "bc", "b;p", "d", "%2e", "e", ":", "b.", "...", "€", "₠", "‰", "𝄞", "𝄟", "𝅘", "b€", "😀",
];
const QUERIES: [&str; 12] = ["", "q", "q/r", "q?r", "é", "a/../b", "ê", "q/", "€", "₠", "𝄞", "g=/x/€"];
const FRAGS: [&str; 9] = ["", "f", "f/g?h", "é", "f#", "ê", "/", "€", "𝄟"];

/// characters that share their leading UTF-8 octet(s) with `c`
fn siblings(c: char) -> &'static [char] {
    match c {
        'é' => &['ê'],
        'ê' => &['é'],
        '€' => &['₠', '‰'],
        '₠' => &['€', '‰'],
        '‰' => &['€', '₠'],
        '𝄞' => &['𝄟', '𝅘', '😀'],
        '𝄟' => &['𝄞', '𝅘', '😀'],
        '𝅘' => &['𝄞', '😀'],
        '😀' => &['𝄞', '𝅘'],
        _ => &[],
    }
}

fn opt<'a>(ctx: &mut GenCtx, num: usize, den: usize, xs: &'a [&'a str]) -> Option<String> {
    if ctx.rng.chance(num, den) { Some(ctx.rng.pick(xs).to_string()) } else { None }
}

fn seg(ctx: &mut GenCtx) -> String {
    // small alphabet biased to plain names so that long common prefixes are frequent
    if ctx.rng.chance(1, 2) {
        ctx.rng.pick(&SEGS[..3]).to_string()
    } else {
        ctx.rng.pick(&SEGS[..]).to_string()
    }
}

fn gen_base(ctx: &mut GenCtx) -> P {
    let scheme = ctx.rng.pick(&SCHEMES[..]).to_string();
    let auth = if ctx.rng.chance(3, 5) { Some(ctx.rng.pick(&AUTHS[..]).to_string()) } else { None };
    let n = match ctx.rng.below(12) {
        0 => 0,
        1 | 2 => 1,
        3 | 4 | 5 => 2,
        6 | 7 => 3,
        8 => 4,
        9 => 6,
        10 => ctx.rng.range(7, 8),
        _ => ctx.rng.range(9, 12), // deep bases: more segments than any small parent limit
    };
    let rooted = if auth.is_some() { n > 0 || ctx.rng.chance(1, 2) } else { ctx.rng.chance(2, 3) };
    let segs: Vec<String> = (0..n).map(|_| seg(ctx)).collect();
    let query = opt(ctx, 1, 3, &QUERIES);
    let frag = opt(ctx, 1, 3, &FRAGS);
    P { scheme, auth, rooted, segs, query, frag }
}

fn cut_at_char(s: &str, k: usize) -> &str {
    let mut i = k.min(s.len());
    while !s.is_char_boundary(i) {
        i -= 1;
    }
    &s[..i]
}

/// an IRI related to `b` (the shapes of the property's quantifier), and the name of the shape
fn derive(ctx: &mut GenCtx, b: &P) -> (String, &'static str) {
    let bs = b.render();
    match ctx.rng.below(19) {
        16..=18 => {
            // a multi-byte character of the base replaced by a sibling sharing its leading octet(s): the common
            // byte prefix ends INSIDE a character; what follows is kept, dropped, or replaced
            let chars: Vec<char> = bs.chars().collect();
            let mb: Vec<usize> = (0..chars.len()).filter(|&i| !siblings(chars[i]).is_empty()).collect();
            if mb.is_empty() {
                return (gen_base(ctx).render(), "independent");
            }
            // prefer the last character of a component (path / query / authority end)
            let ends: Vec<usize> = mb
                .iter()
                .copied()
                .filter(|&i| i + 1 == chars.len() || matches!(chars[i + 1], '/' | '?' | '#'))
                .collect();
            let i = if !ends.is_empty() && ctx.rng.chance(2, 3) { *ctx.rng.pick(&ends[..]) } else { *ctx.rng.pick(&mb[..]) };
            let sib = *ctx.rng.pick(siblings(chars[i]));
            let mut o: String = chars[..i].iter().collect();
            o.push(sib);
            let rest: String = chars[i + 1..].iter().collect();
            match ctx.rng.below(6) {
                0 | 1 | 2 => o.push_str(&rest),
                3 => {}
                4 => {
                    // keep query / fragment of the base only
                    if let Some(k) = rest.find(['?', '#']) {
                        o.push_str(&rest[k..]);
                    }
                }
                _ => o.push_str(*ctx.rng.pick(&["/x", "?r", "#g", "/", "x", "/x?q"][..])),
            }
            (o, "mbsibling")
        }
        0 | 1 => {
            // same document: same path, query / fragment vary
            let mut p = b.clone();
            if ctx.rng.chance(2, 3) {
                p.query = opt(ctx, 1, 2, &QUERIES);
            }
            if ctx.rng.chance(2, 3) {
                p.frag = opt(ctx, 1, 2, &FRAGS);
            }
            (p.render(), "samedoc")
        }
        2..=7 => {
            // common directory prefix, then new segments
            let mut p = b.clone();
            let keep = ctx.rng.below(b.segs.len() + 1);
            p.segs.truncate(keep);
            for _ in 0..ctx.rng.below(4) {
                let s = seg(ctx);
                p.segs.push(s);
            }
            if p.auth.is_some() && !p.segs.is_empty() {
                p.rooted = true;
            }
            p.query = opt(ctx, 1, 3, &QUERIES);
            p.frag = opt(ctx, 1, 3, &FRAGS);
            (p.render(), "sibling")
        }
        8 | 9 => {
            // the base (with or without query / fragment) extended by a few characters
            let mut p = b.clone();
            let stem = match ctx.rng.below(3) {
                0 => bs.clone(),
                1 => {
                    p.frag = None;
                    p.render()
                }
                _ => {
                    p.frag = None;
                    p.query = None;
                    p.render()
                }
            };
            let ext = ["c", "é", ":", "/", "/c", "//c", "?q", "#f", ".", "..", "/.", "/..", "x:y", "c/d", "./c", "../c", "é/ê"];
            (format!("{}{}", stem, ctx.rng.pick(&ext[..])), "extend")
        }
        10 => {
            let k = ctx.rng.below(bs.len() + 1);
            (cut_at_char(&bs, k).to_string(), "truncate")
        }
        11 | 12 => {
            // authority or scheme with a shared prefix
            let mut p = b.clone();
            if ctx.rng.chance(3, 4) {
                p.auth = if ctx.rng.chance(4, 5) { Some(ctx.rng.pick(&AUTHS[..]).to_string()) } else { None };
                if p.auth.is_some() && !p.segs.is_empty() {
                    p.rooted = true;
                }
            } else {
                p.scheme = ctx.rng.pick(&SCHEMES[..]).to_string();
            }
            (p.render(), "authority")
        }
        13 => (gen_base(ctx).render(), "independent"),
        _ => {
            // one character of the base replaced / inserted / deleted
            let chars: Vec<char> = bs.chars().collect();
            let alpha = ['/', '?', '#', ':', '.', 'b', 'c', 'é', 'ê', 'e'];
            let i = ctx.rng.below(chars.len());
            let mut o: Vec<char> = chars.clone();
            match ctx.rng.below(3) {
                0 => o[i] = *ctx.rng.pick(&alpha[..]),
                1 => o.insert(i, *ctx.rng.pick(&alpha[..])),
                _ => {
                    o.remove(i);
                }
            }
            (o.into_iter().collect(), "edit")
        }
    }
}

/// audit class: base = authority ending in a multi-byte character, EMPTY path, (mostly) a query; IRI continuing
/// right after that authority (`iri[pseudoroot - 1..]` is then sliced inside the character)
fn gen_authmb(ctx: &mut GenCtx) -> (String, String) {
    let scheme = *ctx.rng.pick(&SCHEMES[..]);
    let auth = *ctx.rng.pick(&["é", "€", "𝄞", "a€", "ab𝄟", "ê", "u@€", "€é", "é€", "₠:80", "€b"][..]);
    let mut base = format!("{}://{}", scheme, auth);
    if ctx.rng.chance(4, 5) {
        base.push('?');
        base.push_str(*ctx.rng.pick(&QUERIES[..]));
    }
    if ctx.rng.chance(1, 4) {
        base.push('#');
        base.push_str(*ctx.rng.pick(&FRAGS[..]));
    }
    let stem = format!("{}://{}", scheme, auth);
    let mut iri = match ctx.rng.below(4) {
        0 => {
            // sibling of the last character of the authority
            let mut cs: Vec<char> = stem.chars().collect();
            let last = cs.len() - 1;
            if let Some(s) = siblings(cs[last]).first() {
                cs[last] = *s;
            }
            cs.into_iter().collect()
        }
        _ => stem,
    };
    iri.push_str(*ctx.rng.pick(&["/x", "/", "", "/x?q", "?r", "?q", "x", "/€", "//c", "/.", "/x:y", "#f", "/?q", "/#f", ":8"][..]));
    (base, iri)
}

fn valid_pair(base: &str, iri: &str) -> bool {
    BaseIri::new(base).is_ok() && Iri::new(base).is_ok() && Iri::new(iri).is_ok()
}

fn shape_stats(ctx: &mut GenCtx, base: &str, iri: &str) {
    let lcp = base.bytes().zip(iri.bytes()).take_while(|(a, b)| a == b).count();
    if !base.is_char_boundary(lcp) || !iri.is_char_boundary(lcp) {
        ctx.stats.bump("shape.lcp_inside_multibyte");
    }
    if lcp < iri.len() {
        let rest = &iri.as_bytes()[lcp..];
        match rest[0] {
            b'/' => ctx.stats.bump("shape.diverge_at_slash"),
            b'?' | b'#' => ctx.stats.bump("shape.diverge_at_qf"),
            b'.' => ctx.stats.bump("shape.diverge_at_dot"),
            _ => {}
        }
    } else {
        ctx.stats.bump("shape.iri_is_prefix_of_base");
    }
    if base == iri {
        ctx.stats.bump("shape.equal");
    }
    if !base.contains("//") {
        ctx.stats.bump("shape.base_no_authority");
    }
    // width of the character of the base that the common byte prefix ends in / at, and where that character is
    if lcp < base.len() {
        let mut st = lcp;
        while !base.is_char_boundary(st) {
            st -= 1;
        }
        let ch = base[st..].chars().next().unwrap();
        let w = ch.len_utf8();
        if w > 1 {
            ctx.stats.bump(&format!("shape.diverge_at_{}octet_char", w));
            if st < lcp {
                ctx.stats.bump(&format!("shape.lcp_inside_{}octet_char", w));
                let after = &base[st + w..];
                if after.is_empty() || after.starts_with(['?', '#']) {
                    // the character is the last one of the base's path or query
                    ctx.stats.bump("shape.lcp_inside_last_char_of_path_or_query");
                }
            }
        }
    }
    if let Ok(b) = BaseIri::new(base) {
        let segs = b.path().split('/').count();
        if segs >= 7 {
            ctx.stats.bump("shape.base_path_ge7_segments");
        }
        if b.query().is_some_and(|q| q.contains('/')) {
            ctx.stats.bump("shape.base_query_has_slash");
        }
        if b.path().is_empty() && b.query().is_some() && b.authority().is_some_and(|a| a.chars().last().is_some_and(|c| c.len_utf8() > 1)) {
            ctx.stats.bump(&format!(
                "shape.base_auth_ends_{}octet_empty_path_query",
                b.authority().unwrap().chars().last().unwrap().len_utf8()
            ));
        }
    }
}

/// which branch of the real `relativize` a case takes (evidence that the rare branches are reached)
fn outcome_stats(ctx: &mut GenCtx, base: &str, n: u8, iri: &str) {
    ctx.stats.bump(&format!("limit.{}", n));
    let (Ok(b), Ok(i)) = (BaseIri::new(base), Iri::new(iri)) else { return };
    let nslashes = b.path().matches('/').count();
    if (n as usize) < nslashes && n >= 5 {
        ctx.stats.bump("limit.ge5_and_below_depth");
    }
    let key = match catch(|| Relativizer::new(b, n).relativize(i).map(|r| r.to_string())) {
        Err(_) => "outcome.panic".to_string(),
        Ok(None) => "outcome.none".to_string(),
        Ok(Some(r)) => {
            let ups = count_dotdot(&r);
            if ups > 0 {
                format!("outcome.up{}", if ups >= 8 { "8+".to_string() } else { ups.to_string() })
            } else if r.starts_with("./") {
                "outcome.dotslash".to_string()
            } else if r.is_empty() || r.starts_with(['?', '#']) {
                "outcome.samedoc_ref".to_string()
            } else {
                "outcome.plain_tail".to_string()
            }
        }
    };
    ctx.stats.bump(&key);
}

fn family_seqs() -> Vec<String> {
    let mut out = vec![String::new()];
    let mut level: Vec<Vec<&str>> = vec![vec![]];
    for _ in 0..3 {
        let mut next = vec![];
        for s in &level {
            for a in FAMILY {
                let mut t = s.clone();
                t.push(a);
                out.push(t.join("/"));
                next.push(t);
            }
        }
        level = next;
    }
    // NB: joining [""] gives "" as does []; duplicates are harmless but dropped
    out.sort();
    out.dedup();
    out
}

pub fn generate(ctx: &mut GenCtx) {
    // fixed corpus: the shapes the shipped test matrix lacks
    let corpus: &[(&str, &str)] = &[
        ("http://a/b/c", "http://a/b/x:y"),
        ("http://a/b/d", "http://a/b//c"),
        ("http://a/b", "http://a/bc"),
        ("http://a", "http://ab"),
        ("http://a", "http://a/b"),
        ("http://a?q", "http://ab"),
        ("http://a/b?q", "http://a/b?qr"),
        ("http://a/b/", "http://a/b/c"),
        ("http://a/b/c", "http://a/b/../x"),
        ("http://a/b/c", "http://a/b/./x"),
        ("http://é?q", "http://é/x"),
        ("http://a/é", "http://a/ê"),
        ("http://a/b?é", "http://a/b?ê"),
        ("http://a/b/../c/d", "http://a/b/../c/x"),
        ("x-ample:ab/c/d", "x-ample:x"),
        ("x:", "x:a"),
        ("x:", "x://a"),
        ("x:a", "x:a:b"),
        ("x:/a/b", "x://c"),
        ("http://a/b/c/d?q#f", "http://a/b/c/d?q#f"),
        ("http://a/b/c/d?q#f", "http://a/b/c/d"),
        ("http://a/b/c/d?q#f", "http://a/b/c/d#g"),
        ("http://a/b/c/d", "http://a/b/c/d?q/r#f/g"),
        ("http://a/b/c/d", "http://a/b/c/"),
        ("http://a/b/c/d", "http://a/b/"),
        ("http://a/b/c/d", "http://a/"),
        ("http://a/b/c/d", "http://a"),
        // 3- and 4-octet characters where `iri[pseudoroot - 1..]` is cut
        ("http://€?q", "http://€/x"),
        ("http://𝄞?q", "http://𝄞/x"),
        ("http://a€?q", "http://a€"),
        // divergence inside the last character of the base's path / query (siblings sharing leading octets)
        ("http://a/b/é?q", "http://a/b/ê?q"),
        ("http://example.org/книга", "http://example.org/книги"),
        ("http://a/b/€", "http://a/b/₠"),
        ("http://a/b/𝄞#f", "http://a/b/𝄟#f"),
        ("http://a/b?€", "http://a/b?‰"),
        // '/' inside the base's query is no path-segment boundary
        ("http://a/b/c/d?g=/x", "http://a/b/c/e"),
        ("http://a/b/c/d?default-graph-uri=http://example.org/g", "http://a/b/x"),
        // witnesses of the `rel_input_needs_*` theorems not listed above
        ("http://a/b/c/d", "http://a/x"),
        ("http://a/b?q", "http://a/b"),
        // bases deeper than every small limit
        ("http://a/1/2/3/4/5/6/7/8/9", "http://a/1/x"),
        ("http://a/1/2/3/4/5/6/7/8/9", "http://a/x"),
        ("x:1/2/3/4/5/6/7/8/9/10/11/12", "x:1/y"),
    ];
    for (b, i) in corpus {
        for n in PARENTS {
            ctx.emit(&format!("z {} {} {}", hex(b), n, hex(i)));
            ctx.stats.bump("corpus");
        }
        ctx.emit(&format!("n {} {}", hex(b), 2));
    }
    // the struct-field cases of relativize.rs' own test table, at all parent limits
    for b in [
        "http://a/b/c/d?e#f?g", "http://a/b/c/d#f?g", "http://a/b/c/", "http://a/b", "http://a/", "http://a/?e#f", "http://a",
        "x-ample:ab/c/d?e#f?g", "x-ample:ab/c/", "x-ample:ab", "x-ample:", "x-ample:?e#f", "http://é/ê/é?é#é", "x:/", "x://",
        "x:///", "http://a//b//", "x:a//b/",
    ] {
        for n in PARENTS {
            ctx.emit(&format!("n {} {}", hex(b), n));
            ctx.stats.bump("new.corpus");
        }
    }

    // grammar-based pairs biased to shared prefixes
    let npairs = if ctx.thorough { 60000 } else { 5000 };
    let mut made = 0;
    let mut tries = 0;
    while made < npairs && tries < npairs * 20 {
        tries += 1;
        let (bs, is, shape) = if ctx.rng.chance(1, 14) {
            let (bs, is) = gen_authmb(ctx);
            (bs, is, "authmb")
        } else {
            let b = gen_base(ctx);
            let (is, shape) = derive(ctx, &b);
            (b.render(), is, shape)
        };
        if !valid_pair(&bs, &is) {
            ctx.stats.bump("gen.rejected_invalid");
            continue;
        }
        made += 1;
        ctx.stats.bump(&format!("pair.{}", shape));
        shape_stats(ctx, &bs, &is);
        if made <= 4 {
            ctx.stats.sample(format!("z {:?} {:?}", bs, is));
        }
        let n1 = *ctx.rng.pick(&PARENTS[..]);
        let mut n2 = *ctx.rng.pick(&PARENTS[..]);
        if n2 == n1 {
            n2 = PARENTS[(PARENTS.iter().position(|x| *x == n1).unwrap() + 1) % PARENTS.len()];
        }
        ctx.emit(&format!("z {} {} {}", hex(&bs), n1, hex(&is)));
        ctx.emit(&format!("z {} {} {}", hex(&bs), n2, hex(&is)));
        outcome_stats(ctx, &bs, n1, &is);
        outcome_stats(ctx, &bs, n2, &is);
        if made % 3 == 0 {
            ctx.emit(&format!("n {} {}", hex(&bs), n1));
            ctx.stats.bump("new.random");
        }
    }

    // closed family of DESIGN 4.17: up to 3 segments from FAMILY on both sides under a common prefix
    let seqs = family_seqs();
    let prefixes = ["http://a/", "x:/", "x:r/", "http://a/p/q/", "http://é/", "http://€/𝄞/"];
    if ctx.thorough {
        let mut k = 0usize;
        for sb in &seqs {
            for si in &seqs {
                let b = format!("http://a/{}", sb);
                let i = format!("http://a/{}", si);
                let n = PARENTS[k % PARENTS.len()];
                k += 1;
                ctx.emit(&format!("z {} {} {}", hex(&b), n, hex(&i)));
                ctx.stats.bump("family.exhaustive");
            }
        }
    }
    let nfam = if ctx.thorough { 40000 } else { 5000 };
    for _ in 0..nfam {
        let pre = if ctx.thorough || ctx.rng.chance(1, 2) { *ctx.rng.pick(&prefixes[..]) } else { prefixes[0] };
        let b = format!("{}{}", pre, ctx.rng.pick(&seqs[..]));
        let i = format!("{}{}", pre, ctx.rng.pick(&seqs[..]));
        if !valid_pair(&b, &i) {
            ctx.stats.bump("family.rejected_invalid");
            continue;
        }
        let n = *ctx.rng.pick(&PARENTS[..]);
        ctx.emit(&format!("z {} {} {}", hex(&b), n, hex(&i)));
        ctx.stats.bump("family.sampled");
    }
}

fn b01(x: bool) -> &'static str {
    if x { "1" } else { "0" }
}

/// number of leading `..` segments of the path of a reference
fn count_dotdot(r: &str) -> usize {
    let path = r.split(['?', '#']).next().unwrap_or("");
    path.split('/').take_while(|s| *s == "..").count()
}

/// The shape of a panic message: digits dropped, cut at the first quotation mark (where the payload that depends
/// on the input starts).
fn skeleton(m: &str) -> String {
    let cut = m.find(['"', '\'']).unwrap_or(m.len());
    m[..cut].chars().filter(|c| !c.is_ascii_digit()).collect()
}

/// The two panics `relativize` is known to raise, PROVOKED here through the same library code rather than
/// recognised by wording: (1) `IriRef::new_unchecked` on a string that is no IRI reference (debug assertions),
/// (2) a `str` slice inside a multi-byte character. Renaming sophia's error type or a change of std's message
/// changes probe and observed panic alike.
fn panic_probes() -> &'static (Option<String>, Option<String>) {
    static P: std::sync::OnceLock<(Option<String>, Option<String>)> = std::sync::OnceLock::new();
    P.get_or_init(|| {
        let invalid = catch(|| IriRef::new_unchecked(String::from(":b")).to_string()).err().map(|m| skeleton(&m));
        let s = String::from("aé/x");
        let k = std::hint::black_box(2usize);
        let boundary = catch(move || s[k..].to_string()).err().map(|m| skeleton(&m));
        (invalid, boundary)
    })
}

fn panic_kind(m: &str) -> &'static str {
    let (invalid, boundary) = panic_probes();
    let sk = skeleton(m);
    if invalid.as_deref() == Some(sk.as_str()) {
        "invalid"
    } else if boundary.as_deref() == Some(sk.as_str()) {
        "boundary"
    } else {
        "other"
    }
}

/// `relativize` through the other instantiations / accessors of the same type: `Relativizer<String>` (owned base),
/// a clone, and `base()`; 1 = all agree with the `&str` instantiation
fn generic_same(bs: &str, n: u8, is: &str, first: &Result<Option<String>, String>) -> bool {
    let norm = |r: &Result<Option<String>, String>| match r {
        Ok(x) => Ok(x.clone()),
        Err(m) => Err(panic_kind(m)),
    };
    let Ok(owned) = BaseIri::new(bs.to_string()) else { return false };
    let Ok(iri) = Iri::new(is) else { return false };
    let rel = Relativizer::new(owned, n);
    let base_ok = catch(std::panic::AssertUnwindSafe(|| rel.base().as_str() == bs)).unwrap_or(false);
    let r2 = catch(std::panic::AssertUnwindSafe(|| rel.relativize(iri).map(|r| r.to_string())));
    let rel3 = rel.clone();
    let r3 = catch(std::panic::AssertUnwindSafe(|| rel3.relativize(iri).map(|r| r.to_string())));
    base_ok && norm(&r2) == norm(first) && norm(&r3) == norm(first)
}

/// the positional reading of `Relativizer`'s derived `Debug` output (field names ignored): after the base string,
/// two numbers, a list, one number
fn positional(dbg: &str) -> Option<(String, String, String, String)> {
    let tail = &dbg[dbg.rfind('"')? + 1..];
    let (pre, rest) = tail.split_once('[')?;
    let (list, post) = rest.split_once(']')?;
    let nums = |s: &str| -> Vec<String> {
        s.split(|c: char| !c.is_ascii_digit()).filter(|t| !t.is_empty()).map(|t| t.to_string()).collect()
    };
    let (a, c) = (nums(pre), nums(post));
    if a.len() != 2 || c.len() != 1 {
        return None;
    }
    Some((a[0].clone(), a[1].clone(), nums(list).join(","), c[0].clone()))
}

fn field<'a>(dbg: &'a str, name: &str, end: &str) -> Option<&'a str> {
    let i = dbg.rfind(name)?;
    let rest = &dbg[i + name.len()..];
    let j = rest.find(end)?;
    Some(&rest[..j])
}

pub fn exec(line: &str) -> String {
    let f: Vec<&str> = line.split_whitespace().collect();
    match f.as_slice() {
        ["n", hb, n] => {
            let (Some(bs), Ok(n)) = (unhex(hb), n.parse::<u8>()) else { return "bad-hex".into() };
            if Iri::new(bs.as_str()).is_err() {
                return "skip=1".into();
            }
            let Ok(base) = BaseIri::new(bs.as_str()) else { return "skip=1".into() };
            let r = catch(|| format!("{:?}", Relativizer::new(base.as_ref(), n)));
            match r {
                Err(_) => "new=panic".into(),
                Ok(d) => {
                    // Relativizer { base: "...", query_end: 16, path_end: 14, slashes: [12, 10], pseudoroot: 9 }
                    let qe = field(&d, "query_end: ", ",");
                    let pe = field(&d, "path_end: ", ",");
                    let sl = field(&d, "slashes: [", "]");
                    let pr = field(&d, "pseudoroot: ", " }");
                    match (qe, pe, sl, pr) {
                        (Some(qe), Some(pe), Some(sl), Some(pr)) => {
                            let sl: String = sl.chars().filter(|c| !c.is_whitespace()).collect();
                            format!("new=ok query_end={} path_end={} slashes=[{}] pseudoroot={}", qe, pe, sl, pr)
                        }
                        _ => match positional(&d) {
                            // a private field was renamed: read the derived Debug output by position
                            Some((qe, pe, sl, pr)) => {
                                format!("new=ok query_end={} path_end={} slashes=[{}] pseudoroot={}", qe, pe, sl, pr)
                            }
                            // the fields can no longer be read off (hand-written Debug …): nothing to compare; the
                            // case counts as skipped (trivial), `z` requests still compare every output
                            None => "skip=2 dbg=unparsed".into(),
                        },
                    }
                }
            }
        }
        ["z", hb, n, hi] => {
            let (Some(bs), Ok(n), Some(is)) = (unhex(hb), n.parse::<u8>(), unhex(hi)) else { return "bad-hex".into() };
            if Iri::new(bs.as_str()).is_err() {
                return "skip=1".into();
            }
            let (Ok(base), Ok(iri)) = (BaseIri::new(bs.as_str()), Iri::new(is.as_str())) else {
                return "skip=1".into();
            };
            let r = catch(|| Relativizer::new(base.as_ref(), n).relativize(iri).map(|r| r.to_string()));
            let gs = b01(generic_same(&bs, n, &is, &r));
            match r {
                Err(m) => {
                    // `IriRef::new_unchecked` is `IriRef::new(..).unwrap()` when debug assertions are on (as in `cargo test`)
                    format!("rel=panic pk={} nopanic=0 gen_same={} utf8=1", panic_kind(&m), gs)
                }
                Ok(None) => format!("rel=none nopanic=1 some=0 gen_same={} utf8=1", gs),
                Ok(Some(rf)) => {
                    let res = catch(|| base.resolve(rf.as_str()).map(|i| i.to_string()));
                    let (res_s, resolves) = match &res {
                        Ok(Ok(s)) => (hex(s), s == &is),
                        Ok(Err(_)) => ("err".to_string(), false),
                        Err(_) => ("panic".to_string(), false),
                    };
                    let isref = sophia_iri::is_relative_iri_ref(&rf);
                    let parents_ok = count_dotdot(&rf) <= n as usize;
                    // the other entry points of resolve.rs must give the same answer as `resolve(&str)`:
                    // `resolve(IriRef)` (unwraps: a panic there = Err here) and `resolve_into`
                    let first: Option<String> = match &res {
                        Ok(Ok(s)) => Some(s.clone()),
                        _ => None,
                    };
                    let via_ref: Option<String> = match IriRef::new(rf.as_str()) {
                        Ok(ir) => catch(|| base.resolve(ir).to_string()).ok(),
                        Err(_) => first.clone(), // not an IRI reference (release builds only): route not applicable
                    };
                    let via_into: Option<String> = catch(|| {
                        let mut buf = String::new();
                        base.resolve_into(rf.as_str(), &mut buf).ok().map(|i| i.to_string())
                    })
                    .unwrap_or(None);
                    let res_same = via_ref == first && via_into == first;
                    // the round trip holds through `resolve(&str)` but not through another entry point of resolve.rs:
                    // the property is violated there (no FAIL where `resolves=0`: that is judged on `resolves`)
                    let mut fail = String::new();
                    if resolves && via_into.as_deref() != Some(is.as_str()) {
                        fail.push_str(&format!(" FAIL.resolve_into={}", via_into.as_deref().map(hex).unwrap_or("err".into())));
                    }
                    if resolves && via_ref.as_deref() != Some(is.as_str()) {
                        fail.push_str(&format!(" FAIL.resolve_iriref={}", via_ref.as_deref().map(hex).unwrap_or("err".into())));
                    }
                    format!(
                        "rel={} nopanic=1 some=1 res={} resolves={} isref={} parents_ok={} gen_same={} res_same={} utf8=1{}",
                        hex(&rf),
                        res_s,
                        b01(resolves),
                        b01(isref),
                        b01(parents_ok),
                        gs,
                        b01(res_same),
                        fail
                    )
                }
            }
        }
        _ => "bad-op".into(),
    }
}

fn main() {
    vhcore::main_loop(generate, exec);
}
