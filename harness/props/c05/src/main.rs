//! C05 — canonical N-Quads is a complete isomorphism invariant.
//!
//! Every `n` request is executed on the real `rdfc10::normalize* / relabel*` (reply fields `out`,
//! `map`, `err`, `dg` are compared with the Lean model of the implementation) and is then the base of
//! a metamorphic experiment derived from the request's seed:
//!   * isomorphic variants (random label bijection, quad order, container) must give the same bytes
//!     (`FAIL.label_dependent`),
//!   * the very same quads under seven enumeration orders of an order-preserving `SetDataset` (edges
//!     duplicated across graphs adjacent / interleaved / reversed / shuffled) must give the same bytes
//!     (`FAIL.order_dependent`),
//!   * one-edit variants that an independent backtracking test finds non-isomorphic must give
//!     different bytes (`FAIL.collision`); those it finds isomorphic must give the same bytes,
//!   * the id map is a bijection onto c14n0..c14n(n-1), applying it gives the returned quads, the
//!     output parses back to exactly those quads (`self_checks`).
mod common;
use common::*;
use vhcore::util::*;
use vhcore::GenCtx;

const XSD_STRING: &str = "http://www.w3.org/2001/XMLSchema#string";

fn emit(ctx: &mut GenCtx, family: &str, quads: &[Q], hash: &str, df: f32, pl: usize) {
    if quads.is_empty() {
        return;
    }
    let cont = ctx.rng.pick(CONTAINERS).to_string();
    let seed = ctx.rng.next() % 1_000_000_007;
    let r = Req { hash: hash.into(), df, pl, cont: cont.clone(), seed, quads: quads.to_vec() };
    ctx.stats.bump(&format!("family.{}", family));
    ctx.stats.bump(&format!("container.{}", cont));
    ctx.stats.bump(&format!("hash.{}", hash));
    if df != 1.0 || pl != 6 {
        ctx.stats.bump("limits.non_default");
    }
    ctx.emit(&r.render());
}

/// base structure -> several presentations (labels, order)
fn emit_variants(ctx: &mut GenCtx, family: &str, base: &[Q], k: usize) {
    for i in 0..k {
        let mut q = if i == 0 { base.to_vec() } else { relabel_random(base, &mut ctx.rng) };
        if i > 0 {
            shuffle(&mut q, &mut ctx.rng);
        }
        let hash = if ctx.rng.chance(1, 4) { "sha384" } else { "sha256" };
        emit(ctx, family, &q, hash, 1.0, 6);
    }
}

pub fn generate(ctx: &mut GenCtx) {
    let th = ctx.thorough;
    // digests at the padding boundaries of both functions
    for len in [0usize, 1, 54, 55, 56, 57, 63, 64, 65, 110, 111, 112, 113, 119, 120, 127, 128, 129, 200, 300] {
        let mut s = String::new();
        while s.len() < len {
            let c = ['a', 'Z', '0', ' ', '\n', '<'][ctx.rng.below(6)];
            s.push(c);
        }
        for h in ["sha256", "sha384"] {
            ctx.emit(&format!("h {} {}", h, hex(&s)));
            ctx.stats.bump("digest");
        }
    }
    ctx.emit(&format!("h sha256 {}", hex("é\u{10000}\u{7f}\u{80}\u{7ff}\u{800}\u{ffff}")));
    // the shipped examples' shapes and the symmetric families
    let var_n = if th { 4 } else { 2 };
    for n in 1..=(if th { 10 } else { 7 }) {
        emit_variants(ctx, "cycle", &cycle(n, P0), var_n);
        emit_variants(ctx, "chain", &chain(n + 1, P0), var_n);
    }
    if th {
        emit_variants(ctx, "cycle.big", &cycle(19, P0), 1);
        emit_variants(ctx, "cycle.big", &cycle(22, P0), 1);
    }
    for n in 2..=(if th { 5 } else { 4 }) {
        emit_variants(ctx, "clique", &clique(n, P0), var_n);
    }
    for n in 1..=6 {
        for hub_blank in [true, false] {
            emit_variants(ctx, "star", &star(n, P0, hub_blank, n % 2 == 0), 1);
        }
    }
    emit_variants(ctx, "star.double", &copies(&star(3, P0, true, true), 2), var_n);
    emit_variants(ctx, "star.double7", &copies(&star(7, P0, true, true), 2), 1);
    for (a, b) in [(1, 2), (2, 2), (2, 3), (3, 3)] {
        emit_variants(ctx, "bipartite", &bipartite(a, b, P0), var_n);
    }
    if th {
        emit_variants(ctx, "bipartite", &bipartite(3, 4, P0), 2);
    }
    for (base, k) in [(cycle(2, P0), 2), (cycle(3, P0), 2), (cycle(3, P0), 3), (chain(3, P0), 3), (clique(3, P0), 2)] {
        emit_variants(ctx, "copies", &copies(&base, k), var_n);
    }
    // cycle2plus3 (shipped), cycles of different sizes side by side
    let mut c23 = cycle(2, P0);
    c23.extend(copies(&cycle(3, P0), 2).into_iter().skip(3));
    emit_variants(ctx, "cycle2plus3", &c23, var_n);
    // blank graph names
    let mut g1 = vec![];
    for i in 0..3 {
        g1.push(quad(bn(i), iri(P0), bn((i + 1) % 3), Some(bn(3 + i))));
    }
    emit_variants(ctx, "blank_graph", &g1, var_n);
    let mut g2 = cycle(4, P0);
    g2.extend(cycle(4, P0).into_iter().map(|mut q| { q.g = Some(bn(9)); q }));
    g2.push(quad(bn(9), iri(P1), iri("x:o"), None));
    emit_variants(ctx, "blank_graph", &g2, var_n);
    // graph name that is also a node of the graph it names
    emit_variants(ctx, "blank_graph", &[quad(bn(0), iri(P0), bn(1), Some(bn(0))), quad(bn(1), iri(P0), bn(0), Some(bn(1)))], var_n);
    // the same edges in several graphs
    let mut me = cycle(3, P0);
    me.extend(cycle(3, P0).into_iter().map(|mut q| { q.g = Some(iri(G0)); q }));
    emit_variants(ctx, "multi_graph_edges", &me, var_n);
    let mut me2 = chain(3, P0);
    me2.push(quad(bn(0), iri(P0), bn(1), Some(iri(G0))));
    me2.push(quad(bn(1), iri(P0), bn(2), Some(iri("x:g1"))));
    emit_variants(ctx, "multi_graph_edges", &me2, var_n);
    // multi-edges across graphs towards indistinguishable siblings + a near-twin component that shares the
    // first-degree hashes without being automorphic; every dataset under several ENUMERATION orders in the
    // order-preserving container (the related lists of Hash N-Degree Quads are in enumeration order)
    {
        let gsets: [&[Option<&str>]; 3] = [&[Some("tag:g1"), Some("tag:g2")], &[None, Some(G0)], &[None, Some("tag:g1"), Some("tag:g2")]];
        for k in 2..=(if th { 3 } else { 2 }) {
            for (gi, gs) in gsets.iter().enumerate() {
                // 3 siblings x 2 graphs = related lists of 6 = 720 permutations per hub: one twist, few orders
                if (gi == 2 && !th) || (k == 3 && gi != 0) {
                    continue;
                }
                for twist in 0..=3 {
                    for outward in [true, false] {
                        if (!th && !outward && twist != 1) || (k == 3 && !(twist == 1 && outward)) {
                            continue;
                        }
                        let base = multi_edge_twins(k, gs, twist, outward, P0);
                        let shuffles = if k == 3 { 0 } else if th { 3 } else { 1 };
                        for (name, v) in enumeration_orders(&base, &mut ctx.rng, shuffles) {
                            if k == 3 && name != "grouped" && name != "by_graph" {
                                continue;
                            }
                            let r = Req { hash: "sha256".into(), df: 1.0, pl: 6, cont: "ord".into(), seed: ctx.rng.next() % 1_000_000_007, quads: v };
                            ctx.stats.bump("family.multi_edge_twins");
                            ctx.stats.bump(&format!("enumeration.{}", name));
                            ctx.stats.bump("container.ord");
                            ctx.emit(&r.render());
                        }
                        let rl = relabel_random(&base, &mut ctx.rng);
                        emit(ctx, "multi_edge_twins.relabelled", &rl, "sha384", 1.0, 6);
                    }
                }
            }
        }
    }
    // --- shapes the audit found missing ---------------------------------------------------------------
    // empty dataset, datasets without blank nodes, a literal as graph name (generalized RDF: `"` sorts before `.`)
    {
        let lit = |s: &str| T::Lit(s.into(), XSD_STRING.into());
        let raw: Vec<(&str, Vec<Q>)> = vec![
            ("empty", vec![]),
            ("bnode_free", vec![quad(iri("x:s"), iri(P0), iri("x:o"), None)]),
            ("bnode_free", vec![quad(iri("x:s"), iri(P0), lit("a b"), Some(iri(G0))), quad(iri("x:s"), iri(P0), lit("a b"), None),
                                quad(iri("x:s"), iri(P0), iri("x:o"), None), quad(iri("x:s2"), iri(P1), T::Lang("a".into(), "en".into()), None)]),
            ("literal_graph", vec![quad(bn(0), iri(P0), bn(1), Some(lit("g"))), quad(bn(0), iri(P0), bn(1), None),
                                   quad(bn(1), iri(P0), bn(0), Some(iri(G0)))]),
        ];
        for (name, d) in raw {
            for cont in ["ord", "hashset", "light"] {
                for hash in ["sha256", "sha384"] {
                    let r = Req { hash: hash.into(), df: 1.0, pl: 6, cont: cont.into(), seed: ctx.rng.next() % 1_000_000_007, quads: d.clone() };
                    ctx.stats.bump(&format!("shape.{}", name));
                    ctx.emit(&r.render());
                }
            }
        }
    }
    // related lists of 3-6 pairwise distinguishable (non-automorphic) nodes: which permutation wins decides the labels
    for k in 3..=(if th { 6 } else { 4 }) {
        for (ncopies, near_twin) in [(2usize, false), (2, true), (1, false)] {
            if k >= 5 && !(ncopies == 2 && near_twin) {
                continue;
            }
            let base = hub_siblings(k, ncopies, near_twin, k % 2 == 1);
            ctx.stats.bump(&format!("shape.distinct_related_{}", k));
            emit_variants(ctx, "hub_siblings", &base, if k <= 4 { var_n + 1 } else { 2 });
        }
    }
    // unions of 2-4 small disconnected pieces sharing end shapes: first-degree hashes shared ACROSS pieces, some hash
    // lists labelled through recursion started from another list; label order permuted against the structure
    {
        let mut unions: Vec<Vec<(usize, usize)>> = vec![
            vec![(0, 1), (0, 2)], vec![(0, 1), (0, 3)], vec![(0, 2), (0, 3)], vec![(0, 1), (0, 1), (0, 2)], vec![(0, 1), (0, 2), (0, 3)],
            vec![(0, 2), (0, 2), (0, 3)], vec![(0, 1), (6, 0)], vec![(0, 2), (6, 0)], vec![(0, 1), (2, 2)], vec![(0, 1), (3, 2)],
            vec![(2, 2), (2, 3)], vec![(3, 2), (0, 2)], vec![(1, 2), (1, 3)], vec![(1, 3), (0, 3)], vec![(4, 1), (4, 2)], vec![(4, 1), (0, 1), (5, 0)],
            vec![(0, 1), (0, 2), (1, 2), (5, 0)], vec![(2, 2), (3, 2), (0, 2)], vec![(0, 3), (0, 4)], vec![(0, 1), (0, 4), (0, 2)],
        ];
        let extra = if th { 300 } else { 40 };
        for _ in 0..extra {
            let k = ctx.rng.range(2, 4);
            unions.push((0..k).map(|_| (ctx.rng.below(7), ctx.rng.range(1, 3))).collect());
        }
        for (ui, u) in unions.iter().enumerate() {
            let base = component_union(u, P1);
            let patterns: &[usize] = if ui < 20 { &[0, 1, 2, 3] } else { &[3] };
            for &pat in patterns {
                let mut v = relabel_pattern(&base, pat, &mut ctx.rng);
                if pat == 3 {
                    shuffle(&mut v, &mut ctx.rng);
                }
                ctx.stats.bump("shape.component_union");
                ctx.stats.bump(&format!("union.pieces_{}", u.len()));
                let hash = if ctx.rng.chance(1, 5) { "sha384" } else { "sha256" };
                emit(ctx, "component_union", &v, hash, 1.0, 6);
            }
        }
    }
    // blank nodes used as GRAPH NAMES related to nodes with a shared first-degree hash (position g in Hash Related)
    for k in 2..=(if th { 4 } else { 3 }) {
        for variant in 0..=4 {
            let base = blank_graph_ties(k, variant);
            ctx.stats.bump("shape.blank_graph_tie");
            emit_variants(ctx, "blank_graph_ties", &base, var_n + 1);
            // several predicates / IRIs so that the hash order of the tied nodes is not always the same
            for alt in ["x:p1", "x:p2", "http://example.com/#p"] {
                let f = |t: &T| if *t == iri(P0) { iri(alt) } else { t.clone() };
                let v: Vec<Q> = base.iter().map(|q| Q { s: q.s.clone(), p: f(&q.p), o: q.o.clone(), g: q.g.clone() }).collect();
                emit_variants(ctx, "blank_graph_ties", &v, 1);
            }
        }
    }
    // blank nodes told apart only by WHICH IRI-named graph links them to which neighbour (finding
    // C05-rdfc10-ambiguous-tie: RDFC-1.0 itself does not determine the output there)
    {
        let d = vec![quad(bn(0), iri(P1), bn(2), Some(iri(G0))), quad(bn(0), iri(P1), bn(3), Some(iri("x:g1"))),
                     quad(bn(1), iri(P1), bn(2), Some(iri("x:g1"))), quad(bn(1), iri(P1), bn(3), Some(iri(G0))),
                     quad(bn(1), iri("x:r0"), iri("x:o"), None)];
        ctx.stats.bump("shape.graph_iri_tie");
        emit_variants(ctx, "graph_iri_tie", &d, 2);
    }
    // >= 10 temporary identifiers in a component that is not vertex-transitive (b9 / b10: path lengths differ)
    for (len, variant) in [(9usize, 0usize), (9, 1), (10, 2), (8, 1)] {
        if !th && len != 9 {
            continue;
        }
        let base = if variant == 0 { smaller_path_family(len, 2, 0) } else { smaller_path_family2(len, 2, variant) };
        ctx.stats.bump("shape.temp_ids_ge_10");
        emit_variants(ctx, "two_digit_temp_ids", &base, 2);
    }
    // >= 11 canonical identifiers issued before an ambiguous pair is processed (c14n9 / c14n10 inside paths)
    for n in [12usize, 11] {
        if !th && n != 12 {
            continue;
        }
        ctx.stats.bump("shape.canonical_ids_ge_11");
        emit_variants(ctx, "two_digit_canonical_ids", &canonical_ids_then_twins(n), 2);
    }
    // self loops, a node twice in one quad
    emit_variants(ctx, "self_loop", &[quad(bn(0), iri(P0), bn(0), None), quad(bn(1), iri(P0), iri("x:o"), None)], var_n);
    emit_variants(ctx, "self_loop", &[quad(bn(0), iri(P0), bn(0), None), quad(bn(1), iri(P0), bn(1), None), quad(bn(0), iri(P1), bn(1), None)], var_n);
    emit_variants(ctx, "self_loop", &[quad(bn(0), iri(P0), bn(0), Some(bn(0))), quad(bn(1), iri(P0), bn(1), Some(bn(2)))], var_n);
    // shipped: example2, example3, tricky_order
    let ex = |s: &str| iri(&format!("http://example.com/#{}", s));
    emit_variants(ctx, "shipped", &[quad(ex("p"), ex("q"), bn(0), None), quad(ex("p"), ex("r"), bn(1), None),
        quad(bn(0), ex("s"), ex("u"), None), quad(bn(1), ex("t"), ex("u"), None)], var_n);
    emit_variants(ctx, "shipped", &[quad(ex("p"), ex("q"), bn(0), None), quad(ex("p"), ex("q"), bn(1), None),
        quad(bn(0), ex("p"), bn(2), None), quad(bn(1), ex("p"), bn(3), None), quad(bn(2), ex("r"), bn(3), None)], var_n);
    let lit = |s: &str| T::Lit(s.into(), XSD_STRING.into());
    emit_variants(ctx, "shipped", &[quad(iri("tag:a"), iri("tag:p"), bn(0), None), quad(iri("tag:a"), iri("tag:p"), iri("tag:a"), None),
        quad(iri("tag:a"), iri("tag:p"), lit("a"), None), quad(iri("tag:a"), iri("tag:p"), lit("a!"), None),
        quad(iri("tag:a9"), iri("tag:p"), lit("a!"), None)], var_n);
    // literals: everything `_cnq.rs` escapes, boundaries of UTF-8 lengths, tags, datatypes
    // (case variants of one tag never share a dataset: the in-memory containers identify them)
    let mut lits: Vec<T> = vec![T::Lang("chat".into(), "FR".into())];
    for c in (0u32..=0x20).chain([0x22, 0x5c, 0x7e, 0x7f, 0x80, 0x9f, 0xa0, 0x7ff, 0x800, 0xd7ff, 0xe000, 0xfffd, 0xfffe, 0xffff, 0x10000, 0x10ffff]) {
        let ch = char::from_u32(c).unwrap();
        lits.push(T::Lit(format!("a{}b", ch), XSD_STRING.into()));
    }
    lits.push(T::Lit("".into(), XSD_STRING.into()));
    lits.push(T::Lit("1".into(), "http://www.w3.org/2001/XMLSchema#integer".into()));
    lits.push(T::Lit("x".into(), "http://www.w3.org/1999/02/22-rdf-syntax-ns#langString".into()));
    lits.push(T::Lang("chat".into(), "fr".into()));
    lits.push(T::Lang("chat".into(), "fr-BE".into()));
    lits.push(T::Lit("\\u0041 \"q\" \\".into(), XSD_STRING.into()));
    for chunk in lits.chunks(6) {
        let mut v = vec![];
        for (i, l) in chunk.iter().enumerate() {
            v.push(quad(bn(i % 2), iri(P0), l.clone(), if i % 3 == 0 { Some(iri(G0)) } else { None }));
        }
        emit_variants(ctx, "literals", &v, 1);
    }
    // unsupported input
    let tr = T::Triple(Box::new([iri("x:s"), iri(P0), bn(1)]));
    for q in [quad(bn(0), bn(1), iri("x:o"), None), quad(tr.clone(), iri(P0), bn(0), None), quad(bn(0), iri(P0), tr.clone(), None),
              quad(bn(0), iri(P0), bn(1), Some(tr.clone())), quad(T::Var("v".into()), iri(P0), bn(0), None),
              quad(bn(0), iri(P0), T::Var("v".into()), None), quad(bn(0), T::Var("v".into()), bn(1), None),
              quad(bn(0), tr.clone(), bn(1), None)] {
        let mut v = cycle(3, P0);
        let at = ctx.rng.below(v.len() + 1);
        v.insert(at, q);
        emit_variants(ctx, "unsupported", &v, 1);
    }
    // complexity limits
    let dfs = f32_pool();
    let bases = [cycle(5, P0), clique(4, P0), copies(&star(3, P0, true, true), 2), copies(&cycle(3, P0), 2), bipartite(2, 3, P0), chain(4, P0)];
    for _ in 0..(if th { 300 } else { 40 }) {
        let b = ctx.rng.pick(&bases[..]).clone();
        let df = *ctx.rng.pick(&dfs);
        let pl = *ctx.rng.pick(&[0usize, 1, 2, 3, 4, 6, 12]);
        let q = relabel_random(&b, &mut ctx.rng);
        let hash = if ctx.rng.chance(1, 4) { "sha384" } else { "sha256" };
        emit(ctx, "limits", &q, hash, df, pl);
    }
    // thorough: every dataset with at most 4 quads over 3 blank nodes, one predicate, default graph or the
    // graph named by the first blank node (label-dependence / collision search by enumeration)
    if th {
        let mut universe = vec![];
        for s in 0..3 {
            for o in 0..3 {
                for g in [None, Some(bn(0))] {
                    universe.push(quad(bn(s), iri(P0), bn(o), g));
                }
            }
        }
        fn rec(ctx: &mut GenCtx, u: &[Q], start: usize, cur: &mut Vec<Q>, k: usize) {
            if !cur.is_empty() {
                let c = cur.clone();
                emit(ctx, &format!("exhaustive.{}", c.len()), &c, "sha256", 1.0, 6);
            }
            if cur.len() == k {
                return;
            }
            for i in start..u.len() {
                cur.push(u[i].clone());
                rec(ctx, u, i + 1, cur, k);
                cur.pop();
            }
        }
        rec(ctx, &universe, 0, &mut vec![], 4);
    }
    // random small graphs
    for _ in 0..(if th { 4000 } else { 220 }) {
        let nb = ctx.rng.range(1, 5);
        let nq = ctx.rng.range(1, 7);
        let g = random_graph(&mut ctx.rng, nb, nq);
        let q = relabel_random(&g, &mut ctx.rng);
        let hash = if ctx.rng.chance(1, 5) { "sha384" } else { "sha256" };
        emit(ctx, "random", &q, hash, 1.0, 6);
    }
}

/// one-edit variants of a dataset (same number of quads)
fn one_edit(quads: &[Q], rng: &mut Rng) -> Option<Vec<Q>> {
    if quads.is_empty() {
        return None;
    }
    let labels: Vec<String> = bnode_labels(quads).into_iter().collect();
    let mut v = quads.to_vec();
    let i = rng.below(v.len());
    match rng.below(4) {
        0 if labels.len() >= 2 => {
            // redirect one blank node occurrence
            let l = rng.pick(&labels).clone();
            if let T::Bnode(_) = v[i].o { v[i].o = T::Bnode(l) } else if let T::Bnode(_) = v[i].s { v[i].s = T::Bnode(l) } else { return None }
        }
        1 => v[i].p = if v[i].p == T::Iri(P1.into()) { T::Iri(P0.into()) } else { T::Iri(P1.into()) },
        2 => v[i].g = match &v[i].g { None => Some(T::Iri(G0.into())), Some(_) => None },
        _ => {
            // reverse one edge
            let q = &mut v[i];
            if matches!(q.o, T::Bnode(_) | T::Iri(_)) { std::mem::swap(&mut q.s, &mut q.o) } else { return None }
        }
    }
    let d = dedup(v);
    if d.len() != quads.len() || d.iter().collect::<std::collections::BTreeSet<_>>() == quads.iter().collect() {
        return None;
    }
    Some(d)
}

pub fn exec(line: &str) -> String {
    if let Some(r) = exec_digest(line) {
        return r;
    }
    let Some(req) = Req::parse(line) else { return "bad-op".into() };
    let t0 = std::time::Instant::now();
    let mut o = run_impl(&req.quads, &req.hash, req.df, req.pl, &req.cont);
    // expensive datasets (hundreds of permutations per node) get a reduced metamorphic fan-out: the
    // reply fields compared with the model do not depend on it
    let slow = t0.elapsed() > std::time::Duration::from_millis(150);
    self_checks(&req.quads, &mut o);
    let mut reply = base_reply(&req, &o);
    // metamorphic part
    let mut rng = Rng::new(req.seed);
    let mut iso_runs = 0;
    let mut noniso_runs = 0;
    let mut flips = 0;
    let mut order_runs = 0;
    if o.err.as_deref() != Some("unsupported") && o.err.as_deref() != Some("panic") {
        for k in 0..(if slow { 1 } else { 3 }) {
            let mut v = relabel_random(&req.quads, &mut rng);
            shuffle(&mut v, &mut rng);
            let cont = CONTAINERS[(rng.below(CONTAINERS.len()) + k) % CONTAINERS.len()];
            let mut o2 = run_impl(&v, &req.hash, req.df, req.pl, cont);
            self_checks(&v, &mut o2);
            iso_runs += 1;
            for f in &o2.fails {
                o.fails.push((format!("variant.{}", f.0), f.1.clone()));
            }
            match (&o.out, &o2.out) {
                (Some(a), Some(b)) => {
                    if a != b {
                        o.fails.push(("label_dependent".into(), hex(&Req { quads: v.clone(), cont: cont.into(), ..req.clone() }.render())));
                    }
                }
                (None, None) => {}
                _ => flips += 1, // toxic for one presentation only: outside the property ("whenever it succeeds")
            }
        }
        // the same quads under other enumeration orders (order-preserving container, same labels)
        if let Some(a) = &o.out {
            for (name, v) in enumeration_orders(&req.quads, &mut rng, if slow { 0 } else { 2 }) {
                if slow && name != "by_graph" && name != "mixed" {
                    continue;
                }
                let o2 = run_impl(&v, &req.hash, req.df, req.pl, "ord");
                order_runs += 1;
                match &o2.out {
                    Some(b) if a != b => o.fails.push((
                        "order_dependent".into(),
                        hex(&format!("{} {}", name, Req { quads: v.clone(), cont: "ord".into(), ..req.clone() }.render())),
                    )),
                    Some(_) => {}
                    None => flips += 1,
                }
            }
        }
        if let Some(a) = &o.out {
            for _ in 0..(if slow { 1 } else { 3 }) {
                let Some(v) = one_edit(&req.quads, &mut rng) else { continue };
                let mut budget = 200_000usize;
                let Some(iso) = brute_iso(&req.quads, &v, &mut budget) else { continue };
                let o2 = run_impl(&v, &req.hash, req.df, req.pl, &req.cont);
                let Some(b) = &o2.out else { continue };
                noniso_runs += 1;
                if !iso && a == b {
                    o.fails.push(("collision".into(), hex(&Req { quads: v.clone(), ..req.clone() }.render())));
                }
                if iso && a != b {
                    o.fails.push(("label_dependent".into(), hex(&Req { quads: v.clone(), ..req.clone() }.render())));
                }
            }
        }
    }
    reply += &format!(" meta={}/{}/{}/{}", iso_runs, order_runs, noniso_runs, flips);
    reply += &fails(&o);
    reply
}

fn main() {
    vhcore::main_loop(generate, exec)
}
