//! C19 — the local resource loader never reads outside its configured directories.
//!
//! requests (strings hex; `{B}` inside a directory, an IRI or a file content = absolute path of the
//! sandbox materialised for the request's file-system listing):
//!   g <cfg> <fs> <iri>          LocalLoader::new(cfg) then Loader::get(iri)
//!   l <cfg> <fs> <iri> <pred> [<mode> [<link>]]
//!                               loader.get_resource(iri) then a link planted in the loaded Turtle / N-Triples
//!                               data is followed by the real code; mode = one (Resource::get_resource, the
//!                               default) | any (get_any_resource) | all (get_all_resources) | items
//!                               (get_resource_items over an RDF list) | pred (pred_resource: the link is the
//!                               SUBJECT); <link> = the absolute IRI planted verbatim (N-Triples documents:
//!                               no base resolution, so dot segments reach the loader), `-` otherwise
//!   j <cfg> <fs> <iri>          loader.get_resource(iri) on a JSON-LD document whose `@context` names remote
//!                               contexts: they are fetched by the closure `get_graph` installs as document loader
//!   y <cfg> <fs> <iri>          like g, on a sandbox with symbolic links (`s:` entries).  The property excludes
//!                               symlinks: the answer is REPORTED (sym=..), never flagged, except that a read
//!                               through a link that stays inside the directory must still satisfy the oracle
//!   cfg = `-` | <ns>:<dir>(,<ns>:<dir>)*
//!   fs  = `-` | entry(,entry)*   entry = f:<relpath> | d:<relpath> | c:<relpath>:<content> | s:<relpath>:<target>
//!         f: = file with the canonical marker content (N-Triples, or JSON-LD when the name ends in .jsonld)
//!
//! Every file of a sandbox has unique content, so the bytes that come back identify the file
//! that was read.  The oracle (also computed here, independently of the model, with the OS's own
//! `canonicalize`): bytes returned ⇒ they are the content of a file located under the directory
//! of a configured pair whose namespace is a string prefix of the fragment-less IRI.
use sophia_api::MownStr;
use sophia_api::graph::Graph;
use sophia_api::term::{SimpleTerm, Term};
use sophia_api::triple::Triple;
use sophia_iri::Iri;
use sophia_resource::{Loader, LoaderError, LocalLoader, Resource, ResourceError};
use std::cell::RefCell;
use std::collections::HashMap;
use std::io::ErrorKind;
use std::path::{Path, PathBuf};
use vhcore::GenCtx;
use vhcore::util::*;

type MyGraph = Vec<[SimpleTerm<'static>; 3]>;

const PH: &str = "{B}";
const P_LINK: &str = "urn:vh:p";

// ------------------------------------------------------------------------------------------ sandbox

struct Layout {
    base: String,
    /// content -> path relative to `base`
    by_content: HashMap<Vec<u8>, String>,
}

struct Sandboxes {
    top: Option<PathBuf>,
    layouts: HashMap<String, std::rc::Rc<Layout>>,
}

thread_local! {
    static SB: RefCell<Sandboxes> = RefCell::new(Sandboxes { top: None, layouts: HashMap::new() });
}

fn run_dir() -> PathBuf {
    // /verif/harness/props/c19 -> /verif/.cache/run/C19   (never /tmp)
    Path::new(env!("CARGO_MANIFEST_DIR")).join("../../../.cache/run/C19")
}

/// canonical content of an `f:` entry, unique per path.  `.jsonld` files are JSON-LD documents that are
/// also usable as a remote context (it maps the term `vhmark` to an IRI naming the file)
fn marker(rel: &str) -> String {
    let h = hex(rel);
    if rel.ends_with(".jsonld") {
        format!("{{\"@context\":{{\"vhmark\":\"urn:vh:ctx:{h}\"}},\"@id\":\"urn:vh:file:{h}\",\"urn:vh:is\":\"{h}\"}}\n")
    } else {
        format!("<urn:vh:file:{h}> <urn:vh:is> \"{h}\" .\n")
    }
}

fn layout_for(fs_tok: &str) -> Result<std::rc::Rc<Layout>, String> {
    SB.with(|sb| {
        let mut sb = sb.borrow_mut();
        if let Some(l) = sb.layouts.get(fs_tok) {
            return Ok(l.clone());
        }
        if sb.top.is_none() {
            let rd = run_dir();
            std::fs::create_dir_all(&rd).map_err(|e| e.to_string())?;
            let rd = rd.canonicalize().map_err(|e| e.to_string())?;
            // sandboxes left behind by killed runs (a live run removes its own on exit)
            if let Ok(entries) = std::fs::read_dir(&rd) {
                for e in entries.flatten() {
                    let stale = e.metadata().and_then(|m| m.modified()).ok().and_then(|t| t.elapsed().ok()).map(|d| d.as_secs() > 86400);
                    if e.file_name().to_string_lossy().starts_with("sbx-") && stale == Some(true) {
                        let _ = std::fs::remove_dir_all(e.path());
                    }
                }
            }
            let nanos = std::time::SystemTime::now()
                .duration_since(std::time::UNIX_EPOCH)
                .map(|d| d.subsec_nanos())
                .unwrap_or(0);
            let top = rd.join(format!("sbx-{}-{:08x}", std::process::id(), nanos));
            std::fs::create_dir(&top).map_err(|e| e.to_string())?;
            sb.top = Some(top);
        }
        let base = sb.top.as_ref().unwrap().join(format!("L{}", sb.layouts.len()));
        std::fs::create_dir(&base).map_err(|e| e.to_string())?;
        let base_s = base.to_str().unwrap().to_string();
        let mut by_content = HashMap::new();
        if fs_tok != "-" {
            for e in fs_tok.split(',') {
                let parts: Vec<&str> = e.split(':').collect();
                if let ["s", p, t] = parts.as_slice() {
                    let (rel, target) = (unhex(p).ok_or("bad-hex")?, unhex(t).ok_or("bad-hex")?);
                    let full = base.join(&rel);
                    std::fs::create_dir_all(full.parent().unwrap()).map_err(|e| e.to_string())?;
                    std::os::unix::fs::symlink(target.replace(PH, &base_s), &full).map_err(|e| e.to_string())?;
                    continue;
                }
                let (rel, content) = match parts.as_slice() {
                    ["f", p] => {
                        let rel = unhex(p).ok_or("bad-hex")?;
                        let c = marker(&rel);
                        (rel, Some(c))
                    }
                    ["d", p] => (unhex(p).ok_or("bad-hex")?, None),
                    ["c", p, c] => (unhex(p).ok_or("bad-hex")?, Some(unhex(c).ok_or("bad-hex")?.replace(PH, &base_s))),
                    _ => return Err("bad-op".to_string()),
                };
                let full = base.join(&rel);
                match content {
                    None => std::fs::create_dir_all(&full).map_err(|e| e.to_string())?,
                    Some(c) => {
                        std::fs::create_dir_all(full.parent().unwrap()).map_err(|e| e.to_string())?;
                        std::fs::write(&full, c.as_bytes()).map_err(|e| e.to_string())?;
                        if by_content.insert(c.into_bytes(), rel).is_some() {
                            return Err("duplicate-content".to_string());
                        }
                    }
                }
            }
        }
        let l = std::rc::Rc::new(Layout { base: base_s, by_content });
        sb.layouts.insert(fs_tok.to_string(), l.clone());
        Ok(l)
    })
}

fn cleanup() {
    SB.with(|sb| {
        if let Some(top) = sb.borrow_mut().top.take() {
            let _ = std::fs::remove_dir_all(top);
        }
    });
}

// ------------------------------------------------------------------------------------------ exec

fn parse_cfg(tok: &str, base: &str) -> Option<Vec<(String, String)>> {
    if tok == "-" {
        return Some(vec![]);
    }
    tok.split(',')
        .map(|e| {
            let (a, b) = e.split_once(':')?;
            Some((unhex(a)?, unhex(b)?.replace(PH, base)))
        })
        .collect()
}

/// half of the requests build their loader with `new(first pair)` + `add(..)` for the others (`Default` when
/// there is none); the decision is a hash of the request's IRI token, which the model driver computes too
fn via_add(iri: &str) -> bool {
    iri.bytes().fold(0u32, |a, b| a.wrapping_mul(31).wrapping_add(b as u32)) % 2 == 1
}

fn make_loader(cfg: &[(String, String)], iri_tok: &str) -> Result<LocalLoader, &'static str> {
    use sophia_resource::loader::LocalLoaderError as E;
    let err = |e| match e {
        E::IriMustEndWithSlash(_) => "slash",
        E::PathMustBeAbsolute(_) => "abs",
        E::PathMustBeDirectory(_) => "dir",
    };
    let mut caches: Vec<(Iri<MownStr<'static>>, PathBuf)> =
        cfg.iter().map(|(ns, d)| (Iri::new_unchecked(MownStr::from(ns.clone())), PathBuf::from(d))).collect();
    if via_add(iri_tok) {
        let rest = if caches.is_empty() { vec![] } else { caches.split_off(1) };
        let mut l = if caches.is_empty() { LocalLoader::default() } else { LocalLoader::new(caches).map_err(err)? };
        for (ns, d) in rest {
            l.add(ns, d).map_err(err)?;
        }
        Ok(l)
    } else {
        LocalLoader::new(caches).map_err(err)
    }
}

fn io_kind(k: ErrorKind) -> String {
    match k {
        ErrorKind::IsADirectory => "isdir".into(),
        ErrorKind::NotADirectory => "notdir".into(),
        ErrorKind::InvalidFilename => "toolong".into(),
        ErrorKind::InvalidInput => "nul".into(),
        ErrorKind::NotFound => "notfound".into(),
        k => format!("other:{:?}", k),
    }
}

fn loader_err(e: &LoaderError) -> (&'static str, String) {
    match e {
        LoaderError::UnsupportedIri(..) => ("unsupported", "none".into()),
        LoaderError::NotFound(_) => ("notfound", "none".into()),
        LoaderError::IoError(_, e) => ("io", io_kind(e.kind())),
        LoaderError::CantGuessSyntax(_) => ("cantguess", "none".into()),
        LoaderError::ParseError(..) => ("parse", "none".into()),
    }
}

/// the oracle: is the file at `rel` (relative to the sandbox base) under the directory of a pair whose
/// namespace prefixes the fragment-less IRI?  Directories are canonicalised by the OS.
fn confined(cfg: &[(String, String)], lay: &Layout, iri: &str, rel: &str) -> bool {
    let iri = iri.split('#').next().unwrap();
    let file = Path::new(&lay.base).join(rel);
    cfg.iter().any(|(ns, dir)| {
        iri.starts_with(ns.as_str())
            && std::fs::canonicalize(dir).map(|d| file.starts_with(&d) && file != d).unwrap_or(false)
    })
}

struct Got {
    res: &'static str,
    io: String,
    read: String,
    ct: String,
    escaped: bool,
    fail: Option<String>,
}

fn classify(cfg: &[(String, String)], lay: &Layout, iri: &str, data: Option<&[u8]>) -> (String, bool, Option<String>) {
    match data {
        None => ("none".into(), false, None),
        Some(d) => match lay.by_content.get(d) {
            None => ("outside".into(), true, Some(hex("<not a sandbox file>"))),
            Some(rel) => {
                let ok = confined(cfg, lay, iri, rel);
                (hex(rel), !ok, if ok { None } else { Some(hex(rel)) })
            }
        },
    }
}

fn do_get(loader: &LocalLoader, cfg: &[(String, String)], lay: &Layout, iri: &str) -> Got {
    // `Iri::new_unchecked` validates in debug builds (and so do the ones inside `get` on its error paths):
    // an invalid IRI (backslash, space, ...) is passed through the unchecked const constructor, and a
    // debug-assertion panic on it is reported as such, not as a loader result
    let r = if Iri::new(iri).is_ok() {
        loader.get(Iri::new_unchecked(iri))
    } else {
        let leaked: &'static str = Box::leak(iri.to_string().into_boxed_str());
        match catch(std::panic::AssertUnwindSafe(|| loader.get(Iri::new_unchecked_const(leaked)))) {
            Ok(r) => r,
            Err(_) => return Got { res: "dbgpanic", io: "none".into(), read: "none".into(), ct: "none".into(), escaped: false, fail: None },
        }
    };
    match r {
        Ok((data, ct)) => {
            let (read, escaped, fail) = classify(cfg, lay, iri, Some(&data));
            Got { res: "ok", io: "none".into(), read, ct: hex(&ct), escaped, fail }
        }
        Err(e) => {
            let (res, io) = loader_err(&e);
            Got { res, io, read: "none".into(), ct: "none".into(), escaped: false, fail: None }
        }
    }
}

/// which sandbox file does a loaded graph come from (marker triple)?
fn graph_origin(g: &MyGraph) -> Option<String> {
    let mut found = None;
    for t in g.triples() {
        let t = t.ok()?;
        if let Some(p) = t.p().iri() {
            if p.as_str() == "urn:vh:is" {
                if let Some(lex) = t.o().lexical_form() {
                    if found.is_some() {
                        return Some("ambiguous".into());
                    }
                    found = Some(lex.to_string());
                }
            }
        }
    }
    found
}

/// a loader that records every `get` it is asked for (IRI, bytes returned) and delegates to the real one;
/// `get_graph` / `get_resource` are the provided methods of the trait, so the JSON-LD document loader
/// closure and `Resource::get_neighbour` run unchanged on top of it
struct Spy {
    inner: LocalLoader,
    log: std::sync::Mutex<Vec<(String, Option<Vec<u8>>)>>,
}

impl Loader for Spy {
    fn get<T: std::borrow::Borrow<str>>(&self, iri: Iri<T>) -> Result<(Vec<u8>, String), LoaderError> {
        let r = self.inner.get(iri.as_ref());
        self.log.lock().unwrap().push((iri.as_str().to_string(), r.as_ref().ok().map(|x| x.0.clone())));
        r
    }
}

type Setup = (std::rc::Rc<Layout>, Vec<(String, String)>, String);

/// sandbox + configuration + IRI of a request; Err = the reply
fn setup(c: &str, f: &str, i: &str) -> Result<Setup, String> {
    let lay = match layout_for(f) {
        Ok(l) => l,
        // a host file system that cannot hold the sandbox must not pass silently: `new` disagrees with the model
        Err(e) => return Err(if e == "bad-hex" || e == "bad-op" { e } else { format!("new=sandbox-error sandbox-error={}", hex(&e)) }),
    };
    let (Some(cfg), Some(iri)) = (parse_cfg(c, &lay.base), unhex(i)) else {
        return Err("bad-hex".into());
    };
    let iri = iri.replace(PH, &lay.base);
    Ok((lay, cfg, iri))
}

fn exec_g(c: &str, f: &str, i: &str, symlinks: Option<&str>) -> String {
    let (lay, cfg, iri) = match setup(c, f, i) {
        Ok(x) => x,
        Err(r) => return r,
    };
    let loader = match make_loader(&cfg, i) {
        Ok(l) => l,
        Err(k) => return format!("new={k}"),
    };
    let g = do_get(&loader, &cfg, &lay, &iri);
    if let Some(kind) = symlinks {
        // symbolic links are outside the property (and the model): what happens is REPORTED, not judged --
        // except for links that stay inside the directory (`in`), where the oracle, which locates the file
        // that was read with the OS's own canonicalisation, applies as usual
        let mut r = format!("new=ok sym={} symread={} symesc={}", g.res, g.read, g.escaped as u8);
        if kind == "in" {
            if let Some(p) = g.fail {
                r.push_str(&format!(" FAIL.escape={p}"));
            }
        }
        return r;
    }
    if g.res == "dbgpanic" {
        return "new=ok feat=jsonld+xml dbgpanic=1 valid=0".into();
    }
    let mut r = format!(
        "new=ok feat=jsonld+xml res={} io={} read={} ct={} escaped={} valid={}",
        g.res,
        g.io,
        g.read,
        g.ct,
        g.escaped as u8,
        Iri::new(iri.as_str()).is_ok() as u8
    );
    if let Some(p) = g.fail {
        r.push_str(&format!(" FAIL.escape={p}"));
    }
    r
}

const P_LIST: &str = "urn:vh:q";
const P_REV: &str = "urn:vh:r";

fn exec_l(c: &str, f: &str, i: &str, p: &str, mode: &str, given: &str) -> String {
    let (lay, cfg, iri) = match setup(c, f, i) {
        Ok(x) => x,
        Err(r) => return r,
    };
    let Some(pred) = unhex(p) else { return "bad-hex".into() };
    let loader = match make_loader(&cfg, i) {
        Ok(l) => l.arced(),
        Err(k) => return format!("new={k}"),
    };
    let doc: Resource<MyGraph, LocalLoader> = match loader.get_resource(Iri::new_unchecked(iri.as_str())) {
        Ok(r) => r,
        Err(e) => return format!("new=ok doc={} escaped=0 linkdiff=0", loader_err(&e).0),
    };
    let pred = Iri::new_unchecked(pred);
    let link = match doc.get_term(pred.clone()) {
        Ok(t) => match t.iri() {
            Some(i) => i.as_str().to_string(),
            None => return "new=ok doc=ok link=notiri escaped=0 linkdiff=0".into(),
        },
        // the `first / second next()` idiom of get_term / get_resource / pred_resource
        Err(ResourceError::UnexpectedMultipleValueFor { .. }) => {
            let one = match doc.get_resource(pred) {
                Err(ResourceError::UnexpectedMultipleValueFor { .. }) => "multiple",
                Ok(_) => "ok",
                Err(_) => "err",
            };
            return format!("new=ok doc=ok link=multiple one={one} escaped=0 linkdiff=0");
        }
        Err(_) => return "new=ok doc=ok link=none escaped=0 linkdiff=0".into(),
    };
    // what the same loader returns for the IRI found in the data, asked directly
    let direct = do_get(&loader, &cfg, &lay, &link);
    // the entry point of `Resource` under test; every one of them ends in `get_neighbour`
    let followed = catch(std::panic::AssertUnwindSafe(|| match mode {
        "one" => Some(doc.get_resource(pred)),
        "any" => doc.get_any_resource(pred).transpose(),
        "all" => doc.get_all_resources(pred).next(),
        "items" => doc.get_resource_items(Iri::new_unchecked(P_LIST)).next(),
        "pred" => Some(doc.pred_resource(Iri::new_unchecked(P_REV))),
        _ => None,
    }));
    let followed = match followed {
        Ok(Some(x)) => x,
        Ok(None) => return format!("new=ok doc=ok link={} res=novalue read=none escaped=0 linkdiff=0", hex(&link)),
        // debug assertion of an `Iri::new_unchecked` on an error path (see `do_get`)
        Err(_) => return format!("new=ok doc=ok link={} dbgpanic=1 escaped=0 linkdiff=0", hex(&link)),
    };
    let (res, via): (String, Option<String>) = match followed {
        Ok(n) => {
            let same = n.base().map(|b| b.as_str()) == doc.base().map(|b| b.as_str()) && std::sync::Arc::ptr_eq(n.graph(), doc.graph());
            if same {
                ("samedoc".into(), None)
            } else {
                ("ok".into(), Some(graph_origin(n.graph()).unwrap_or_else(|| "nomarker".into())))
            }
        }
        Err(ResourceError::LoaderError(e)) => {
            let k = loader_err(&e).0;
            // the file was read but could not be parsed: the direct answer tells which one
            if k == "parse" || k == "cantguess" { (k.into(), Some(direct.read.clone())) } else { (k.into(), None) }
        }
        Err(ResourceError::IriNotAbsolute(_)) => ("notabsolute".into(), None),
        Err(_) => ("othererr".into(), None),
    };
    let mut escaped = false;
    let mut fail = String::new();
    let read = match &via {
        None => "none".to_string(),
        Some(h) => {
            match unhex(h).filter(|rel| lay.by_content.values().any(|v| v == rel)) {
                Some(rel) => {
                    if !confined(&cfg, &lay, &link, &rel) {
                        escaped = true;
                        fail.push_str(&format!(" FAIL.escape={h}"));
                    }
                }
                None if h == "none" => {}
                None => {
                    escaped = true;
                    fail.push_str(&format!(" FAIL.escape={}", hex("<not a sandbox file>")));
                }
            }
            h.clone()
        }
    };
    // following a link = calling `get` with the IRI taken from the data
    let linkdiff = res != "samedoc" && res != "notabsolute" && direct.res != "dbgpanic" && read != direct.read;
    // (not demanded by the property: reported as a plain field, the model says `linkdiff=0`)
    let mut r = format!(
        "new=ok doc=ok link={} read={} escaped={} linkdiff={} dres={}",
        hex(&link),
        read,
        escaped as u8,
        linkdiff as u8,
        direct.res
    );
    // `ok` / `parse` / `cantguess` depend on the parsers: all three mean "bytes were read"
    r.push_str(&format!(" res={}", res));
    r.push_str(&format!(" fres={}", if via.is_some() { "read" } else { res.as_str() }));
    if given != "-" {
        // the IRI planted verbatim in the N-Triples document is the IRI the real code found there
        r.push_str(&format!(" linkgiven={}", (unhex(given).map(|g| g.replace(PH, &lay.base)).as_deref() == Some(link.as_str())) as u8));
    }
    r.push_str(&fail);
    r
}

/// contexts a JSON-LD document was expanded with: the marker contexts map `vhmark` to `urn:vh:ctx:<hex rel>`
fn ctx_origins(g: &MyGraph) -> Vec<String> {
    let mut out = vec![];
    for t in g.triples().flatten() {
        if let Some(p) = t.p().iri() {
            if let Some(h) = p.as_str().strip_prefix("urn:vh:ctx:") {
                if !out.iter().any(|x: &String| x == h) {
                    out.push(h.to_string());
                }
            }
        }
    }
    out.sort();
    out
}

fn exec_j(c: &str, f: &str, i: &str) -> String {
    let (lay, cfg, iri) = match setup(c, f, i) {
        Ok(x) => x,
        Err(r) => return r,
    };
    let loader = match make_loader(&cfg, i) {
        Ok(l) => l.arced(),
        Err(k) => return format!("new={k}"),
    };
    // 1. the real loader on its own: which context file ended up in the expansion?
    let plain = catch(std::panic::AssertUnwindSafe(|| loader.get_resource::<_, MyGraph>(Iri::new_unchecked(iri.as_str()))));
    let (doc, ctx) = match &plain {
        Ok(Ok(r)) => ("ok", ctx_origins(r.graph())),
        Ok(Err(e)) => (loader_err(e).0, vec![]),
        Err(_) => ("dbgpanic", vec![]),
    };
    // 2. the same through the recording wrapper: every IRI the JSON-LD processor asked `get` for
    let spy = std::sync::Arc::new(Spy { inner: (*loader).clone(), log: Default::default() });
    let spied = catch(std::panic::AssertUnwindSafe(|| spy.get_resource::<_, MyGraph>(Iri::new_unchecked(iri.as_str())).map(|r| ctx_origins(r.graph()))));
    let log = spy.log.lock().unwrap().clone();
    let mut escaped = false;
    let mut fail = String::new();
    let mut logged: Vec<String> = vec![];
    let mut asked: Vec<String> = vec![];
    for (k, (u, data)) in log.iter().enumerate() {
        if k > 0 {
            asked.push(hex(u));
        }
        let (read, esc, f) = classify(&cfg, &lay, u, data.as_deref());
        if esc {
            escaped = true;
            fail.push_str(&format!(" FAIL.escape={}", f.unwrap_or_default()));
        }
        if read != "none" {
            logged.push(read);
        }
    }
    // 3. a context file in the expansion that no `get` returned was read behind the loader's back
    let mut unlogged = false;
    for h in &ctx {
        if !logged.iter().any(|x| x == h) {
            unlogged = true;
            let under_some_dir = unhex(h).map(|rel| {
                let file = Path::new(&lay.base).join(&rel);
                lay.by_content.values().any(|v| *v == rel)
                    && cfg.iter().any(|(_, d)| std::fs::canonicalize(d).map(|d| file.starts_with(&d)).unwrap_or(false))
            });
            if under_some_dir != Some(true) {
                escaped = true;
                fail.push_str(&format!(" FAIL.escape={h}"));
            }
        }
    }
    let same = match (&plain, &spied) {
        (Ok(Ok(_)), Ok(Ok(c2))) => *c2 == ctx,
        (Ok(Err(a)), Ok(Err(b))) => loader_err(a).0 == loader_err(b).0,
        (Err(_), Err(_)) => true,
        _ => false,
    };
    format!(
        "new=ok doc={} nget={} asked={} ctx={} escaped={} unlogged={} spysame={}{}",
        doc,
        log.len(),
        if asked.is_empty() { "none".to_string() } else { asked.join("+") },
        if ctx.is_empty() { "none".to_string() } else { ctx.join("+") },
        escaped as u8,
        unlogged as u8,
        same as u8,
        fail
    )
}

pub fn exec(line: &str) -> String {
    let toks: Vec<&str> = line.split_whitespace().collect();
    match toks.as_slice() {
        ["g", c, f, i] => exec_g(c, f, i, None),
        ["y", c, f, i, k] if *k == "in" || *k == "out" => exec_g(c, f, i, Some(k)),
        ["l", c, f, i, p] => exec_l(c, f, i, p, "one", "-"),
        ["l", c, f, i, p, m] if ["one", "any", "all", "items", "pred"].contains(m) => exec_l(c, f, i, p, m, "-"),
        ["l", c, f, i, p, m, g] if ["one", "any", "all", "items", "pred"].contains(m) => exec_l(c, f, i, p, m, g),
        ["j", c, f, i] => exec_j(c, f, i),
        _ => "bad-op".into(),
    }
}

// ------------------------------------------------------------------------------------------ gen

fn fs_tok(entries: &[(char, String, Option<String>)]) -> String {
    if entries.is_empty() {
        return "-".into();
    }
    entries
        .iter()
        .map(|(k, p, c)| match c {
            Some(c) => format!("{}:{}:{}", k, hex(p), hex(c)),
            None => format!("{}:{}", k, hex(p)),
        })
        .collect::<Vec<_>>()
        .join(",")
}

fn cfg_tok(cfg: &[(String, String)]) -> String {
    if cfg.is_empty() {
        return "-".into();
    }
    cfg.iter().map(|(a, b)| format!("{}:{}", hex(a), hex(b))).collect::<Vec<_>>().join(",")
}

/// files of the sandbox (relative to its base); `root*` are served, everything else is "secret"
const FILES: &[&str] = &[
    "root1/a.ttl",
    "root1/b.nt",
    "root1/c.jsonld",
    "root1/d.rdf",
    "root1/noext",
    "root1/e.txt",
    "root1/.hidden.ttl",
    "root1/sub/e.ttl",
    "root1/sub/.ttl",
    "root1/sub/deep/f.ttl",
    "root1/sub/deep/g",
    "root1/%2e%2e/pct.ttl",
    "root1/%2E%2E/pct2.ttl",
    "root1/..%2fsecret.ttl",
    "root1/back\\slash.ttl",
    "root1/..\\secret.ttl",
    "root1/sp ace.ttl",
    "root1/\u{e9}t\u{e9}.ttl",
    "root1/q.ttl?x=1",
    "root1/.../x.ttl",
    "root1/.%2e/mixed.ttl",
    "root1/%2e%2e%2fsecret.ttl",
    "root1/%252e%252e/dbl.ttl",
    "root1/%c0%ae%c0%ae/overlong.ttl",
    "root1/\u{ff0e}\u{ff0e}/fullwidth.ttl",
    "root1/..\u{ff0f}secret.ttl",
    "root1/A.TTL",
    "root1/sub/m.jsonld",
    "root2/a.ttl",
    "root2/k.jsonld",
    "root2/only2.ttl",
    "root2/in/h.nt",
    "rootS/e.ttl",
    "rootS/s.ttl",
    "secret.ttl",
    "secret/s.ttl",
    "secret/s2",
    "secret/n.nt",
    "secret/j.jsonld",
    "secret/x.rdf",
    "secret.jsonld",
    "secret.nt",
    "root1.ttl",
    "root1x/a.ttl",
];
const DIRS: &[&str] = &["root1/emptydir", "root3"];

/// (namespace, directory) pool; the first group is valid for `LocalLoader::new`
const PAIRS_OK: &[(&str, &str)] = &[
    ("http://ex.org/ns/", "{B}/root1"),
    ("http://ex.org/ns/", "{B}/root1/"),
    ("http://ex.org/ns/sub/", "{B}/rootS"),
    ("http://ex.org/ns/sub/", "{B}/root1/sub/deep"),
    ("http://ex.org/", "{B}/root2"),
    ("http://ex.org/", "{B}/root1/sub"),
    ("http://ex.org/ns/", "{B}/root2/../root1"),
    ("http://ex.org/other/", "{B}/root2/./in/.."),
    ("http://other.example/", "{B}/root2//in"),
    ("http://ex.org/ns/x/", "{B}/root3"),
    ("urn:x:/", "{B}/root2"),
    ("http://ex.org/ns/a.ttl/", "{B}/root2"),
    ("http://ex.org/n#s/", "{B}/root2"),
    ("http://EX.org/ns/", "{B}/root2"),
];
const PAIRS_BAD: &[(&str, &str)] = &[
    ("http://ex.org/ns", "{B}/root1"),
    ("http://ex.org/ns/", "root1"),
    ("http://ex.org/ns/", ""),
    ("http://ex.org/ns/", "{B}/absent-dir"),
    ("http://ex.org/ns/", "{B}/root1/a.ttl"),
    ("http://ex.org/ns/", "{B}/root1/a.ttl/"),
    ("http://ex.org/ns#", "{B}/root1"),
];

const SEGS: &[&str] = &[
    "..", "..", "..", ".", "", "a.ttl", "a", "b", "b.nt", "c", "d", "c.jsonld", "d.rdf", "noext", "e.txt", "e", "sub", "deep",
    "e.ttl", "f.ttl", "f", "g", "%2e%2e", "%2E%2E", "%2e.", "%2f", "..%2f", "..%2fsecret.ttl", "pct.ttl",
    "secret", "secret.ttl", "s.ttl", "s", "s2", "n", "j", "x", "root1", "root2", "rootS", "in", "h",
    "only2", "zzq-absent", "...", ".ttl", ".hidden", ".hidden.ttl", "emptydir", "x.ttl", "\u{e9}t\u{e9}", "q.ttl?x=1",
    "a.ttl?x=1", "root1.ttl", "root1x", "links.ttl",
    // more ways to spell a dot segment / a separator that a decoder or normaliser could turn into one
    ".%2e", "%2e", "%2E.", ".%2E", "%2e%2e%2f", "%2E%2E%2F", "%2F", "..%2F", "%252e%252e", "%252e%252e%252f", "%c0%ae%c0%ae",
    "%c0%af", "%5c", "..%5c", "%00", "%2e%2e%00", "%20", "\u{ff0e}\u{ff0e}", "..\u{ff0f}", "\u{2024}\u{2024}", "%ef%bc%8e%ef%bc%8e",
    "secret.jsonld", "secret.nt", "j.jsonld", "m.jsonld", "k.jsonld", "c.jsonld", "m", "k", "A.TTL", "a.TTL", "mixed.ttl", "dbl.ttl",
];

/// segments that make the IRI invalid (RFC 3987): reachable only through the unchecked const constructor
const SEGS_INVALID: &[&str] = &["back\\slash.ttl", "back\\slash", "..\\", "..\\secret.ttl", "sp ace.ttl", "sp ace", "a b"];

/// children of a sandbox location (components relative to the base)
fn children(loc: &[String]) -> Vec<&'static str> {
    let mut out: Vec<&'static str> = vec![];
    for f in FILES.iter().chain(DIRS.iter()) {
        let comps: Vec<&str> = f.split('/').collect();
        if comps.len() > loc.len() && comps.iter().zip(loc.iter()).all(|(a, b)| a == b) {
            let c = comps[loc.len()];
            if !out.contains(&c) {
                out.push(c);
            }
        }
    }
    out
}

/// a remainder built by walking the sandbox from `start`: mostly existing names, dot segments in between
fn walk_rem(ctx: &mut GenCtx, start: &[String]) -> String {
    let mut loc: Vec<String> = start.to_vec();
    let mut segs: Vec<String> = vec![];
    let n = ctx.rng.range(1, 6);
    for k in 0..n {
        let ch = children(&loc);
        let r = ctx.rng.below(20);
        let seg: String = if r < 11 && !ch.is_empty() {
            let c = ctx.rng.pick(&ch).to_string();
            loc.push(c.clone());
            c
        } else if r < 15 {
            loc.pop();
            "..".to_string()
        } else if r < 16 {
            ".".to_string()
        } else if r < 17 {
            String::new()
        } else if r < 18 && ctx.rng.chance(1, 3) {
            let sg: &str = *ctx.rng.pick(SEGS_INVALID);
            sg.to_string()
        } else {
            let sg: &str = *ctx.rng.pick(&SEGS[..]);
            sg.to_string()
        };
        segs.push(seg);
        // stop on a file most of the time
        if k + 1 < n && children(&loc).is_empty() && ctx.rng.chance(3, 4) {
            break;
        }
    }
    segs.join("/")
}

fn rel_from(dir_rel: &str, target_rel: &str) -> String {
    // lexical relative path from directory `dir_rel` to `target_rel` (both normalised, relative to the base)
    let d: Vec<&str> = dir_rel.split('/').filter(|s| !s.is_empty()).collect();
    let t: Vec<&str> = target_rel.split('/').collect();
    let mut k = 0;
    while k < d.len() && k + 1 < t.len() && d[k] == t[k] {
        k += 1;
    }
    let mut out: Vec<&str> = vec![".."; d.len() - k];
    out.extend_from_slice(&t[k..]);
    out.join("/")
}

fn normalise_rel(dir: &str) -> Option<String> {
    // "{B}/root2/../root1" -> "root1"
    let r = dir.strip_prefix("{B}")?;
    let mut out: Vec<&str> = vec![];
    for c in r.split('/') {
        match c {
            "" | "." => {}
            ".." => {
                out.pop();
            }
            c => out.push(c),
        }
    }
    Some(out.join("/"))
}

fn strip_ext(s: &str) -> String {
    match s.rfind(['.', '/']) {
        Some(i) if s.as_bytes()[i] == b'.' && i > 0 && s.as_bytes()[i - 1] != b'/' => s[..i].to_string(),
        _ => s.to_string(),
    }
}

fn random_cfg(ctx: &mut GenCtx) -> Vec<(String, String)> {
    let n = match ctx.rng.below(10) {
        0 => 0,
        1..=4 => 1,
        5..=7 => 2,
        _ => ctx.rng.range(3, 5),
    };
    let mut cfg = vec![];
    for _ in 0..n {
        let upto = if ctx.rng.chance(3, 4) { 7 } else { PAIRS_OK.len() };
        let (a, b) = if ctx.rng.chance(1, 80) { *ctx.rng.pick(PAIRS_BAD) } else { *ctx.rng.pick(&PAIRS_OK[..upto]) };
        cfg.push((a.to_string(), b.to_string()));
    }
    if n == 0 {
        ctx.stats.bump("cfg.empty");
    } else if n > 1 {
        ctx.stats.bump("cfg.multi");
        if cfg.iter().any(|(a, _)| cfg.iter().any(|(b, _)| a != b && a.starts_with(b.as_str()))) {
            ctx.stats.bump("cfg.overlapping_ns");
        }
    }
    cfg
}

fn random_rem(ctx: &mut GenCtx) -> String {
    let mut s = String::new();
    if ctx.rng.chance(1, 8) {
        s.push('/');
        ctx.stats.bump("iri.leading_slash");
    }
    if ctx.rng.chance(1, 10) {
        s.push_str("{B}/");
        ctx.stats.bump("iri.abs_base");
    }
    let n = ctx.rng.range(0, 6);
    for k in 0..n {
        if k > 0 {
            s.push('/');
        }
        let sg: &str = *ctx.rng.pick(&SEGS[..]);
        s.push_str(sg);
    }
    if ctx.rng.chance(1, 10) {
        s.push('/');
    }
    s
}

fn decorate(ctx: &mut GenCtx, iri: String) -> String {
    match ctx.rng.below(12) {
        0 => {
            ctx.stats.bump("iri.fragment");
            format!("{iri}#frag")
        }
        1 => {
            ctx.stats.bump("iri.fragment");
            format!("{iri}#../../secret.ttl")
        }
        2 => {
            ctx.stats.bump("iri.fragment");
            format!("{iri}#")
        }
        3 => format!("{iri}.ttl"),
        4 => strip_ext(&iri),
        _ => iri,
    }
}

fn emit_g(ctx: &mut GenCtx, cfg: &[(String, String)], fs: &str, iri: &str, tag: &str) {
    ctx.stats.bump(tag);
    if iri.split('/').any(|s| s == "..") {
        ctx.stats.bump("iri.has_dotdot");
    }
    if iri.contains('%') {
        ctx.stats.bump("iri.pct");
    }
    if iri.contains('\\') {
        ctx.stats.bump("iri.backslash");
    }
    if iri.contains("//") && iri.matches("//").count() > 1 {
        ctx.stats.bump("iri.empty_segment");
    }
    if via_add(&hex(iri)) {
        ctx.stats.bump(if cfg.len() > 1 { "cfg.built_with_add" } else { "cfg.built_with_new_or_default" });
    }
    ctx.emit(&format!("g {} {} {}", cfg_tok(cfg), fs, hex(iri)));
}

/// attack / hit shapes aimed at one target file from one configured pair
fn shapes(ns: &str, dir: &str, target: &str) -> Vec<(&'static str, String)> {
    let Some(dir_rel) = normalise_rel(dir) else { return vec![] };
    let rel = rel_from(&dir_rel, target);
    let up = rel.matches("../").count();
    vec![
        ("plain", format!("{ns}{rel}")),
        ("noext", format!("{ns}{}", strip_ext(&rel))),
        ("frag", format!("{ns}{rel}#frag")),
        ("curdir", format!("{ns}./{rel}")),
        ("curdir2", format!("{ns}././{rel}")),
        ("curdir_n", format!("{ns}{}{rel}", "./".repeat(up))),
        ("curdir_noext", format!("{ns}./{}", strip_ext(&rel))),
        ("curdir_mid", format!("{ns}sub/./../{rel}")),
        ("dslash", format!("{ns}{}", rel.replace("../", "..//"))),
        ("pct_lower", format!("{ns}{}", rel.replace("..", "%2e%2e"))),
        ("pct_upper", format!("{ns}{}", rel.replace("..", "%2E%2E"))),
        ("pct_mixed1", format!("{ns}{}", rel.replace("..", ".%2e"))),
        ("pct_mixed2", format!("{ns}{}", rel.replace("..", "%2E."))),
        ("pct_noext", format!("{ns}{}", strip_ext(&rel).replace("..", "%2e%2e"))),
        ("pct_slash", format!("{ns}{}", rel.replace("../", "..%2f"))),
        ("pct_slash_upper", format!("{ns}{}", rel.replace("../", "..%2F"))),
        ("pct_all", format!("{ns}{}", rel.replace("../", "%2e%2e%2f"))),
        ("pct_all_slashes", format!("{ns}{}", rel.replace('/', "%2f"))),
        ("pct_double", format!("{ns}{}", rel.replace("..", "%252e%252e"))),
        ("pct_overlong", format!("{ns}{}", rel.replace("..", "%c0%ae%c0%ae"))),
        ("pct_backslash", format!("{ns}{}", rel.replace("../", "..%5c"))),
        ("pct_nul", format!("{ns}{rel}%00.ttl")),
        ("fullwidth_dot", format!("{ns}{}", rel.replace("..", "\u{ff0e}\u{ff0e}"))),
        ("fullwidth_slash", format!("{ns}{}", rel.replace("../", "..\u{ff0f}"))),
        ("fullwidth_pct", format!("{ns}{}", rel.replace("..", "%ef%bc%8e%ef%bc%8e"))),
        ("upper", format!("{ns}{}", rel.to_uppercase())),
        ("backslash", format!("{ns}{}", rel.replace('/', "\\"))),
        ("abs", format!("{ns}{{B}}/{target}")),
        ("abs_noext", format!("{ns}{{B}}/{}", strip_ext(target))),
        ("abs_slash", format!("{ns}/{{B}}/{target}")),
        ("abs_pct", format!("{ns}%2f{{B}}/{target}")),
        ("via_x", format!("{ns}x/../{rel}")),
        ("via_absent", format!("{ns}zzq-absent/../{rel}")),
        ("via_file", format!("{ns}a.ttl/../{rel}")),
        ("to_root", format!("{ns}{}{{B}}/{target}", "../".repeat(40))),
        ("via_sub", format!("{ns}sub/../{rel}")),
        ("via_sub_deep", format!("{ns}sub/deep/../../{rel}")),
        ("trail_slash", format!("{ns}{rel}/")),
        ("trail_dot", format!("{ns}{rel}/.")),
        ("query", format!("{ns}{rel}?q=1")),
    ]
}

fn directed(ctx: &mut GenCtx, cfg: &[(String, String)], fs: &str, ns: &str, dir: &str, target: &str) {
    for (tag, s) in shapes(ns, dir, target) {
        ctx.stats.bump(&format!("shape.{tag}"));
        emit_g(ctx, cfg, fs, &s, "g.directed");
    }
}

fn turtle_safe(iri: &str) -> bool {
    !iri.chars().any(|c| c <= ' ' || "<>\"|^`\\".contains(c)) && !iri.replace(PH, "").contains(['{', '}'])
}

pub fn generate(ctx: &mut GenCtx) {
    let mut plain: Vec<(char, String, Option<String>)> = FILES.iter().map(|f| ('f', f.to_string(), None)).collect();
    plain.extend(DIRS.iter().map(|d| ('d', d.to_string(), None)));
    let fs_plain = fs_tok(&plain);

    // ---- fixed corpus: the witnesses of the Lean theorems and the shapes of the quantifier
    let one = vec![("http://ex.org/ns/".to_string(), "{B}/root1".to_string())];
    let mut long255 = "L".repeat(251);
    long255.push_str(".ttl");
    let corpus: Vec<String> = vec![
        "http://ex.org/ns/a.ttl".into(),
        "http://ex.org/ns/a".into(),
        "http://ex.org/ns/b".into(),
        "http://ex.org/ns/c".into(),
        "http://ex.org/ns/d".into(),
        "http://ex.org/ns/a#x".into(),
        "http://ex.org/ns/../secret.ttl".into(),
        "http://ex.org/ns/../secret".into(),
        "http://ex.org/ns//{B}/secret.ttl".into(),
        "http://ex.org/ns/{B}/secret/s.ttl".into(),
        "http://ex.org/ns/{B}/secret/s2".into(),
        "http://ex.org/ns/%2e%2e/secret.ttl".into(),
        "http://ex.org/ns/%2e%2e/pct.ttl".into(),
        "http://ex.org/ns/%2E%2E/pct2".into(),
        "http://ex.org/ns/..%2fsecret.ttl".into(),
        "http://ex.org/ns/..\\secret.ttl".into(),
        "http://ex.org/ns/back\\slash".into(),
        "http://ex.org/ns/".into(),
        "http://ex.org/ns".into(),
        "http://ex.org/ns/sub".into(),
        "http://ex.org/ns/sub/".into(),
        "http://ex.org/ns/sub/.".into(),
        "http://ex.org/ns/sub/..".into(),
        "http://ex.org/ns/..".into(),
        "http://ex.org/ns/../".into(),
        "http://ex.org/ns/../root1/a.ttl".into(),
        "http://ex.org/ns/../root1x/a".into(),
        "http://ex.org/ns/../root1".into(),
        "http://ex.org/ns/...".into(),
        "http://ex.org/ns/.../..".into(),
        "http://ex.org/ns/.../x".into(),
        "http://ex.org/ns/a.ttl/x".into(),
        "http://ex.org/ns/a.ttl/".into(),
        "http://ex.org/ns/a.ttl/..".into(),
        "http://ex.org/ns/a.ttl/../b.nt".into(),
        "http://ex.org/ns/.hidden".into(),
        "http://ex.org/ns/e".into(),
        "http://ex.org/ns/e.txt".into(),
        "http://ex.org/ns/sp ace".into(),
        "http://ex.org/ns/\u{e9}t\u{e9}".into(),
        "http://ex.org/ns/q.ttl?x=1".into(),
        "http://ex.org/ns/q.ttl?x=1#f".into(),
        "http://ex.org/ns/emptydir".into(),
        "http://ex.org/ns/emptydir/../a".into(),
        "http://ex.org/ns/zzq-absent/../a.ttl".into(),
        "#".into(),
        "".into(),
        "#http://ex.org/ns/a.ttl".into(),
        "http://ex.org/ns/#a.ttl".into(),
        "http://ex.org/ns/sub#/../../secret.ttl".into(),
        format!("http://ex.org/ns/{}", long255),
        format!("http://ex.org/ns/{}", "L".repeat(255)),
        format!("http://ex.org/ns/{}", "L".repeat(256)),
        format!("http://ex.org/ns/{}/../a.ttl", "L".repeat(256)),
        format!("http://ex.org/ns/{}a.ttl", "./".repeat(1900)),
        format!("http://ex.org/ns/{}a", "./".repeat(1900)),
        format!("http://ex.org/ns/{}a.ttl", "./".repeat(2150)),
        format!("http://ex.org/ns/{}../secret.ttl", "sub/../".repeat(500)),
        format!("http://ex.org/ns/{}", "../".repeat(60)),
        format!("http://ex.org/ns/{}zzq-absent", "../".repeat(60)),
        format!("http://ex.org/ns/{}a", "/".repeat(50)),
    ];
    for iri in &corpus {
        emit_g(ctx, &one, &fs_plain, iri, "g.corpus");
    }
    for (a, b) in PAIRS_BAD.iter().chain(PAIRS_OK.iter()) {
        let cfg = vec![(a.to_string(), b.to_string())];
        emit_g(ctx, &cfg, &fs_plain, &format!("{a}a.ttl"), "g.cfg_single");
        emit_g(ctx, &cfg, &fs_plain, &format!("{a}../secret.ttl"), "g.cfg_single");
        let cfg2 = vec![one[0].clone(), (a.to_string(), b.to_string())];
        emit_g(ctx, &cfg2, &fs_plain, "http://ex.org/ns/a.ttl", "g.cfg_second");
    }
    emit_g(ctx, &[], &fs_plain, "http://ex.org/ns/a.ttl", "g.cfg_empty");
    emit_g(ctx, &one, "-", "http://ex.org/ns/a.ttl", "g.fs_empty");

    // ---- directed shapes: every file (served or secret) from every pair of some configurations
    let ncfg = if ctx.thorough { 25 } else { 6 };
    for _ in 0..ncfg {
        let cfg = random_cfg(ctx);
        for (ns, dir) in cfg.clone() {
            for t in FILES {
                if ctx.thorough || ctx.rng.chance(1, 3) {
                    directed(ctx, &cfg, &fs_plain, &ns, &dir, t);
                }
            }
        }
    }

    // ---- random IRIs under / near the configured namespaces
    let n = if ctx.thorough { 40000 } else { 5000 };
    let mut cfg = random_cfg(ctx);
    for i in 0..n {
        if i % 8 == 0 {
            cfg = random_cfg(ctx);
        }
        let ns: String = if cfg.is_empty() || ctx.rng.chance(1, 12) {
            ctx.stats.bump("iri.foreign_ns");
            (*ctx.rng.pick(&["http://ex.org/ns", "http://ex.org/n", "http://ex.org/nsx/", "http://elsewhere.example/", "file:///", "x:"])).to_string()
        } else {
            ctx.rng.pick(&cfg).0.clone()
        };
        let rem = if ctx.rng.chance(2, 3) {
            ctx.stats.bump("iri.walk");
            let start: Vec<String> = cfg
                .iter()
                .find(|(n, _)| *n == ns)
                .and_then(|(_, d)| normalise_rel(d))
                .map(|d| d.split('/').filter(|c| !c.is_empty()).map(String::from).collect())
                .unwrap_or_default();
            let w = walk_rem(ctx, &start);
            match ctx.rng.below(12) {
                0 => format!("/{w}"),
                1 => format!("{{B}}/{w}"),
                2 => format!("/{{B}}/{w}"),
                _ => w,
            }
        } else {
            random_rem(ctx)
        };
        let iri = format!("{ns}{rem}");
        let iri = decorate(ctx, iri);
        emit_g(ctx, &cfg, &fs_plain, &iri, "g.random");
    }

    // ---- links planted in loaded data, followed through every entry point of `Resource`
    const MODES: &[&str] = &["one", "any", "all", "items", "pred"];
    let ndocs = if ctx.thorough { 12 } else { 3 };
    for d in 0..ndocs {
        let cfg = root1_first_cfg(ctx);
        let ns0 = cfg[0].0.clone();
        let mut pairs = cfg.clone();
        pairs.dedup();
        // (a) Turtle: relative references and absolute IRIs, resolved against the document by the parser
        //     (dot segments are removed there); (b) N-Triples: absolute IRIs reach the loader verbatim
        for nt in [false, true] {
            let name = if nt { "links.nt" } else { "links.ttl" };
            let doc_iri = format!("{ns0}{name}");
            let mut links: Vec<String> = if nt {
                let mut v: Vec<String> = vec![];
                // every shape at one secret from the first pair; a sample of the rest
                for (ti, t) in ["secret.ttl", "secret/s.ttl", "secret/s2", "secret.nt", "secret/j.jsonld", "root2/a.ttl", "root1/a.ttl", "root1/sub/e.ttl"].iter().enumerate() {
                    for (pi, (ns, dir)) in pairs.iter().enumerate() {
                        for x in shapes(ns, dir, t) {
                            if (ti == d % 5 && pi == 0) || ctx.rng.chance(1, 8) {
                                v.push(x.1);
                            }
                        }
                    }
                }
                v.push("http://elsewhere.example/x".into());
                v.push("urn:x:/a.ttl".into());
                v.push(format!("{doc_iri}#other"));
                v.push(doc_iri.clone());
                v
            } else {
                vec![
                    "../secret.ttl".into(),
                    "../secret/s.ttl".into(),
                    "../secret/s".into(),
                    "sub/e.ttl".into(),
                    "a".into(),
                    "a.ttl#x".into(),
                    "".into(),
                    "#self".into(),
                    "/ns/a.ttl".into(),
                    "//ex.org/ns/../secret.ttl".into(),
                    "/{B}/secret.ttl".into(),
                    "./../secret.ttl".into(),
                    "%2e%2e/secret.ttl".into(),
                    ".%2e/secret.ttl".into(),
                    "..%2fsecret.ttl".into(),
                    format!("{ns0}../secret.ttl"),
                    format!("{ns0}../secret/s"),
                    format!("{ns0}{{B}}/secret/s.ttl"),
                    format!("{ns0}/{{B}}/secret.ttl"),
                    format!("{ns0}%2e%2e/secret.ttl"),
                    format!("{ns0}sub/../a.ttl"),
                    format!("{ns0}../root2/a.ttl"),
                    format!("{ns0}c.jsonld"),
                    format!("{ns0}e.txt"),
                    format!("{ns0}../secret/j.jsonld"),
                    format!("{ns0}../secret/x.rdf"),
                    "http://elsewhere.example/x".into(),
                    "urn:x:/a.ttl".into(),
                ]
            };
            let wanted = if nt { links.len() + 24 } else { 48 };
            let mut tries = 0;
            while links.len() < wanted && tries < 10000 {
                tries += 1;
                let ns = ctx.rng.pick(&cfg).0.clone();
                let iri = if !nt && ctx.rng.chance(1, 4) { random_rem(ctx) } else { format!("{ns}{}", random_rem(ctx)) };
                let iri = decorate(ctx, iri);
                if iri.len() < 200 {
                    links.push(iri);
                }
            }
            links.retain(|l| {
                let probe = l.replace(PH, "/x");
                turtle_safe(l) && l.len() < 400 && if nt { Iri::new(probe).is_ok() } else { sophia_iri::IriRef::new(probe).is_ok() }
            });
            links.dedup();
            // small documents (8 links each): every request parses its document again
            for (chunk_no, chunk) in links.chunks(8).enumerate() {
                let rel_doc = format!("root1/{name}");
                let mut content = if nt { format!("<urn:vh:file:{0}> <urn:vh:is> \"{0}\" .\n", hex(&rel_doc)) } else { marker(&rel_doc) };
                for (k, l) in chunk.iter().enumerate() {
                    // object of P_LINK, only member of the list under P_LIST, subject of P_REV
                    if nt {
                        content.push_str(&format!("<{doc_iri}#l{k}> <{P_LINK}> <{l}> .\n"));
                        content.push_str(&format!("<{doc_iri}#l{k}> <{P_LIST}> _:b{k} .\n"));
                        content.push_str(&format!("_:b{k} <http://www.w3.org/1999/02/22-rdf-syntax-ns#first> <{l}> .\n"));
                        content.push_str(&format!("_:b{k} <http://www.w3.org/1999/02/22-rdf-syntax-ns#rest> <http://www.w3.org/1999/02/22-rdf-syntax-ns#nil> .\n"));
                        content.push_str(&format!("<{l}> <{P_REV}> <{doc_iri}#l{k}> .\n"));
                    } else {
                        content.push_str(&format!("<#l{k}> <{P_LINK}> <{l}> ; <{P_LIST}> ( <{l}> ) .\n<{l}> <{P_REV}> <#l{k}> .\n"));
                    }
                }
                if nt {
                    // a two-valued and a value-less subject: `get_term` / `get_resource` must refuse / find nothing
                    content.push_str(&format!("<{doc_iri}#multi> <{P_LINK}> <{ns0}a.ttl> .\n<{doc_iri}#multi> <{P_LINK}> <{ns0}b.nt> .\n"));
                    content.push_str(&format!("<{doc_iri}#none> <urn:vh:other> <{ns0}a.ttl> .\n"));
                }
                let mut with_doc = plain.clone();
                with_doc.push(('c', rel_doc, Some(content)));
                let fs_doc = fs_tok(&with_doc);
                if nt {
                    for (frag, tag) in [("multi", "l.unique_multiple"), ("none", "l.unique_none")] {
                        ctx.stats.bump(tag);
                        ctx.emit(&format!("l {} {} {} {} one -", cfg_tok(&cfg), fs_doc, hex(&format!("{doc_iri}#{frag}")), hex(P_LINK)));
                    }
                }
                for (k, l) in chunk.iter().enumerate() {
                    // every link through `get_resource`, and through one of the other entry points in turn
                    for mode in ["one", MODES[1 + (k + chunk_no + d) % 4]] {
                        ctx.stats.bump(if nt { "l.link_nt" } else { "l.link_ttl" });
                        ctx.stats.bump(&format!("l.mode_{mode}"));
                        if l.split(['/', '#']).any(|sg| sg == "..") {
                            ctx.stats.bump(if nt { "l.nt_dotdot_verbatim" } else { "l.ttl_dotdot_resolved_by_parser" });
                        }
                        let given = if nt { hex(l) } else { "-".to_string() };
                        ctx.emit(&format!("l {} {} {} {} {} {}", cfg_tok(&cfg), fs_doc, hex(&format!("{doc_iri}#l{k}")), hex(P_LINK), mode, given));
                    }
                }
            }
            if d == 0 {
                ctx.stats.sample(format!("links doc {name} for {:?}: {} links", cfg, links.len()));
            }
        }
    }

    // ---- JSON-LD documents with remote contexts: `get_graph` fetches them through a closure calling `get`
    let njdocs = if ctx.thorough { 10 } else { 3 };
    for d in 0..njdocs {
        let cfg = root1_first_cfg(ctx);
        let ns0 = cfg[0].0.clone();
        let mut ctxs: Vec<String> = vec![];
        let mut pairs = cfg.clone();
        pairs.dedup();
        for (ti, t) in ["secret/j.jsonld", "secret.jsonld", "root1/c.jsonld", "root1/sub/m.jsonld", "root2/k.jsonld"].iter().enumerate() {
            for (pi, (ns, dir)) in pairs.iter().enumerate() {
                for x in shapes(ns, dir, t) {
                    if (ti == d % 2 && pi == 0) || ctx.rng.chance(1, 6) {
                        ctxs.push(x.1);
                    }
                }
            }
        }
        ctxs.extend(
            ["c.jsonld", "c", "sub/m.jsonld", "../secret/j.jsonld", "../secret.jsonld", "./../secret.jsonld", "%2e%2e/secret.jsonld", "/{B}/secret.jsonld", "file://{B}/secret.jsonld", "file://{B}/root1/c.jsonld", "{B}/secret.jsonld", "a.ttl", "zzq-absent.jsonld"]
                .iter()
                .map(|x| x.to_string()),
        );
        ctxs.retain(|l| !l.contains(['"', '\\']) && !l.chars().any(|c| c < ' '));
        ctxs.dedup();
        for (chunk_no, chunk) in ctxs.chunks(16).enumerate() {
            let mut entries = plain.clone();
            let mut reqs: Vec<String> = vec![];
            for (k, c) in chunk.iter().enumerate() {
                let rel_doc = format!("root1/jdoc{k}.jsonld");
                let h = hex(&rel_doc);
                // string / array / @import / property-scoped context
                let (form, body) = match (k + chunk_no + d) % 4 {
                    0 => ("string", format!("{{\"@context\":\"{c}\",\"@id\":\"urn:vh:doc\",\"vhmark\":\"v\",\"urn:vh:is\":\"{h}\"}}")),
                    1 => ("array", format!("{{\"@context\":[{{\"x\":\"urn:vh:x\"}},\"{c}\"],\"@id\":\"urn:vh:doc\",\"vhmark\":\"v\",\"urn:vh:is\":\"{h}\"}}")),
                    2 => ("import", format!("{{\"@context\":{{\"@version\":1.1,\"@import\":\"{c}\"}},\"@id\":\"urn:vh:doc\",\"vhmark\":\"v\",\"urn:vh:is\":\"{h}\"}}")),
                    _ => ("scoped", format!("{{\"@context\":{{\"t\":{{\"@id\":\"urn:vh:t\",\"@context\":\"{c}\"}}}},\"@id\":\"urn:vh:doc\",\"urn:vh:is\":\"{h}\",\"t\":{{\"@id\":\"urn:vh:inner\",\"vhmark\":\"v\"}}}}")),
                };
                ctx.stats.bump(&format!("j.form_{form}"));
                if c.split('/').any(|sg| sg == "..") {
                    ctx.stats.bump("j.ctx_dotdot");
                }
                entries.push(('c', rel_doc, Some(body)));
                reqs.push(hex(&format!("{ns0}jdoc{k}.jsonld")));
            }
            let fs_j = fs_tok(&entries);
            for r in reqs {
                ctx.stats.bump("j.doc");
                ctx.emit(&format!("j {} {} {}", cfg_tok(&cfg), fs_j, r));
            }
        }
        if d == 0 {
            ctx.stats.sample(format!("json-ld docs for {:?}: {} contexts", cfg, ctxs.len()));
        }
    }

    // ---- symbolic links: outside the property (assumption), exercised and reported
    let mut with_links = plain.clone();
    with_links.push(('s', "root1/lnk_out".to_string(), Some("../secret".to_string())));
    with_links.push(('s', "root1/sub/up".to_string(), Some("..".to_string())));
    with_links.push(('s', "root1/lnk_in".to_string(), Some("sub".to_string())));
    with_links.push(('s', "root1/lnk_abs_in".to_string(), Some("{B}/root1/sub/deep".to_string())));
    let fs_sym = fs_tok(&with_links);
    for (iri, kind) in [
        ("http://ex.org/ns/lnk_in/e.ttl", "in"),
        ("http://ex.org/ns/lnk_in/e", "in"),
        ("http://ex.org/ns/lnk_in/deep/f.ttl", "in"),
        ("http://ex.org/ns/lnk_abs_in/f.ttl", "in"),
        ("http://ex.org/ns/lnk_in/../a.ttl", "in"),
        ("http://ex.org/ns/lnk_out/s.ttl", "out"),
        ("http://ex.org/ns/lnk_out/s2", "out"),
        ("http://ex.org/ns/sub/up/a.ttl", "out"),
        ("http://ex.org/ns/lnk_out/n", "out"),
        ("http://ex.org/ns/lnk_out/../secret.ttl", "out"),
        ("http://ex.org/ns/sub/up/sub/up/sub/e.ttl", "out"),
    ] {
        ctx.stats.bump(if kind == "in" { "y.symlink_inside_checked" } else { "y.symlink_outside_reported" });
        ctx.emit(&format!("y {} {} {} {}", cfg_tok(&one), fs_sym, hex(iri), kind));
    }
}

/// a random configuration whose first pair maps to root1 (where the documents with links live)
fn root1_first_cfg(ctx: &mut GenCtx) -> Vec<(String, String)> {
    loop {
        let c = random_cfg(ctx);
        let all_valid = c.iter().all(|(a, b)| PAIRS_OK.iter().any(|(x, y)| x == a && y == b));
        if all_valid && c.first().map(|(_, dir)| normalise_rel(dir).as_deref() == Some("root1")).unwrap_or(false) {
            return c;
        }
    }
}

fn main() {
    vhcore::main_loop(generate, exec);
    cleanup();
}
