//! C11 — graph / dataset views stay coherent with the underlying store.
//!
//! A history is a sequence of request lines on ONE current store (`new` starts a new history);
//! every operation is applied either directly (`d …`) or through an adapter (`v …`):
//!   new <LD|FD|LG|FG> <16|32> | new <HD|BD|VD|HG|BG|VG> 0
//!   d ins|rem|has <quad>  d insall|remall <quad> | …  d qm|remm|retm <sm> <pm> <om> [<gm>]  d all  d len  d enum <which>
//!   v union       all | qm <sm> <pm> <om> | has <triple> | enum <which>          Dataset::union_graph()
//!   v punion <gm> all | qm … | has … | enum …                                    Dataset::partial_union_graph(gm)
//!   v iunion      (the same reads)                                               Dataset::into_union_graph() (of `&D`)
//!   v graph <g>   all | qm … | has … | enum … | ins <triple> | rem <triple>      Dataset::graph(g) / graph_mut(g)
//!                 | insall|remall <triple> - | <triple> - …  | remm|retm <sm> <pm> <om>
//!                                                   the DEFAULT bulk methods of MutableGraph called on graph_mut(g)
//!   v graphm <g>  all | qm … | has … | enum …                                    reads through graph_mut(g) (`&mut D`)
//!   v asds        all | qm <sm> <pm> <om> <gm> | has <quad> | enum <which> | ins <quad> | rem <quad>
//!                 | insall|remall <quad> | <quad> …
//!                                                                                Graph::as_dataset() / as_dataset_mut()
//!   v asdsm | v ids   all | qm … | has … | enum …          reads through as_dataset_mut() / into_dataset() (of `&G`)
//!   hist <line> ; <line> ; …     a whole history from scratch, reply = the last line's
//!
//! The Rust-side oracle (`FAIL.*`) recomputes what the view must show / how the store must change from
//! the underlying store's own `quads()` / `triples()` taken BEFORE the operation.
#[path = "../../c01/src/dynm.rs"]
mod dynm;
use dynm::*;
use sophia_api::dataset::adapter::GraphAsDatasetMutationError;
use sophia_api::dataset::{DTerm, Dataset, MutableDataset};
use sophia_api::graph::{GTerm, Graph, MutableGraph};
use sophia_api::quad::{Gspo, Spog};
use sophia_api::source::IntoSource;
use sophia_api::term::matcher::{GraphNameMatcher, TermMatcher};
use sophia_api::term::{CmpTerm, SimpleTerm, Term};
use sophia_inmem::dataset::{FastDataset, LightDataset};
use sophia_inmem::graph::{FastGraph, LightGraph};
use std::cell::RefCell;
use std::collections::{BTreeSet, HashSet};
use vhcore::tgen::{self, TermGen};
use vhcore::util::*;
use vhcore::GenCtx;

type CT = CmpTerm<SimpleTerm<'static>>;

enum Store {
    LD(LightDataset),
    FD(FastDataset),
    LD16(sophia_inmem::dataset::small::LightDataset),
    FD16(sophia_inmem::dataset::small::FastDataset),
    HD(HashSet<Spog<ST>>),
    BD(BTreeSet<Spog<CT>>),
    VD(Vec<Spog<ST>>),
    /// the same std collections holding quads in `(g, [s, p, o])` order (other `MutableDataset` impls;
    /// `Vec<Gspo<_>>::remove` drops only the FIRST matching element)
    HP(HashSet<Gspo<ST>>),
    BP(BTreeSet<Gspo<CT>>),
    VP(Vec<Gspo<ST>>),
    LG(LightGraph),
    FG(FastGraph),
    LG16(sophia_inmem::graph::small::LightGraph),
    FG16(sophia_inmem::graph::small::FastGraph),
    HG(HashSet<[ST; 3]>),
    BG(BTreeSet<[CT; 3]>),
    VG(Vec<[ST; 3]>),
}

thread_local! {
    static CUR: RefCell<Option<Store>> = const { RefCell::new(None) };
}

fn b(x: bool) -> &'static str {
    if x { "1" } else { "0" }
}

/// canonical text of a term/quad: tags folded to lower case (terms are compared up to `Term::eq`)
fn canon(t: &T) -> T {
    match t {
        T::Lang(l, tag) => T::Lang(l.clone(), tag.to_ascii_lowercase()),
        T::Triple(b) => T::Triple(Box::new([canon(&b[0]), canon(&b[1]), canon(&b[2])])),
        other => other.clone(),
    }
}
fn render_q(q: &Q, graph: bool) -> String {
    let s = if graph {
        format!("{} {} {}", canon(&q.s).render(), canon(&q.p).render(), canon(&q.o).render())
    } else {
        Q { s: canon(&q.s), p: canon(&q.p), o: canon(&q.o), g: q.g.as_ref().map(canon) }.render()
    };
    s.replace(' ', ",")
}
fn render_qs(mut v: Vec<String>) -> String {
    v.sort();
    if v.is_empty() { "_".into() } else { v.join(";") }
}
fn render_ts(v: Vec<T>) -> String {
    let mut v: Vec<String> = v.iter().map(|t| canon(t).render().replace(' ', ",")).collect();
    v.sort();
    v.dedup();
    if v.is_empty() { "_".into() } else { v.join(";") }
}
fn parse_quads(s: &str) -> Option<Vec<Q>> {
    s.split('|').filter(|p| !p.trim().is_empty()).map(|p| Q::parse(&mut p.split_whitespace().peekable())).collect()
}
fn parse_quad(toks: &[&str]) -> Option<Q> {
    let mut it = toks.iter().copied().peekable();
    let q = Q::parse(&mut it)?;
    if it.peek().is_some() { None } else { Some(q) }
}
fn parse_triple(toks: &[&str]) -> Option<Q> {
    let mut v = toks.to_vec();
    v.push("-");
    parse_quad(&v)
}

type SQ = ([ST; 3], Option<ST>);

fn all_quads<D: Dataset>(d: &D) -> Vec<Q> {
    d.quads().map(|q| tgen::view_quad(q.unwrap())).collect()
}
fn all_triples<G: Graph>(g: &G) -> Vec<Q> {
    g.triples().map(|t| tgen::view_triple(t.unwrap())).collect()
}

/// equality of abstract quads modulo `Term::eq`
fn qkey(q: &Q) -> String {
    render_q(q, false)
}
fn tkey(q: &Q) -> String {
    render_q(q, true)
}
fn into_triple(q: &Q) -> Q {
    Q { s: q.s.clone(), p: q.p.clone(), o: q.o.clone(), g: None }
}

fn tm_matches(m: &DM, t: &T) -> bool {
    TermMatcher::matches(&DMRef(m), &tgen::to_simple(t))
}
fn gm_matches(m: &DGM, g: &Option<T>) -> bool {
    let g: Option<ST> = g.as_ref().map(tgen::to_simple);
    GraphNameMatcher::matches(m, g.as_ref())
}

/// `n=… quads=… set=…` (+ `FAIL.quads=` when the Rust-side expectation is not met).
///
/// The property demands that the view shows EXACTLY THE TRIPLES of the corresponding quads: the same set,
/// and no triple more often than there are quads behind it (`quads=` is compared as a multiset with the model
/// only; a view that would show a triple held in two graphs once is not a violation of the property text).
fn qreply(actual: Vec<String>, expected: Vec<String>) -> String {
    let n = actual.len();
    let set = |v: &[String]| {
        let mut v = v.to_vec();
        v.sort();
        v.dedup();
        v
    };
    let (sa, se) = (set(&actual), set(&expected));
    let over = sa.iter().any(|k| actual.iter().filter(|x| *x == k).count() > expected.iter().filter(|x| *x == k).count());
    let mut r = format!("n={} quads={} set={}", n, render_qs(actual), render_qs(sa.clone()));
    if sa != se || over {
        r += &format!(" FAIL.quads=expected:{}", render_qs(expected));
    }
    r
}

/// Reply of a mutation through a view: result, underlying content afterwards, Rust-side verdicts.
///
/// What the property demands of a mutation through a view: the store changes "in that graph only" and
/// the result is "the same as the direct operation's".
/// * set stores (`vec == false`): the content afterwards is EXACTLY `exp` (`FAIL.st`) and the flag / count
///   says what changed (`FAIL.r`);
/// * vectors (multiplicities and flags "not significant"): every quad outside `touched` keeps its copies
///   (`oth=` / `FAIL.oth`), and for a single-quad mutation the copies of that quad grow / shrink (`FAIL.copies`);
/// * every store: the same operation applied DIRECTLY to a second store of the same type holding the same
///   quads gives the same result and the same content (`FAIL.twin`).
struct MutOut {
    s: String,
    res: String,
    post: Vec<String>,
}
impl MutOut {
    fn new(res: &str, mut post: Vec<String>) -> Self {
        post.sort();
        MutOut { s: format!("r={} st={}", res, render_qs(post.clone())), res: res.to_string(), post }
    }
    fn expect_r(&mut self, exp: &str) {
        if exp != self.res {
            self.s += &format!(" FAIL.r=expected:{}", exp);
        }
    }
    fn expect_st(&mut self, exp: Vec<String>) {
        let e = render_qs(exp);
        if render_qs(self.post.clone()) != e {
            self.s += &format!(" FAIL.st=expected:{}", e);
        }
    }
    /// the quads whose key is not in `touched` are as before
    fn expect_others(&mut self, pre: &[String], touched: &[String]) {
        let keep = |v: &[String]| render_qs(v.iter().filter(|k| !touched.contains(k)).cloned().collect());
        let a = keep(&self.post);
        let e = keep(pre);
        self.s += &format!(" oth={}", a);
        if a != e {
            self.s += &format!(" FAIL.oth=expected:{}", e);
        }
    }
    /// single-quad mutation of a vector: an insertion leaves at least one copy and loses none; a removal
    /// of a present quad loses at least one copy (all of them or the first: both shipped behaviours)
    fn expect_copies(&mut self, pre: &[String], k: &String, ins: bool) {
        let a = pre.iter().filter(|x| *x == k).count();
        let z = self.post.iter().filter(|x| *x == k).count();
        let ok = if ins { z >= a.max(1) } else { (a == 0 && z == 0) || z < a };
        if !ok {
            self.s += &format!(" FAIL.copies={}->{}", a, z);
        }
    }
    fn twin(&mut self, twin_res: &str, mut twin_post: Vec<String>) {
        twin_post.sort();
        if twin_res != self.res || twin_post != self.post {
            self.s += &format!(" FAIL.twin=direct:r={},st={}", twin_res, render_qs(twin_post));
        }
    }
}

/// A second store of the same type holding the same quads, built from scratch by direct insertions (not by
/// `Clone`, which is another property's business): the DIRECT operation is applied to it and must give the
/// same result and content as the operation through the view.
fn twin_dataset<D: MutableDataset + Default>(pre: &[Q]) -> D {
    let mut t = D::default();
    for q in pre {
        let ([s, p, o], g) = tgen::q_to_simple(q);
        let _ = MutableDataset::insert(&mut t, &s, &p, &o, g.as_ref());
    }
    t
}
fn twin_graph<G: MutableGraph + Default>(pre: &[Q]) -> G {
    let mut t = G::default();
    for q in pre {
        let ([s, p, o], _) = tgen::q_to_simple(q);
        let _ = MutableGraph::insert(&mut t, &s, &p, &o);
    }
    t
}

fn count_res<E>(r: &Result<usize, E>) -> String {
    match r {
        Ok(n) => n.to_string(),
        Err(_) => "full".into(),
    }
}

/// read-only operations through any `Graph` view; `spec` = the triples the view must show
fn graph_read<G: Graph>(g: &G, sub: &[&str], spec: &[Q]) -> Option<String> {
    match sub {
        ["all"] => {
            let v: Vec<String> = g.triples().map(|t| tkey(&tgen::view_triple(t.unwrap()))).collect();
            Some(qreply(v, spec.iter().map(tkey).collect()))
        }
        ["qm", rest @ ..] => {
            let mut toks = rest.iter().copied().peekable();
            let (Some(sm), Some(pm), Some(om)) = (parse_tm(&mut toks), parse_tm(&mut toks), parse_tm(&mut toks)) else {
                return Some("bad-op".into());
            };
            if toks.peek().is_some() {
                return Some("bad-op".into());
            }
            let v: Vec<String> = g
                .triples_matching(DMRef(&sm), DMRef(&pm), DMRef(&om))
                .map(|t| tkey(&tgen::view_triple(t.unwrap())))
                .collect();
            let e = spec
                .iter()
                .filter(|q| tm_matches(&sm, &q.s) && tm_matches(&pm, &q.p) && tm_matches(&om, &q.o))
                .map(tkey)
                .collect();
            Some(qreply(v, e))
        }
        ["has", rest @ ..] => {
            let Some(t) = parse_triple(rest) else { return Some("bad-op".into()) };
            let ([s, p, o], _) = tgen::q_to_simple(&t);
            let r = g.contains(&s, &p, &o).unwrap();
            let e = spec.iter().any(|x| tkey(x) == tkey(&t));
            let mut out = format!("r={}", b(r));
            if r != e {
                out += &format!(" FAIL.r=expected:{}", b(e));
            }
            Some(out)
        }
        ["enum", which] => {
            macro_rules! en {
                ($m:ident) => {
                    g.$m().map(|t| tgen::view(t.unwrap())).collect::<Vec<T>>()
                };
            }
            let v: Vec<T> = match *which {
                "subjects" => en!(subjects),
                "predicates" => en!(predicates),
                "objects" => en!(objects),
                "iris" => en!(iris),
                "bnodes" => en!(blank_nodes),
                "literals" => en!(literals),
                "vars" => en!(variables),
                // `quoted_triples` needs `for<'x> GTerm<'x, G>: Clone`, which rustc can only prove for
                // 'static view types: not exercised through borrowed views
                _ => return Some("bad-op".into()),
            };
            Some(format!("terms={}", render_ts(v)))
        }
        _ => None,
    }
}

fn flag(r: Result<bool, ()>) -> String {
    match r {
        Ok(x) => format!("r={}", b(x)),
        Err(()) => "r=full".into(),
    }
}

fn ds_exec<D, GT>(d: &mut D, wrap: fn(ST) -> GT, vec: bool, toks: &[&str]) -> String
where
    D: MutableDataset + Default + 'static,
    D::MutationError: From<D::Error>,
    for<'x> DTerm<'x, D>: Clone,
    GT: for<'x> Term<BorrowTerm<'x> = DTerm<'x, D>> + 'static,
{
    match toks {
        ["all"] | ["d", "all"] => {
            let v: Vec<String> = all_quads(d).iter().map(qkey).collect();
            format!("n={} quads={}", v.len(), render_qs(v))
        }
        ["d", "len"] => format!("n={}", d.quads().count()),
        ["d", op @ ("ins" | "rem" | "has"), rest @ ..] => {
            let Some(q) = parse_quad(rest) else { return "bad-op".into() };
            let ([s, p, o], g) = tgen::q_to_simple(&q);
            flag(match *op {
                "ins" => MutableDataset::insert(d, &s, &p, &o, g.as_ref()).map_err(|_| ()),
                "rem" => MutableDataset::remove(d, &s, &p, &o, g.as_ref()).map_err(|_| ()),
                _ => Dataset::contains(d, &s, &p, &o, g.as_ref()).map_err(|_| ()),
            })
        }
        ["d", op @ ("insall" | "remall"), rest @ ..] => {
            let Some(qs) = parse_quads(&rest.join(" ")) else { return "bad-op".into() };
            let sqs: Vec<SQ> = qs.iter().map(tgen::q_to_simple).collect();
            let r: Result<usize, ()> = if *op == "insall" {
                d.insert_all(sqs.into_iter().into_source()).map_err(|_| ())
            } else {
                d.remove_all(sqs.into_iter().into_source()).map_err(|_| ())
            };
            match r {
                Ok(n) => format!("n={}", n),
                Err(()) => "n=full".into(),
            }
        }
        ["d", op @ ("qm" | "remm" | "retm"), rest @ ..] => {
            let mut toks = rest.iter().copied().peekable();
            let (Some(sm), Some(pm), Some(om), Some(gm)) =
                (parse_tm(&mut toks), parse_tm(&mut toks), parse_tm(&mut toks), parse_gm(&mut toks))
            else {
                return "bad-op".into();
            };
            if toks.peek().is_some() {
                return "bad-op".into();
            }
            match *op {
                "qm" => {
                    let v: Vec<String> = d
                        .quads_matching(DMRef(&sm), DMRef(&pm), DMRef(&om), GraphNameMatcher::matcher_ref(&gm))
                        .map(|q| qkey(&tgen::view_quad(q.unwrap())))
                        .collect();
                    format!("n={} quads={}", v.len(), render_qs(v))
                }
                "remm" => match d.remove_matching(DMRef(&sm), DMRef(&pm), DMRef(&om), GraphNameMatcher::matcher_ref(&gm)) {
                    Ok(n) => format!("n={}", n),
                    Err(_) => "n=err".into(),
                },
                _ => match d.retain_matching(DMRef(&sm), DMRef(&pm), DMRef(&om), GraphNameMatcher::matcher_ref(&gm)) {
                    Ok(()) => "ok=1".into(),
                    Err(_) => "ok=err".into(),
                },
            }
        }
        ["d", "enum", which] => {
            macro_rules! en {
                ($m:ident) => {
                    d.$m().map(|t| tgen::view(t.unwrap())).collect::<Vec<T>>()
                };
            }
            let v: Vec<T> = match *which {
                "subjects" => en!(subjects),
                "predicates" => en!(predicates),
                "objects" => en!(objects),
                "graphs" => en!(graph_names),
                "iris" => en!(iris),
                "bnodes" => en!(blank_nodes),
                "literals" => en!(literals),
                "vars" => en!(variables),
                "qtriples" => en!(quoted_triples),
                _ => return "bad-op".into(),
            };
            format!("terms={}", render_ts(v))
        }
        // ------------------------------------------------------------ the dataset seen as a graph
        ["v", "union" | "iunion", "enum", "qtriples"] => {
            let v: Vec<T> = D::union_graph(d).quoted_triples().map(|t| tgen::view(t.unwrap())).collect();
            format!("terms={}", render_ts(v))
        }
        ["v", vw @ ("union" | "iunion"), sub @ ..] => {
            let pre = all_quads(d);
            let spec: Vec<Q> = pre.iter().map(into_triple).collect();
            let r = if *vw == "union" {
                graph_read(&D::union_graph(d), sub, &spec)
            } else {
                // the owning constructor, on the `&D` dataset
                let dr: &D = d;
                graph_read(&Dataset::into_union_graph(dr), sub, &spec)
            };
            r.unwrap_or_else(|| "bad-op".into())
        }
        ["v", "punion", rest @ ..] => {
            let mut it = rest.iter().copied().peekable();
            let Some(gm) = parse_gm(&mut it) else { return "bad-op".into() };
            let sub: Vec<&str> = it.collect();
            let pre = all_quads(d);
            let spec: Vec<Q> = pre.iter().filter(|q| gm_matches(&gm, &q.g)).map(into_triple).collect();
            graph_read(&D::partial_union_graph(d, GraphNameMatcher::matcher_ref(&gm)), &sub, &spec).unwrap_or_else(|| "bad-op".into())
        }
        ["v", vw @ ("graph" | "graphm"), rest @ ..] => {
            let mut it = rest.iter().copied().peekable();
            let g: Option<T> = if it.peek() == Some(&"-") {
                it.next();
                None
            } else {
                match T::parse(&mut it) {
                    Some(t) => Some(t),
                    None => return "bad-op".into(),
                }
            };
            let sub: Vec<&str> = it.collect();
            let gname = |g: &Option<T>| g.as_ref().map(|t| wrap(tgen::to_simple(t)));
            let gs: Option<ST> = g.as_ref().map(tgen::to_simple);
            let gk = g.as_ref().map(|t| canon(t).render());
            let in_g = |q: &Q| q.g.as_ref().map(|t| canon(t).render()) == gk;
            let pre = all_quads(d);
            let prek: Vec<String> = pre.iter().map(qkey).collect();
            let spec: Vec<Q> = pre.iter().filter(|q| in_g(q)).map(into_triple).collect();
            if *vw == "graphm" {
                // reads through the MUTABLE view: `DatasetGraph<&mut D, _>` over `impl Dataset for &mut D`
                let view = D::graph_mut(d, gname(&g));
                return graph_read(&view, &sub, &spec).unwrap_or_else(|| "bad-op".into());
            }
            if let Some(r) = graph_read(&D::graph(d, gname(&g)), &sub, &spec) {
                return r;
            }
            let with_g = |t: &Q| Q { s: t.s.clone(), p: t.p.clone(), o: t.o.clone(), g: g.clone() };
            match &sub[..] {
                [op @ ("ins" | "rem"), tt @ ..] => {
                    let Some(t) = parse_triple(tt) else { return "bad-op".into() };
                    let ins = *op == "ins";
                    let ([s, p, o], _) = tgen::q_to_simple(&t);
                    let k = qkey(&with_g(&t));
                    let present = prek.contains(&k);
                    let mut twin: D = twin_dataset(&pre);
                    let r: Result<bool, ()> = {
                        let mut view = D::graph_mut(d, gname(&g));
                        if ins {
                            MutableGraph::insert(&mut view, &s, &p, &o).map_err(|_| ())
                        } else {
                            MutableGraph::remove(&mut view, &s, &p, &o).map_err(|_| ())
                        }
                    };
                    let tr: Result<bool, ()> = if ins {
                        MutableDataset::insert(&mut twin, &s, &p, &o, gs.as_ref()).map_err(|_| ())
                    } else {
                        MutableDataset::remove(&mut twin, &s, &p, &o, gs.as_ref()).map_err(|_| ())
                    };
                    let fl = |r: &Result<bool, ()>| match r {
                        Ok(x) => b(*x),
                        Err(()) => "full",
                    };
                    let mut out = MutOut::new(fl(&r), all_quads(d).iter().map(qkey).collect());
                    out.twin(fl(&tr), all_quads(&twin).iter().map(qkey).collect());
                    if r.is_err() {
                        out.expect_st(prek);
                        return out.s;
                    }
                    if vec {
                        out.expect_others(&prek, &[k.clone()]);
                        out.expect_copies(&prek, &k, ins);
                    } else {
                        let mut exp = prek.clone();
                        if ins {
                            if !present {
                                exp.push(k.clone());
                            }
                            out.expect_r(b(!present));
                        } else {
                            exp.retain(|x| *x != k);
                            out.expect_r(b(present));
                        }
                        out.expect_st(exp);
                    }
                    out.s
                }
                // the DEFAULT bulk methods of `MutableGraph`, called on the mutable view
                [op @ ("insall" | "remall"), tt @ ..] => {
                    let Some(ts) = parse_quads(&tt.join(" ")) else { return "bad-op".into() };
                    let ins = *op == "insall";
                    let sts: Vec<[ST; 3]> = ts.iter().map(|q| tgen::q_to_simple(q).0).collect();
                    let sqs: Vec<SQ> = sts.iter().map(|t| (t.clone(), gs.clone())).collect();
                    let mut twin: D = twin_dataset(&pre);
                    let r: Result<usize, ()> = {
                        let mut view = D::graph_mut(d, gname(&g));
                        if ins {
                            view.insert_all(sts.into_iter().into_source()).map_err(|_| ())
                        } else {
                            view.remove_all(sts.into_iter().into_source()).map_err(|_| ())
                        }
                    };
                    let tr: Result<usize, ()> = if ins {
                        twin.insert_all(sqs.into_iter().into_source()).map_err(|_| ())
                    } else {
                        twin.remove_all(sqs.into_iter().into_source()).map_err(|_| ())
                    };
                    let mut out = MutOut::new(&count_res(&r), all_quads(d).iter().map(qkey).collect());
                    out.twin(&count_res(&tr), all_quads(&twin).iter().map(qkey).collect());
                    if r.is_err() {
                        return out.s;
                    }
                    let touched: Vec<String> = ts.iter().map(|t| qkey(&with_g(t))).collect();
                    if vec {
                        out.expect_others(&prek, &touched);
                    } else {
                        let mut exp = prek.clone();
                        let mut n = 0;
                        for k in &touched {
                            let present = exp.contains(k);
                            if ins && !present {
                                exp.push(k.clone());
                                n += 1;
                            }
                            if !ins && present {
                                exp.retain(|x| x != k);
                                n += 1;
                            }
                        }
                        out.expect_r(&n.to_string());
                        out.expect_st(exp);
                    }
                    out.s
                }
                [op @ ("remm" | "retm"), tt @ ..] => {
                    let mut toks = tt.iter().copied().peekable();
                    let (Some(sm), Some(pm), Some(om)) = (parse_tm(&mut toks), parse_tm(&mut toks), parse_tm(&mut toks)) else {
                        return "bad-op".into();
                    };
                    if toks.peek().is_some() {
                        return "bad-op".into();
                    }
                    let hit = |q: &Q| tm_matches(&sm, &q.s) && tm_matches(&pm, &q.p) && tm_matches(&om, &q.o);
                    let remm = *op == "remm";
                    let mut twin: D = twin_dataset(&pre);
                    let res: String = {
                        let mut view = D::graph_mut(d, gname(&g));
                        if remm {
                            match view.remove_matching(DMRef(&sm), DMRef(&pm), DMRef(&om)) {
                                Ok(n) => n.to_string(),
                                Err(_) => "err".into(),
                            }
                        } else {
                            match view.retain_matching(DMRef(&sm), DMRef(&pm), DMRef(&om)) {
                                Ok(()) => "ok".into(),
                                Err(_) => "err".into(),
                            }
                        }
                    };
                    let mut out = MutOut::new(&res, all_quads(d).iter().map(qkey).collect());
                    // whatever the store does with repeated elements, every selected quad goes and nothing else
                    let gone = |q: &Q| in_g(q) && (hit(q) == remm);
                    out.expect_st(pre.iter().filter(|q| !gone(q)).map(qkey).collect());
                    if remm {
                        if !vec {
                            out.expect_r(&pre.iter().filter(|q| gone(q)).count().to_string());
                        }
                        // the direct operation: the dataset's remove_matching with `[g]` in the graph position
                        let tr = match twin.remove_matching(DMRef(&sm), DMRef(&pm), DMRef(&om), [gs.as_ref()]) {
                            Ok(n) => n.to_string(),
                            Err(_) => "err".into(),
                        };
                        out.twin(&tr, all_quads(&twin).iter().map(qkey).collect());
                    }
                    out.s
                }
                _ => "bad-op".into(),
            }
        }
        _ => "bad-op".into(),
    }
}

fn gr_exec<G: MutableGraph + Default>(g: &mut G, vec: bool, toks: &[&str]) -> String
where
    G::MutationError: From<G::Error>,
    for<'x> GTerm<'x, G>: Clone,
{
    match toks {
        ["all"] | ["d", "all"] => {
            let v: Vec<String> = all_triples(g).iter().map(tkey).collect();
            format!("n={} quads={}", v.len(), render_qs(v))
        }
        ["d", "len"] => format!("n={}", g.triples().count()),
        ["d", op @ ("ins" | "rem" | "has"), rest @ ..] => {
            let Some(q) = parse_quad(rest) else { return "bad-op".into() };
            let ([s, p, o], _) = tgen::q_to_simple(&q);
            flag(match *op {
                "ins" => MutableGraph::insert(g, &s, &p, &o).map_err(|_| ()),
                "rem" => MutableGraph::remove(g, &s, &p, &o).map_err(|_| ()),
                _ => Graph::contains(g, &s, &p, &o).map_err(|_| ()),
            })
        }
        ["d", op @ ("insall" | "remall"), rest @ ..] => {
            let Some(qs) = parse_quads(&rest.join(" ")) else { return "bad-op".into() };
            let ts: Vec<[ST; 3]> = qs.iter().map(|q| tgen::q_to_simple(q).0).collect();
            let r: Result<usize, ()> = if *op == "insall" {
                g.insert_all(ts.into_iter().into_source()).map_err(|_| ())
            } else {
                g.remove_all(ts.into_iter().into_source()).map_err(|_| ())
            };
            match r {
                Ok(n) => format!("n={}", n),
                Err(()) => "n=full".into(),
            }
        }
        ["d", op @ ("qm" | "remm" | "retm"), rest @ ..] => {
            let mut toks = rest.iter().copied().peekable();
            let (Some(sm), Some(pm), Some(om)) = (parse_tm(&mut toks), parse_tm(&mut toks), parse_tm(&mut toks)) else {
                return "bad-op".into();
            };
            if toks.peek().is_some() {
                return "bad-op".into();
            }
            match *op {
                "qm" => {
                    let v: Vec<String> = g
                        .triples_matching(DMRef(&sm), DMRef(&pm), DMRef(&om))
                        .map(|t| tkey(&tgen::view_triple(t.unwrap())))
                        .collect();
                    format!("n={} quads={}", v.len(), render_qs(v))
                }
                "remm" => match g.remove_matching(DMRef(&sm), DMRef(&pm), DMRef(&om)) {
                    Ok(n) => format!("n={}", n),
                    Err(_) => "n=err".into(),
                },
                _ => match g.retain_matching(DMRef(&sm), DMRef(&pm), DMRef(&om)) {
                    Ok(()) => "ok=1".into(),
                    Err(_) => "ok=err".into(),
                },
            }
        }
        ["d", "enum", "qtriples"] => {
            let v: Vec<T> = g.quoted_triples().map(|t| tgen::view(t.unwrap())).collect();
            format!("terms={}", render_ts(v))
        }
        ["d", "enum", which] => {
            let pre: &G = g;
            graph_read(pre, &["enum", which], &[]).unwrap_or_else(|| "bad-op".into())
        }
        // ------------------------------------------------------------ the graph seen as a dataset
        ["v", vw @ ("asds" | "asdsm" | "ids"), sub @ ..] => {
            let pre = all_triples(g);
            let prek: Vec<String> = pre.iter().map(tkey).collect();
            // the read-only operations, through `as_dataset()`, `as_dataset_mut()` (`GraphAsDataset<&mut G>` over
            // `impl Graph for &mut G`) or the owning `into_dataset()` of the `&G` graph
            macro_rules! reads {
                ($ds:expr, $qt:expr) => {{
                    let ds = $ds;
                    match sub {
                        ["all"] => {
                            let v: Vec<String> = ds.quads().map(|q| qkey(&tgen::view_quad(q.unwrap()))).collect();
                            return qreply(v, pre.iter().map(qkey).collect());
                        }
                        ["qm", rest @ ..] => {
                            let mut toks = rest.iter().copied().peekable();
                            let (Some(sm), Some(pm), Some(om), Some(gm)) =
                                (parse_tm(&mut toks), parse_tm(&mut toks), parse_tm(&mut toks), parse_gm(&mut toks))
                            else {
                                return "bad-op".into();
                            };
                            if toks.peek().is_some() {
                                return "bad-op".into();
                            }
                            let v: Vec<String> = ds
                                .quads_matching(DMRef(&sm), DMRef(&pm), DMRef(&om), GraphNameMatcher::matcher_ref(&gm))
                                .map(|q| qkey(&tgen::view_quad(q.unwrap())))
                                .collect();
                            let e = pre
                                .iter()
                                .filter(|q| {
                                    gm_matches(&gm, &None) && tm_matches(&sm, &q.s) && tm_matches(&pm, &q.p) && tm_matches(&om, &q.o)
                                })
                                .map(qkey)
                                .collect();
                            return qreply(v, e);
                        }
                        ["has", rest @ ..] => {
                            let Some(q) = parse_quad(rest) else { return "bad-op".into() };
                            let ([s, p, o], gn) = tgen::q_to_simple(&q);
                            let r = Dataset::contains(&ds, &s, &p, &o, gn.as_ref()).unwrap();
                            let e = q.g.is_none() && pre.iter().any(|x| tkey(x) == tkey(&q));
                            let mut out = format!("r={}", b(r));
                            if r != e {
                                out += &format!(" FAIL.r=expected:{}", b(e));
                            }
                            return out;
                        }
                        ["enum", which] => {
                            macro_rules! en {
                                ($m:ident) => {
                                    ds.$m().map(|t| tgen::view(t.unwrap())).collect::<Vec<T>>()
                                };
                            }
                            let v: Vec<T> = match *which {
                                "subjects" => en!(subjects),
                                "predicates" => en!(predicates),
                                "objects" => en!(objects),
                                "graphs" => en!(graph_names),
                                "iris" => en!(iris),
                                "bnodes" => en!(blank_nodes),
                                "literals" => en!(literals),
                                "vars" => en!(variables),
                                "qtriples" if $qt => en!(quoted_triples),
                                _ => return "bad-op".into(),
                            };
                            return format!("terms={}", render_ts(v));
                        }
                        _ => {}
                    }
                }};
            }
            match *vw {
                "asds" => reads!(G::as_dataset(g), true),
                "asdsm" => {
                    reads!(G::as_dataset_mut(g), true);
                    return "bad-op".into();
                }
                _ => {
                    let gr: &G = g;
                    reads!(Graph::into_dataset(gr), true);
                    return "bad-op".into();
                }
            }
            match sub {
                [op @ ("ins" | "rem"), rest @ ..] => {
                    let Some(q) = parse_quad(rest) else { return "bad-op".into() };
                    let ins = *op == "ins";
                    let ([s, p, o], gn) = tgen::q_to_simple(&q);
                    let k = tkey(&q);
                    let present = prek.contains(&k);
                    let mut twin: G = twin_graph(&pre);
                    let r = {
                        let mut ds = G::as_dataset_mut(g);
                        if ins {
                            MutableDataset::insert(&mut ds, &s, &p, &o, gn.as_ref())
                        } else {
                            MutableDataset::remove(&mut ds, &s, &p, &o, gn.as_ref())
                        }
                    };
                    let res = match &r {
                        Ok(x) => b(*x),
                        Err(GraphAsDatasetMutationError::Graph(_)) => "full",
                        Err(GraphAsDatasetMutationError::OnlyDefaultGraph) => "only-default",
                    };
                    let mut out = MutOut::new(res, all_triples(g).iter().map(tkey).collect());
                    if q.g.is_some() {
                        // a graph seen as a dataset has only a default graph
                        out.expect_r(if ins { "only-default" } else { "0" });
                        out.expect_st(prek);
                        return out.s;
                    }
                    let tr: Result<bool, ()> = if ins {
                        MutableGraph::insert(&mut twin, &s, &p, &o).map_err(|_| ())
                    } else {
                        MutableGraph::remove(&mut twin, &s, &p, &o).map_err(|_| ())
                    };
                    out.twin(
                        match &tr {
                            Ok(x) => b(*x),
                            Err(()) => "full",
                        },
                        all_triples(&twin).iter().map(tkey).collect(),
                    );
                    if res == "full" {
                        out.expect_st(prek);
                        return out.s;
                    }
                    if vec {
                        out.expect_others(&prek, &[k.clone()]);
                        out.expect_copies(&prek, &k, ins);
                    } else {
                        let mut exp = prek.clone();
                        if ins {
                            if !present {
                                exp.push(k.clone());
                            }
                            out.expect_r(b(!present));
                        } else {
                            exp.retain(|x| *x != k);
                            out.expect_r(b(present));
                        }
                        out.expect_st(exp);
                    }
                    out.s
                }
                // the DEFAULT bulk methods of `MutableDataset`, called on the mutable view
                [op @ ("insall" | "remall"), rest @ ..] => {
                    let Some(qs) = parse_quads(&rest.join(" ")) else { return "bad-op".into() };
                    let ins = *op == "insall";
                    let sqs: Vec<SQ> = qs.iter().map(tgen::q_to_simple).collect();
                    let r = {
                        let mut ds = G::as_dataset_mut(g);
                        if ins {
                            ds.insert_all(sqs.into_iter().into_source()).map_err(|e| e.unwrap_sink_error())
                        } else {
                            ds.remove_all(sqs.into_iter().into_source()).map_err(|e| e.unwrap_sink_error())
                        }
                    };
                    let res = match &r {
                        Ok(n) => n.to_string(),
                        Err(GraphAsDatasetMutationError::Graph(_)) => "full".into(),
                        Err(GraphAsDatasetMutationError::OnlyDefaultGraph) => "only-default".into(),
                    };
                    let mut out = MutOut::new(&res, all_triples(g).iter().map(tkey).collect());
                    if res == "full" {
                        return out.s;
                    }
                    // only the listed triples of the default graph may be touched, whatever happens
                    let touched: Vec<String> = qs.iter().filter(|q| q.g.is_none()).map(tkey).collect();
                    if ins && qs.iter().any(|q| q.g.is_some()) {
                        // the first quad of a named graph is refused and ends the insertion
                        out.expect_r("only-default");
                        out.expect_others(&prek, &touched);
                        return out.s;
                    }
                    if vec {
                        out.expect_others(&prek, &touched);
                    } else {
                        let mut exp = prek.clone();
                        let mut n = 0;
                        for k in &touched {
                            let present = exp.contains(k);
                            if ins && !present {
                                exp.push(k.clone());
                                n += 1;
                            }
                            if !ins && present {
                                exp.retain(|x| x != k);
                                n += 1;
                            }
                        }
                        out.expect_r(&n.to_string());
                        out.expect_st(exp);
                    }
                    out.s
                }
                // NB: `remove_matching` / `retain_matching` can not be called on a `GraphAsDataset`: they require
                // `MutationError: From<Error>`, which `GraphAsDatasetMutationError<_>` does not provide
                _ => "bad-op".into(),
            }
        }
        _ => "bad-op".into(),
    }
}

fn wrap_id(t: ST) -> ST {
    t
}
fn wrap_cmp(t: ST) -> CT {
    CmpTerm(t)
}

fn new_store(kind: &str, width: &str) -> Option<Store> {
    Some(match (kind, width) {
        ("LD", "32") => Store::LD(LightDataset::new()),
        ("FD", "32") => Store::FD(FastDataset::new()),
        ("LD", "16") => Store::LD16(sophia_inmem::dataset::small::LightDataset::new()),
        ("FD", "16") => Store::FD16(sophia_inmem::dataset::small::FastDataset::new()),
        ("LG", "32") => Store::LG(LightGraph::new()),
        ("FG", "32") => Store::FG(FastGraph::new()),
        ("LG", "16") => Store::LG16(sophia_inmem::graph::small::LightGraph::new()),
        ("FG", "16") => Store::FG16(sophia_inmem::graph::small::FastGraph::new()),
        ("HD", _) => Store::HD(HashSet::new()),
        ("BD", _) => Store::BD(BTreeSet::new()),
        ("VD", _) => Store::VD(Vec::new()),
        ("HP", _) => Store::HP(HashSet::new()),
        ("BP", _) => Store::BP(BTreeSet::new()),
        ("VP", _) => Store::VP(Vec::new()),
        ("HG", _) => Store::HG(HashSet::new()),
        ("BG", _) => Store::BG(BTreeSet::new()),
        ("VG", _) => Store::VG(Vec::new()),
        _ => return None,
    })
}

fn exec_on(cur: &mut Option<Store>, toks: &[&str]) -> String {
    if let ["new", kind, width] = toks {
        return match new_store(kind, width) {
            Some(st) => {
                *cur = Some(st);
                "ok=1".into()
            }
            None => "bad-op".into(),
        };
    }
    let Some(st) = cur.as_mut() else { return "bad-op".into() };
    match st {
        Store::LD(d) => ds_exec(d, wrap_id, false, toks),
        Store::FD(d) => ds_exec(d, wrap_id, false, toks),
        Store::LD16(d) => ds_exec(d, wrap_id, false, toks),
        Store::FD16(d) => ds_exec(d, wrap_id, false, toks),
        Store::HD(d) => ds_exec(d, wrap_id, false, toks),
        Store::BD(d) => ds_exec(d, wrap_cmp, false, toks),
        Store::VD(d) => ds_exec(d, wrap_id, true, toks),
        Store::HP(d) => ds_exec(d, wrap_id, false, toks),
        Store::BP(d) => ds_exec(d, wrap_cmp, false, toks),
        Store::VP(d) => ds_exec(d, wrap_id, true, toks),
        Store::LG(g) => gr_exec(g, false, toks),
        Store::FG(g) => gr_exec(g, false, toks),
        Store::LG16(g) => gr_exec(g, false, toks),
        Store::FG16(g) => gr_exec(g, false, toks),
        Store::HG(g) => gr_exec(g, false, toks),
        Store::BG(g) => gr_exec(g, false, toks),
        Store::VG(g) => gr_exec(g, true, toks),
    }
}

pub fn exec(line: &str) -> String {
    let toks: Vec<&str> = line.split_whitespace().collect();
    if toks.first() == Some(&"hist") {
        // a self-contained history on a private store
        let mut cur: Option<Store> = None;
        let mut last = "bad-op".to_string();
        for op in toks[1..].split(|t| *t == ";") {
            if !op.is_empty() {
                last = exec_on(&mut cur, op);
            }
        }
        return last;
    }
    CUR.with(|c| exec_on(&mut c.borrow_mut(), &toks))
}

// ---------------------------------------------------------------- generation

fn gen_tm(g: &TermGen, r: &mut Rng, depth: usize, stats: &mut Stats) -> String {
    let k = r.below(if depth > 0 { 14 } else { 12 });
    let name;
    let s = match k {
        0 | 1 => {
            name = "any";
            "A".to_string()
        }
        2 | 3 => {
            name = "opt";
            format!("O {}", g.term(r, 1).render())
        }
        4 => {
            name = "none";
            "N".into()
        }
        5 => {
            name = "slice";
            let n = r.below(4);
            let mut s = format!("S {}", n);
            for _ in 0..n {
                s += &format!(" {}", g.term(r, 1).render());
            }
            s
        }
        6 => {
            name = "array";
            let n = r.range(1, 2);
            let mut s = format!("R {}", n);
            for _ in 0..n {
                s += &format!(" {}", g.term(r, 1).render());
            }
            s
        }
        7 => {
            name = "kind";
            format!("K {}", r.pick(&["iri", "bnode", "literal", "triple", "variable"]))
        }
        8 => {
            name = "datatype";
            let opts = [g.datatypes[0].clone(), g.datatypes[1].clone(), "http://www.w3.org/1999/02/22-rdf-syntax-ns#langString".to_string()];
            format!("D {}", hex(r.pick(&opts[..]).as_str()))
        }
        9 => {
            name = "langtag";
            format!("L {}", hex(r.pick(&g.tags[..]).as_str()))
        }
        10 | 11 => {
            name = "closure";
            format!("F {}", r.below(2))
        }
        12 => {
            name = "not";
            format!("! {}", gen_tm(g, r, depth - 1, stats))
        }
        _ => {
            name = "triple";
            format!("T {} {} {}", gen_tm(g, r, depth - 1, stats), gen_tm(g, r, depth - 1, stats), gen_tm(g, r, depth - 1, stats))
        }
    };
    stats.bump(&format!("matcher.{}", name));
    s
}

fn gname_text(g: &Option<T>) -> String {
    match g {
        None => "-".into(),
        Some(t) => t.render(),
    }
}

/// graph-name selectors: matching no / one / several of the graph names in use
fn gen_gm(names: &[Option<T>], g: &TermGen, r: &mut Rng, depth: usize, stats: &mut Stats) -> String {
    let k = r.below(if depth > 0 { 13 } else { 12 });
    let name;
    let s = match k {
        0 | 1 => {
            name = "gany";
            "GA".to_string()
        }
        2 | 3 => {
            name = "gopt";
            format!("GO {}", gname_text(r.pick(names)))
        }
        4 => {
            name = "gnone";
            "GN".into()
        }
        5 | 6 => {
            name = "gslice";
            let n = r.below(4);
            let mut s = format!("GS {}", n);
            for _ in 0..n {
                s += &format!(" {}", gname_text(r.pick(names)));
            }
            s
        }
        7 => {
            name = "garray";
            let n = r.range(1, 2);
            let mut s = format!("GR {}", n);
            for _ in 0..n {
                s += &format!(" {}", gname_text(r.pick(names)));
            }
            s
        }
        8 => {
            name = "gkind";
            format!("GK {}", r.pick(&["none", "iri", "bnode", "literal", "triple", "variable"]))
        }
        9 => {
            name = "gclosure";
            format!("GF {}", r.below(2))
        }
        10 => {
            name = "gtriple";
            if r.chance(1, 2) { "GT none".into() } else { format!("GT {} {} {}", gen_tm(g, r, 0, stats), gen_tm(g, r, 0, stats), gen_tm(g, r, 0, stats)) }
        }
        11 => {
            name = "gn";
            format!("Gm {}", gen_tm(g, r, 1, stats))
        }
        _ => {
            name = "gnot";
            format!("G! {}", gen_gm(names, g, r, depth - 1, stats))
        }
    };
    stats.bump(&format!("matcher.{}", name));
    s
}

/// a triple pattern, half of the time derived from a triple in use (so that constants exist)
fn gen_tpat(g: &TermGen, r: &mut Rng, stats: &mut Stats, pool: &[Q]) -> String {
    let q = if !pool.is_empty() && r.chance(2, 3) { Some(r.pick(pool).clone()) } else { None };
    let mut parts = vec![];
    for i in 0..3 {
        if let (Some(q), true) = (&q, r.chance(1, 2)) {
            let term = [&q.s, &q.p, &q.o][i];
            parts.push(match r.below(3) {
                0 => format!("O {}", term.render()),
                1 => format!("S 1 {}", term.render()),
                _ => format!("R 1 {}", term.render()),
            });
        } else {
            parts.push(gen_tm(g, r, 1, stats));
        }
    }
    parts.join(" ")
}

/// a triple pattern for a bulk operation through a view, mostly matching the triple `q`
fn gen_vpat(g: &TermGen, r: &mut Rng, stats: &mut Stats, q: &Q) -> String {
    if r.chance(1, 4) {
        // exactly one position bound to a constant, the others open: with the view's graph name that is one of
        // the two-constant index arms of the fast stores
        let i = r.below(3);
        stats.bump("vpat.one_constant");
        let c = match r.below(3) {
            0 => format!("O {}", [&q.s, &q.p, &q.o][i].render()),
            1 => format!("S 1 {}", [&q.s, &q.p, &q.o][i].render()),
            _ => format!("R 1 {}", [&q.s, &q.p, &q.o][i].render()),
        };
        let parts: Vec<String> = (0..3).map(|k| if k == i { c.clone() } else { "A".to_string() }).collect();
        return parts.join(" ");
    }
    let mut parts = vec![];
    for term in [&q.s, &q.p, &q.o] {
        parts.push(match r.below(20) {
            0..=3 => format!("O {}", term.render()),
            4..=7 => format!("S 1 {}", term.render()),
            8..=11 => format!("R 1 {}", term.render()),
            12..=16 => "A".to_string(),
            _ => gen_tm(g, r, 1, stats),
        });
    }
    parts.join(" ")
}

fn triple_text(q: &Q) -> String {
    format!("{} {} {}", q.s.render(), q.p.render(), q.o.render())
}

/// through borrowed views (no `graphs`: a graph has none; no `qtriples`: see `graph_read`)
const VIEW_ENUMS: [&str; 7] = ["subjects", "predicates", "objects", "iris", "bnodes", "literals", "vars"];
const ENUMS: [&str; 9] = ["subjects", "predicates", "objects", "graphs", "iris", "bnodes", "literals", "vars", "qtriples"];

/// 1..4 triples for a bulk operation through a view: mostly triples in use, sometimes twice the same
fn gen_bulk(g: &TermGen, r: &mut Rng, generalized: bool, pool: &[Q], stats: &mut Stats) -> Vec<Q> {
    let n = r.range(1, 4);
    let mut v: Vec<Q> = vec![];
    for _ in 0..n {
        let t = if !v.is_empty() && r.chance(1, 6) {
            stats.bump("bulk.repeated_element");
            v[0].clone()
        } else if !pool.is_empty() && r.chance(2, 3) {
            r.pick(pool).clone()
        } else if generalized {
            g.any_quad(r)
        } else {
            g.strict_quad(r)
        };
        v.push(Q { g: None, ..t });
    }
    v
}

pub fn generate(ctx: &mut GenCtx) {
    let mut g = TermGen::default();
    g.iris.truncate(4);
    g.lexicals.truncate(4);
    let kinds: &[(&str, &str)] = &[
        ("LD", "32"), ("LG", "32"), ("FD", "32"), ("FG", "32"), ("HD", "0"), ("HG", "0"), ("LD", "16"), ("LG", "16"),
        ("BD", "0"), ("BG", "0"), ("FD", "16"), ("FG", "16"), ("VD", "0"), ("VG", "0"), ("HP", "0"), ("BP", "0"), ("VP", "0"),
    ];
    let histories = kinds.len() * if ctx.thorough { 150 } else { 24 };
    let maxlen = if ctx.thorough { 90 } else { 40 };
    for h in 0..histories {
        let (kind, width) = kinds[h % kinds.len()];
        let graph = kind.ends_with('G');
        ctx.emit(&format!("new {} {}", kind, width));
        ctx.stats.bump(&format!("store.{}{}", kind, width));
        let generalized = (h / kinds.len()) % 3 == 1;
        // graph names in use: default, two IRIs, one blank node (+ a literal, a quoted triple and a variable in
        // generalized histories); the `absent` ones (an IRI, a blank node, a literal) are never inserted directly
        let mut names: Vec<Option<T>> = vec![None, Some(g.iri(&mut ctx.rng)), Some(g.iri(&mut ctx.rng)), Some(g.bnode(&mut ctx.rng))];
        if generalized {
            names.push(Some(g.literal(&mut ctx.rng)));
            names.push(Some(g.strict_triple(&mut ctx.rng, 1)));
            names.push(Some(g.var(&mut ctx.rng)));
        }
        let absents = [
            Some(T::Iri("x:absent".into())),
            Some(T::Bnode("absent".into())),
            Some(T::Lit("absent".into(), "http://www.w3.org/2001/XMLSchema#string".into())),
        ];
        let mut with_absent = names.clone();
        with_absent.extend(absents.iter().cloned());
        let mut pool: Vec<Q> = vec![];
        // quads inserted so far, with their graph (removals are not tracked): lets the operations through a
        // graph view aim at a graph / triple that is probably there
        let mut gpool: Vec<Q> = vec![];
        let n = ctx.rng.range(10, maxlen);
        for _ in 0..n {
            // a triple: new, or (often) one already in use — so that graphs share triples
            let mut t = if generalized { g.any_quad(&mut ctx.rng) } else { g.strict_quad(&mut ctx.rng) };
            if !pool.is_empty() && ctx.rng.chance(3, 5) {
                t = ctx.rng.pick(&pool).clone();
                if let T::Lang(l, tag) = &t.o {
                    if ctx.rng.chance(1, 3) {
                        t.o = T::Lang(l.clone(), if tag.chars().any(|c| c.is_ascii_uppercase()) { tag.to_lowercase() } else { tag.to_uppercase() });
                        ctx.stats.bump("case_variant_tag");
                    }
                }
            }
            let gn = ctx.rng.pick(&names).clone();
            let q = Q { s: t.s.clone(), p: t.p.clone(), o: t.o.clone(), g: if graph { None } else { gn } };
            let line = if graph {
                match ctx.rng.below(28) {
                    0..=3 => {
                        pool.push(q.clone());
                        format!("d ins {}", q.render())
                    }
                    4 => format!("d rem {}", q.render()),
                    5..=7 => {
                        // through as_dataset_mut(): mostly the default graph, sometimes a named one
                        let mut q2 = q.clone();
                        if ctx.rng.chance(1, 4) {
                            q2.g = ctx.rng.pick(&with_absent[1..]).clone();
                            ctx.stats.bump("asds.ins.named");
                        } else {
                            pool.push(q.clone());
                        }
                        format!("v asds ins {}", q2.render())
                    }
                    8..=10 => {
                        let mut q2 = q.clone();
                        if ctx.rng.chance(1, 4) {
                            q2.g = ctx.rng.pick(&with_absent[1..]).clone();
                            ctx.stats.bump("asds.rem.named");
                        }
                        format!("v asds rem {}", q2.render())
                    }
                    11 => "v asds all".to_string(),
                    12..=14 => {
                        let gm = gen_gm(&with_absent, &g, &mut ctx.rng, 1, &mut ctx.stats);
                        format!("v asds qm {} {}", gen_tpat(&g, &mut ctx.rng, &mut ctx.stats, &pool), gm)
                    }
                    15..=16 => {
                        let mut q2 = q.clone();
                        if ctx.rng.chance(1, 3) {
                            q2.g = ctx.rng.pick(&with_absent[1..]).clone();
                        }
                        format!("v asds has {}", q2.render())
                    }
                    17 => format!("v asds enum {}", ctx.rng.pick(&ENUMS)),
                    18 => format!("d qm {}", gen_tpat(&g, &mut ctx.rng, &mut ctx.stats, &pool)),
                    19 => "all".to_string(),
                    20..=22 => {
                        // the default bulk methods of MutableDataset on as_dataset_mut()
                        let mut ts = gen_bulk(&g, &mut ctx.rng, generalized, &pool, &mut ctx.stats);
                        let ins = ctx.rng.chance(1, 2);
                        if ctx.rng.chance(1, 4) {
                            let i = ctx.rng.below(ts.len());
                            ts[i].g = ctx.rng.pick(&with_absent[1..]).clone();
                            ctx.stats.bump(if ins { "asds.insall.named" } else { "asds.remall.named" });
                        }
                        if ins {
                            pool.extend(ts.iter().filter(|t| t.g.is_none()).cloned());
                        }
                        let body: Vec<String> = ts.iter().map(|t| t.render()).collect();
                        format!("v asds {} {}", if ins { "insall" } else { "remall" }, body.join(" | "))
                    }
                    23..=26 => {
                        // reads through the mutable / owning adapters
                        let vw = if ctx.rng.chance(2, 3) { "asdsm" } else { "ids" };
                        match ctx.rng.below(5) {
                            0 => format!("v {} all", vw),
                            1 | 2 => {
                                let gm = gen_gm(&with_absent, &g, &mut ctx.rng, 1, &mut ctx.stats);
                                format!("v {} qm {} {}", vw, gen_tpat(&g, &mut ctx.rng, &mut ctx.stats, &pool), gm)
                            }
                            3 => {
                                let mut q2 = q.clone();
                                if ctx.rng.chance(1, 3) {
                                    q2.g = ctx.rng.pick(&with_absent[1..]).clone();
                                }
                                format!("v {} has {}", vw, q2.render())
                            }
                            _ => format!("v {} enum {}", vw, ctx.rng.pick(&ENUMS)),
                        }
                    }
                    _ => {
                        let ts = gen_bulk(&g, &mut ctx.rng, generalized, &pool, &mut ctx.stats);
                        pool.extend(ts.iter().cloned());
                        let body: Vec<String> = ts.iter().map(|t| t.render()).collect();
                        format!("d insall {}", body.join(" | "))
                    }
                }
            } else {
                let mut vg = if ctx.rng.chance(1, 6) { ctx.rng.pick(&absents[..]).clone() } else { ctx.rng.pick(&names).clone() };
                let k = ctx.rng.below(42);
                // removals / queries through a graph view: 2 in 3 aimed at a quad inserted earlier
                let mut q = q;
                let mut ppool: Vec<Q> = pool.clone();
                if matches!(k, 10..=17 | 30..=33 | 37..=39) && !gpool.is_empty() && ctx.rng.chance(2, 3) {
                    // 1 in 4 at the FIRST quad inserted: its terms have the smallest indexes of an indexed store
                    // (the edge of every range scan)
                    let first = ctx.rng.chance(1, 4);
                    let f = if first { gpool[0].clone() } else { ctx.rng.pick(&gpool).clone() };
                    vg = f.g.clone();
                    ppool = vec![f.clone()];
                    q = f;
                    ctx.stats.bump(if first { "graph_view.aimed.first_quad" } else { "graph_view.aimed" });
                }
                let aimed = ppool.len() == 1 && !pool.is_empty() && ppool[0] == q;
                let pool_for_pat = ppool;
                let is_absent = absents.contains(&vg);
                let gt = gname_text(&vg);
                match k {
                    0..=4 => {
                        pool.push(q.clone());
                        gpool.push(q.clone());
                        format!("d ins {}", q.render())
                    }
                    5 => format!("d rem {}", q.render()),
                    6..=9 => {
                        pool.push(q.clone());
                        gpool.push(Q { g: vg.clone(), ..q.clone() });
                        ctx.stats.bump(if is_absent { "graph_mut.ins.absent" } else { "graph_mut.ins" });
                        format!("v graph {} ins {}", gt, triple_text(&q))
                    }
                    10..=12 => {
                        ctx.stats.bump(if is_absent { "graph_mut.rem.absent" } else { "graph_mut.rem" });
                        format!("v graph {} rem {}", gt, triple_text(&q))
                    }
                    13 => format!("v graph {} all", gt),
                    14..=15 if aimed && ctx.rng.chance(1, 2) => format!("v graph {} qm {}", gt, gen_vpat(&g, &mut ctx.rng, &mut ctx.stats, &q)),
                    14..=15 => format!("v graph {} qm {}", gt, gen_tpat(&g, &mut ctx.rng, &mut ctx.stats, &pool_for_pat)),
                    16 => format!("v graph {} has {}", gt, triple_text(&q)),
                    17 => format!("v graph {} enum {}", gt, ctx.rng.pick(&VIEW_ENUMS)),
                    18 => format!("v {} all", if ctx.rng.chance(1, 2) { "union" } else { "iunion" }),
                    19..=20 => format!("v {} qm {}", if ctx.rng.chance(2, 3) { "union" } else { "iunion" }, gen_tpat(&g, &mut ctx.rng, &mut ctx.stats, &pool)),
                    21 => format!("v union has {}", triple_text(&q)),
                    22 => {
                        let w = *ctx.rng.pick(&ENUMS);
                        format!("v {} enum {}", if ctx.rng.chance(2, 3) { "union" } else { "iunion" }, if w == "graphs" { "iris" } else { w })
                    }
                    23 => format!("v punion {} all", gen_gm(&with_absent, &g, &mut ctx.rng, 1, &mut ctx.stats)),
                    24..=25 => {
                        let gm = gen_gm(&with_absent, &g, &mut ctx.rng, 1, &mut ctx.stats);
                        format!("v punion {} qm {}", gm, gen_tpat(&g, &mut ctx.rng, &mut ctx.stats, &pool))
                    }
                    26 => format!("v punion {} has {}", gen_gm(&with_absent, &g, &mut ctx.rng, 1, &mut ctx.stats), triple_text(&q)),
                    27 => format!("v punion {} enum {}", gen_gm(&with_absent, &g, &mut ctx.rng, 1, &mut ctx.stats), ctx.rng.pick(&VIEW_ENUMS)),
                    28 => {
                        let gm = gen_gm(&names, &g, &mut ctx.rng, 1, &mut ctx.stats);
                        format!("d remm {} {}", gen_tpat(&g, &mut ctx.rng, &mut ctx.stats, &pool), gm)
                    }
                    29 => "all".to_string(),
                    30..=31 => {
                        ctx.stats.bump(if is_absent { "graph_mut.remm.absent" } else { "graph_mut.remm" });
                        if ctx.rng.chance(1, 8) {
                            format!("v graph {} remm A A A", gt)
                        } else if aimed && ctx.rng.chance(3, 4) {
                            format!("v graph {} remm {}", gt, gen_vpat(&g, &mut ctx.rng, &mut ctx.stats, &q))
                        } else {
                            format!("v graph {} remm {}", gt, gen_tpat(&g, &mut ctx.rng, &mut ctx.stats, &pool_for_pat))
                        }
                    }
                    32..=33 => {
                        ctx.stats.bump(if is_absent { "graph_mut.retm.absent" } else { "graph_mut.retm" });
                        if aimed && ctx.rng.chance(3, 4) {
                            format!("v graph {} retm {}", gt, gen_vpat(&g, &mut ctx.rng, &mut ctx.stats, &q))
                        } else {
                            format!("v graph {} retm {}", gt, gen_tpat(&g, &mut ctx.rng, &mut ctx.stats, &pool_for_pat))
                        }
                    }
                    34..=36 => {
                        let mut ts = gen_bulk(&g, &mut ctx.rng, generalized, &pool, &mut ctx.stats);
                        let ins = ctx.rng.chance(1, 2);
                        if ins {
                            pool.extend(ts.iter().cloned());
                            gpool.extend(ts.iter().map(|t| Q { g: vg.clone(), ..t.clone() }));
                        } else if !gpool.is_empty() && ctx.rng.chance(2, 3) {
                            // aim the removal at a graph that probably holds one of the triples
                            let f = ctx.rng.pick(&gpool).clone();
                            vg = f.g.clone();
                            ts.push(Q { g: None, ..f });
                            ctx.stats.bump("graph_view.aimed");
                        }
                        let is_absent = absents.contains(&vg);
                        let gt = gname_text(&vg);
                        ctx.stats.bump(if is_absent { "graph_mut.bulk.absent" } else { "graph_mut.bulk" });
                        let body: Vec<String> = ts.iter().map(|t| t.render()).collect();
                        format!("v graph {} {} {}", gt, if ins { "insall" } else { "remall" }, body.join(" | "))
                    }
                    37..=39 => {
                        // reads through graph_mut(g)
                        match ctx.rng.below(5) {
                            0 => format!("v graphm {} all", gt),
                            1 | 2 => format!("v graphm {} qm {}", gt, gen_tpat(&g, &mut ctx.rng, &mut ctx.stats, &pool_for_pat)),
                            3 => format!("v graphm {} has {}", gt, triple_text(&q)),
                            _ => format!("v graphm {} enum {}", gt, ctx.rng.pick(&VIEW_ENUMS)),
                        }
                    }
                    _ => {
                        // a direct bulk insertion spreading triples over the graphs in use
                        let ts = gen_bulk(&g, &mut ctx.rng, generalized, &pool, &mut ctx.stats);
                        pool.extend(ts.iter().cloned());
                        let qs: Vec<Q> = ts.iter().map(|t| Q { g: ctx.rng.pick(&names).clone(), ..t.clone() }).collect();
                        gpool.extend(qs.iter().cloned());
                        let body: Vec<String> = qs.iter().map(|t| t.render()).collect();
                        format!("d insall {}", body.join(" | "))
                    }
                }
            };
            let mut w = line.split(' ');
            let a = w.next().unwrap().to_string();
            let opname = if a == "v" {
                let view = w.next().unwrap();
                let op = line
                    .split(' ')
                    .find(|t| ["all", "qm", "has", "enum", "ins", "rem", "insall", "remall", "remm", "retm"].contains(t))
                    .unwrap_or("?");
                if let Some(gtok) = line.split(' ').nth(2) {
                    if view.starts_with("graph") {
                        let kind = match gtok {
                            "-" => "default",
                            "i" => "iri",
                            "b" => "bnode",
                            "l" | "g" => "literal",
                            "t" => "triple",
                            "v" => "variable",
                            _ => "other",
                        };
                        ctx.stats.bump(&format!("graph_view.name.{}", kind));
                    }
                }
                format!("v.{}.{}", view, op)
            } else if a == "d" {
                format!("d.{}", w.next().unwrap())
            } else {
                a
            };
            ctx.stats.bump(&format!("op.{}", opname));
            ctx.emit(&line);
        }
        // closing observations: the store itself and every view of it
        ctx.emit("all");
        if graph {
            ctx.emit("v asds all");
            ctx.emit("v asds enum graphs");
            ctx.emit("v asdsm all");
            let w = *ctx.rng.pick(&["subjects", "predicates", "objects", "iris", "literals"]);
            ctx.emit(&format!("v asdsm enum {}", w));
            ctx.emit(&format!("v ids enum {}", w));
        } else {
            let gi = ctx.rng.below(names.len());
            ctx.emit(&format!("v graphm {} all", gname_text(&names[gi])));
            ctx.emit("v iunion all");
            ctx.emit("v union all");
            for nm in &with_absent {
                ctx.emit(&format!("v graph {} all", gname_text(nm)));
            }
            ctx.emit("v punion GK iri all");
            ctx.emit(&format!("v punion GR 2 {} {} all", gname_text(&names[0]), gname_text(&names[1])));
        }
        if h < 2 {
            ctx.stats.sample(format!("history {} on {}{} with {} ops", h, kind, width, n));
        }
    }
}

fn main() {
    vhcore::main_loop(generate, exec);
}
