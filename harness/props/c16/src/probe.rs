//! Stack high-water mark of the current thread by *painting*: the unused part of the thread's stack
//! (from a fixed floor up to a page below the caller) is filled with a byte pattern before the
//! measured operation; afterwards the lowest byte that no longer carries the pattern is the deepest
//! point any frame reached.  8-byte granularity, no dependence on the kernel's page accounting
//! (`mincore`, THP, `madvise`), on timing or on machine load.
//!
//! The floor is `STACK - FLOOR_MARGIN` below the thread entry (never below the start of the mapping
//! that /proc/self/maps reports, when readable), so the last 64 KiB before the guard page are not
//! painted: an operation that gets there is within 3 % of overflowing and is reported with the
//! extent of the floor.
use std::sync::atomic::{AtomicUsize, Ordering::Relaxed};

pub const STACK: usize = 2 * 1024 * 1024;
const FLOOR_MARGIN: usize = 64 * 1024;
/// frames of `paint` itself and of the leaf calls it makes stay well inside this
const PAINT_MARGIN: usize = 4096;
const PATTERN: u8 = 0xA5;
const PATTERN64: u64 = 0xA5A5_A5A5_A5A5_A5A5;

static LO: AtomicUsize = AtomicUsize::new(0);
static TOP: AtomicUsize = AtomicUsize::new(0);
static PAINTED_HI: AtomicUsize = AtomicUsize::new(0);

fn mapping_start(top: usize) -> Option<usize> {
    let maps = std::fs::read_to_string("/proc/self/maps").ok()?;
    for l in maps.lines() {
        let range = l.split_whitespace().next()?;
        let (a, b) = range.split_once('-')?;
        let a = usize::from_str_radix(a, 16).ok()?;
        let b = usize::from_str_radix(b, 16).ok()?;
        if a <= top && top < b {
            return Some(a);
        }
    }
    None
}

/// call first thing in the thread's entry function; `top` = address of a local of that function
pub fn init(top: usize) {
    let floor = (top.saturating_sub(STACK - FLOOR_MARGIN) + 7) & !7;
    let lo = match mapping_start(top) {
        Some(start) => floor.max(start),
        None => floor,
    };
    LO.store(lo, Relaxed);
    TOP.store(top, Relaxed);
}

/// paint everything between the floor and one page below the caller's caller.  Building the input
/// data happens before this call and is not part of the measurement.
#[inline(never)]
pub fn paint() {
    let marker = 0u8;
    let here = std::hint::black_box(&marker) as *const u8 as usize;
    let lo = LO.load(Relaxed);
    if lo == 0 || here < lo + 2 * PAINT_MARGIN {
        return;
    }
    let hi = (here - PAINT_MARGIN) & !7;
    // memset is a leaf; its frame lies within PAINT_MARGIN below `here`
    unsafe {
        libc::memset(lo as *mut libc::c_void, PATTERN as libc::c_int, hi - lo);
    }
    PAINTED_HI.store(hi, Relaxed);
}

/// distance from the thread entry down to the lowest byte written since `paint`; None if `paint`
/// never ran
pub fn extent() -> Option<usize> {
    let (lo, hi, top) = (LO.load(Relaxed), PAINTED_HI.load(Relaxed), TOP.load(Relaxed));
    if lo == 0 || hi <= lo {
        return None;
    }
    let words = unsafe { std::slice::from_raw_parts(lo as *const u64, (hi - lo) / 8) };
    let first = words.iter().position(|w| unsafe { std::ptr::read_volatile(w) } != PATTERN64);
    Some(match first {
        Some(i) => top - (lo + i * 8),
        // nothing below the painted ceiling was touched
        None => top - hi,
    })
}
