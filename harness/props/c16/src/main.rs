//! C16 — stack use does not grow with the amount of data processed.
//!
//! requests:
//!   run <site> n=<size> <profile>   profile = dev | release
//!   site <name> <n>                 model-only request (class / predicted depth); echoed here
//!
//! `exec` never runs an operation in-process: for every `run` request it re-executes ITSELF
//! (`std::env::current_exe()`, hidden sub-command `child <site> <size> <cpu-seconds>`): once at
//! `<size>` (does the operation complete on a 2 MiB stack?) and once at each of the three probe sizes
//! (how deep did the stack get? — cached per (site, profile)).  The child runs the REAL operation on
//! a thread created with `std::thread::Builder::new().stack_size(2 MiB)`, prints one line and exits
//! 0.  Core dumps are disabled in the child (RLIMIT_CORE = 0) before anything else happens.
//!
//! Everything that decides a verdict is independent of machine load:
//!  * the stack extent is measured by painting the stack (probe.rs), at 8-byte granularity;
//!  * `growth=linear` iff the extent grows by at least 16 bytes (the smallest x86-64 call frame) per
//!    additional element over BOTH increments 100 -> 400 -> 1600 (a logarithmic or capped increase
//!    fails the second one);
//!  * `FAIL.stack_overflow` only if the child died of SIGSEGV / SIGBUS or printed Rust's
//!    "has overflowed its stack" before SIGABRT;
//!  * a child is never timed on the wall clock: it limits its own CPU time (RLIMIT_CPU, generous) and
//!    the parent only has a very long wall-clock backstop (a sleeping deadlock).  CPU limit, backstop,
//!    death by any other signal (e.g. the OOM killer) and a skipped request are reported as
//!    `completed=<what>` — a difference to the model (`completed=yes`), never an oracle failure.
//!
//! When the probes show linear growth but the requested size completed (sizes of the quadratic-time
//! sites are capped), one more child runs at the size at which the measured slope exhausts 2 MiB
//! (at most 10^6, the quantifier's range): the abort there is the concrete failing input.
use std::collections::HashMap;
use std::io::{BufRead, Read as _, Write as _};
use std::os::unix::process::ExitStatusExt;
use std::path::PathBuf;
use std::process::{Command, Stdio};
use std::sync::{Arc, Mutex, OnceLock};
use std::time::{Duration, Instant};

use vhcore::GenCtx;

mod probe;
mod sites;

use probe::STACK;
use sites::SITES;

/// probe sizes (the model's `Driver/C16.lean` has the same three)
pub const PROBES: [usize; 3] = [100, 400, 1600];
/// the smallest frame a non-inlined x86-64 call can have: return address + 16-byte alignment
const MIN_FRAME: usize = 16;
/// upper end of the property's quantifier
const MAX_SIZE: usize = 1_000_000;

pub fn generate(ctx: &mut GenCtx) {
    // quick: beyond 2 MiB / 16 B = 131072 elements; thorough: the quantifier's range 10^3 .. 10^6
    let sizes: &[usize] = if ctx.thorough { &[1_000, 10_000, 100_000, 1_000_000] } else { &[200_000] };
    for s in SITES {
        let cap = if ctx.thorough { s.tcap } else { s.qcap };
        let mut seen: Vec<usize> = vec![];
        for &sz in sizes {
            let sz = sz.min(cap);
            if seen.contains(&sz) {
                continue;
            }
            seen.push(sz);
            ctx.emit(&format!("run {} n={} dev", s.name, sz));
            ctx.stats.bump(&format!("site.{}", s.name));
            ctx.stats.bump(&format!("dim.{}", s.dim));
            ctx.stats.bump(&format!("entry.{}", s.entry));
            ctx.stats.bump("profile.dev");
            ctx.stats.bump(&format!("size.{}", sz));
            if cap != usize::MAX {
                ctx.stats.bump("size-capped(quadratic-time)");
            }
        }
        if ctx.thorough {
            let (a, b) = (200_000usize.min(cap), MAX_SIZE.min(cap));
            for sz in if a == b { vec![a] } else { vec![a, b] } {
                ctx.emit(&format!("run {} n={} release", s.name, sz));
                ctx.stats.bump("profile.release");
            }
        }
        ctx.emit(&format!("site {} {}", s.name, PROBES[2]));
        ctx.stats.bump("model-only");
    }
}

// ------------------------------------------------------------------------------------------------
// parent side

#[derive(Clone, Debug)]
struct ChildResult {
    /// "ok" | "err" | "panic" | "overflow" | "cpulimit" | "walllimit" | "died:<how>" | "spawn-failed"
    done: String,
    result: String,
    extent: Option<usize>,
}

/// CPU seconds a child may use before the kernel stops it (SIGXCPU).  The slowest site needs ~12 s
/// at 2*10^5 and ~1-2 min at 10^6 on this machine; CPU time does not depend on how many other jobs
/// share the cores.
fn cpu_limit(size: usize) -> u64 {
    let base: u64 = std::env::var("VH_C16_CPU").ok().and_then(|s| s.parse().ok()).unwrap_or(1200);
    if size > 200_000 { base * 3 } else { base }
}

fn run_child_once(bin: &PathBuf, site: &str, size: usize) -> ChildResult {
    let fail = |d: String| ChildResult { done: d, result: "-".into(), extent: None };
    let cpu = cpu_limit(size);
    let child = Command::new(bin)
        .arg("child")
        .arg(site)
        .arg(size.to_string())
        .arg(cpu.to_string())
        .stdin(Stdio::null())
        .stdout(Stdio::piped())
        .stderr(Stdio::piped())
        .spawn();
    let Ok(mut child) = child else { return fail("spawn-failed".into()) };
    // wall-clock backstop only (a child that sleeps forever): far beyond anything CPU load can cause
    let backstop = Duration::from_secs(cpu * 8);
    let t0 = Instant::now();
    let status = loop {
        match child.try_wait() {
            Ok(Some(st)) => break st,
            Ok(None) => {
                if t0.elapsed() > backstop {
                    let _ = child.kill();
                    let _ = child.wait();
                    return fail("walllimit".into());
                }
                std::thread::sleep(Duration::from_millis(10));
            }
            Err(_) => return fail("died:wait-failed".into()),
        }
    };
    // both outputs are a few hundred bytes at most (far below the pipe capacity)
    let mut out = String::new();
    if let Some(mut so) = child.stdout.take() {
        let _ = so.read_to_string(&mut out);
    }
    let mut err = Vec::new();
    if let Some(mut se) = child.stderr.take() {
        let _ = se.read_to_end(&mut err);
    }
    let err = String::from_utf8_lossy(&err);
    if !status.success() {
        let overflow_msg = err.contains("overflowed its stack");
        return fail(match status.signal() {
            Some(libc::SIGXCPU) => "cpulimit".into(),
            Some(libc::SIGSEGV) | Some(libc::SIGBUS) => "overflow".into(),
            Some(libc::SIGABRT) if overflow_msg => "overflow".into(),
            Some(s) => format!("died:signal{}", s),
            None => format!("died:exit{}", status.code().unwrap_or(-1)),
        });
    }
    let mut r = ChildResult { done: "died:no-reply".into(), result: "-".into(), extent: None };
    for tok in out.split_whitespace() {
        if let Some((k, v)) = tok.split_once('=') {
            match k {
                "done" => r.done = v.to_string(),
                "result" => r.result = v.to_string(),
                "extent" => r.extent = v.parse().ok(),
                _ => {}
            }
        }
    }
    r
}

fn run_child(bin: &PathBuf, site: &str, size: usize) -> ChildResult {
    let r = run_child_once(bin, site, size);
    if r.done == "walllimit" || r.done == "spawn-failed" || r.done == "died:signal9" {
        // (SIGKILL: the OOM killer under memory pressure from other jobs)
        std::thread::sleep(Duration::from_secs(5));
        // once more before giving up (never a verdict either way)
        return run_child_once(bin, site, size);
    }
    r
}

fn crate_dir() -> PathBuf {
    // the standalone crate harness/props/c16 (config in harness/.cargo/config.toml applies)
    PathBuf::from(env!("CARGO_MANIFEST_DIR"))
}

/// the release variant of this very binary, built on demand against /repo's current working tree
/// (shared target dir; cargo decides what is stale); no time limit on the build
fn release_bin() -> &'static Result<PathBuf, String> {
    static BIN: OnceLock<Result<PathBuf, String>> = OnceLock::new();
    BIN.get_or_init(|| {
        let me = std::env::current_exe().map_err(|e| e.to_string())?;
        let target = me.parent().and_then(|p| p.parent()).ok_or("no target dir")?.to_path_buf();
        let st = Command::new("cargo")
            .args(["build", "--release", "--offline"])
            .current_dir(crate_dir())
            .stdin(Stdio::null())
            .stdout(Stdio::null())
            .stderr(Stdio::null())
            .status()
            .map_err(|e| e.to_string())?;
        if !st.success() {
            return Err("cargo build --release failed".into());
        }
        let p = target.join("release").join("vh-c16");
        if p.exists() { Ok(p) } else { Err("release binary missing".into()) }
    })
}

#[derive(Clone, Debug)]
struct Probe {
    runs: Vec<ChildResult>,
    /// "constant" | "linear" | "unknown"
    growth: &'static str,
    /// bytes of stack per additional element over the last increment (when both extents exist)
    slope: Option<f64>,
}

fn ext_str(c: &ChildResult) -> String {
    match (c.done.as_str(), c.extent) {
        ("ok", Some(e)) | ("err", Some(e)) => e.to_string(),
        ("overflow", _) => "overflow".to_string(),
        _ => "unknown".to_string(),
    }
}

fn classify(runs: &[ChildResult]) -> (&'static str, Option<f64>) {
    let ext: Vec<Option<usize>> =
        runs.iter().map(|c| if c.done == "ok" || c.done == "err" { c.extent } else { None }).collect();
    let overflow: Vec<bool> = runs.iter().map(|c| c.done == "overflow").collect();
    let mut slope = None;
    if let (Some(a), Some(b)) = (ext[1], ext[2]) {
        slope = Some((b as f64 - a as f64) / (PROBES[2] - PROBES[1]) as f64);
    } else if let (Some(a), Some(b)) = (ext[0], ext[1]) {
        slope = Some((b as f64 - a as f64) / (PROBES[1] - PROBES[0]) as f64);
    }
    let inc = |i: usize| -> Option<bool> {
        // does the extent grow by a frame per element from probe i to probe i+1?
        match (ext[i], ext[i + 1], overflow[i + 1]) {
            (Some(a), Some(b), _) => Some(b >= a + MIN_FRAME * (PROBES[i + 1] - PROBES[i])),
            // the smaller one fits, the larger one does not even fit in 2 MiB
            (Some(_), None, true) => Some(true),
            _ => None,
        }
    };
    let growth = match (inc(0), inc(1)) {
        (Some(true), Some(true)) => "linear",
        (Some(false), Some(_)) | (Some(_), Some(false)) => "constant",
        // the smallest probe already overflows: more than 20 KiB per element
        _ if overflow[0] => "linear",
        (Some(true), None) if overflow[1] => "linear",
        _ => "unknown",
    };
    (growth, slope)
}

fn probes(bin: &PathBuf, site: &str, profile: &str) -> Probe {
    type Cell = Arc<OnceLock<Probe>>;
    static CACHE: OnceLock<Mutex<HashMap<(String, String), Cell>>> = OnceLock::new();
    let cell = {
        let mut m = CACHE.get_or_init(|| Mutex::new(HashMap::new())).lock().unwrap();
        m.entry((site.to_string(), profile.to_string())).or_default().clone()
    };
    cell.get_or_init(|| {
        let runs: Vec<ChildResult> = PROBES.iter().map(|n| run_child(bin, site, *n)).collect();
        let (growth, slope) = classify(&runs);
        Probe { runs, growth, slope }
    })
    .clone()
}

fn deadline_passed() -> bool {
    static START: OnceLock<Instant> = OnceLock::new();
    let t0 = *START.get_or_init(Instant::now);
    let limit: u64 = std::env::var("VH_C16_DEADLINE").ok().and_then(|s| s.parse().ok()).unwrap_or(5 * 3600);
    t0.elapsed() > Duration::from_secs(limit)
}

pub fn exec(line: &str) -> String {
    let f: Vec<&str> = line.split_whitespace().collect();
    match f.as_slice() {
        ["site", name, _n] => format!("site={}", name),
        ["run", site, size, profile] => {
            let Some(Ok(size)) = size.strip_prefix("n=").map(|x| x.parse::<usize>()) else { return "bad-op".into() };
            let Some(s) = sites::find(site) else { return "bad-op".into() };
            if *profile != "dev" && *profile != "release" {
                return "bad-op".into();
            }
            if deadline_passed() {
                return format!("site={} buildfail=0 completed=skipped", site);
            }
            let bin = match *profile {
                "dev" => match std::env::current_exe() {
                    Ok(p) => p,
                    Err(_) => return format!("site={} buildfail=1", site),
                },
                _ => match release_bin() {
                    Ok(p) => p.clone(),
                    Err(_) => return format!("site={} buildfail=1", site),
                },
            };
            let big = run_child(&bin, site, size);
            let pr = probes(&bin, site, profile);
            let mut out = format!("site={} buildfail=0", site);
            // `outcome` is what the property speaks about (the model demands `ok`); it is only printed
            // when the child's fate is a fact about the stack, not about time or memory
            let mut fail_overflow: Option<usize> = None;
            match big.done.as_str() {
                "ok" | "err" => {
                    out += " outcome=ok completed=yes";
                    let r: Option<u64> = big.result.parse().ok();
                    if big.done == "err" {
                        out += &format!(" result=err:{} work=err", big.result);
                    } else {
                        let least = (s.least)(size);
                        out += &format!(" result={}", big.result);
                        out += &match r {
                            Some(r) if r >= least => " work=ok".to_string(),
                            _ => format!(" work=short(<{})", least),
                        };
                    }
                }
                "panic" => out += " outcome=panic completed=yes",
                "overflow" => {
                    out += " outcome=abort completed=yes";
                    fail_overflow = Some(size);
                }
                other => out += &format!(" completed={}", other),
            }
            out += &format!(
                " ext1={} ext2={} ext3={} growth={}",
                ext_str(&pr.runs[0]),
                ext_str(&pr.runs[1]),
                ext_str(&pr.runs[2]),
                pr.growth
            );
            if let Some(sl) = pr.slope {
                out += &format!(" slope={:.1}", sl);
            }
            if pr.growth == "linear" {
                // escalation: the size at which the measured slope exhausts the stack
                if fail_overflow.is_none() && (big.done == "ok" || big.done == "err") {
                    let sl = pr.slope.unwrap_or(0.0).max(MIN_FRAME as f64);
                    let want = ((STACK as f64 * 1.25) / sl).ceil() as usize;
                    let n = want.clamp(PROBES[2], MAX_SIZE);
                    if n > size {
                        let esc = run_child(&bin, site, n);
                        out += &format!(" escalated={} escalated_done={}", n, esc.done);
                        if esc.done == "overflow" {
                            fail_overflow = Some(n);
                        }
                    }
                }
                out += &format!(" FAIL.stack_growth={}", site);
            }
            if let Some(n) = fail_overflow {
                out += &format!(" overflow_at={} FAIL.stack_overflow={}", n, site);
            }
            if big.done == "panic" {
                out += &format!(" FAIL.panic={}", site);
            }
            out
        }
        _ => "bad-op".into(),
    }
}

/// `exec` with several requests in flight (each one only waits for child processes); replies are
/// printed in request order
fn exec_parallel() {
    let lines: Vec<String> = std::io::stdin().lock().lines().map_while(Result::ok).collect();
    let jobs: usize = std::env::var("VH_C16_JOBS").ok().and_then(|s| s.parse().ok()).unwrap_or(6).max(1);
    let next = Arc::new(std::sync::atomic::AtomicUsize::new(0));
    let lines = Arc::new(lines);
    let (tx, rx) = std::sync::mpsc::channel::<(usize, String)>();
    let mut hs = vec![];
    for _ in 0..jobs.min(lines.len().max(1)) {
        let (next, lines, tx) = (next.clone(), lines.clone(), tx.clone());
        hs.push(std::thread::spawn(move || {
            loop {
                let i = next.fetch_add(1, std::sync::atomic::Ordering::SeqCst);
                if i >= lines.len() {
                    break;
                }
                let r = match vhcore::util::catch(std::panic::AssertUnwindSafe(|| exec(&lines[i]))) {
                    Ok(r) => r,
                    Err(m) => format!("panic={}", vhcore::util::hex(&m)),
                };
                if tx.send((i, r)).is_err() {
                    break;
                }
            }
        }));
    }
    drop(tx);
    let mut pending: HashMap<usize, String> = HashMap::new();
    let mut want = 0usize;
    let mut out = std::io::BufWriter::new(std::io::stdout());
    for (i, r) in rx {
        pending.insert(i, r);
        while let Some(r) = pending.remove(&want) {
            writeln!(out, "{}", r).unwrap();
            out.flush().unwrap();
            want += 1;
        }
    }
    for h in hs {
        let _ = h.join();
    }
}

// ------------------------------------------------------------------------------------------------
// child side

fn child_limits(cpu: u64) {
    unsafe {
        let rl = libc::rlimit { rlim_cur: 0, rlim_max: 0 };
        libc::setrlimit(libc::RLIMIT_CORE, &rl);
        if cpu > 0 {
            let rl = libc::rlimit { rlim_cur: cpu as libc::rlim_t, rlim_max: (cpu + 5) as libc::rlim_t };
            libc::setrlimit(libc::RLIMIT_CPU, &rl);
        }
    }
}

fn child(site: String, size: usize, cpu: u64) -> ! {
    child_limits(cpu);
    let Some(s) = sites::find(&site) else {
        println!("done=err result=unknown-site extent=unknown");
        std::process::exit(0)
    };
    let f = s.f;
    let h = std::thread::Builder::new()
        .stack_size(STACK)
        .spawn(move || {
            let marker = 0u8;
            let top = std::hint::black_box(&marker) as *const u8 as usize;
            probe::init(top);
            let r = f(size);
            let e = probe::extent();
            (r, e)
        })
        .expect("spawn");
    match h.join() {
        Ok((r, e)) => {
            let (done, result) = match r {
                Ok(n) => ("ok", n.to_string()),
                Err(k) => ("err", k),
            };
            println!("done={} result={} extent={}", done, result, e.map(|x| x.to_string()).unwrap_or_else(|| "unknown".into()));
            std::process::exit(0)
        }
        Err(_) => {
            println!("done=panic");
            std::process::exit(0)
        }
    }
}

fn main() {
    let args: Vec<String> = std::env::args().collect();
    match args.get(1).map(|s| s.as_str()) {
        Some("child") => {
            let site = args.get(2).cloned().unwrap_or_default();
            let size = args.get(3).and_then(|s| s.parse().ok()).unwrap_or(0);
            let cpu = args.get(4).and_then(|s| s.parse().ok()).unwrap_or(0);
            child(site, size, cpu);
        }
        Some("exec") => {
            std::panic::set_hook(Box::new(|_| {}));
            exec_parallel();
        }
        _ => vhcore::main_loop(generate, exec),
    }
}
