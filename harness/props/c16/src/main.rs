//! C16 — stack use does not grow with the amount of data processed.
//!
//! requests:
//!   run <site> <size> <profile>     profile = dev | release
//!   site <name> <n>                 model-only request (class / predicted depth); echoed here
//!
//! `exec` never runs an operation in-process: for every `run` request it re-executes ITSELF
//! (`std::env::current_exe()`, hidden sub-command `child <site> <size>`) three times — once at
//! `<size>` (does the operation complete on a 2 MiB stack?) and once at each of the two probe sizes
//! (how deep did the stack get?).  The child runs the REAL operation on a thread created with
//! `std::thread::Builder::new().stack_size(2 MiB)`, prints one line and exits 0; a child killed by
//! SIGSEGV/SIGABRT (Rust's stack-overflow handler aborts) or exiting non-zero is `outcome=abort`.
//! Core dumps are disabled in the child (RLIMIT_CORE = 0) before anything else happens.
//!
//! Stack extent: the thread entry records the address of a local; after the operation the child asks
//! the kernel (`mincore`) which pages of its own stack mapping below that address have ever been
//! touched; the distance to the lowest touched page is the high-water mark (4 KiB granularity, THP
//! disabled for the child so that a touched page never drags 2 MiB in).  growth = linear iff the
//! extent grows by at least 16 bytes (the smallest possible x86-64 call frame) per additional element.
use std::io::Read as _;
use std::path::PathBuf;
use std::process::{Command, Stdio};
use std::sync::OnceLock;
use std::time::{Duration, Instant};

use sophia_api::MownStr;
use sophia_api::prelude::*;
use sophia_api::quad::Spog;
use sophia_api::term::{BnodeId, SimpleTerm};
use sophia_inmem::dataset::LightDataset;
use sophia_inmem::graph::LightGraph;
use sophia_iri::IriRef;
use vhcore::GenCtx;

const STACK: usize = 2 * 1024 * 1024;
pub const PROBE_SMALL: usize = 100;
pub const PROBE_LARGE: usize = 1000;
const PAGE: usize = 4096;

/// (site, cap on the size requested in the quick tier, cap in the thorough tier)
/// Pretty Turtle is quadratic in the number of list cells / subjects (`list_item` and
/// `write_properties` scan the whole BTreeSet per node), so its sizes are capped to keep the check's
/// running time bounded; that is a time limit of the check, not a statement about the stack.
pub const SITES: &[(&str, usize, usize)] = &[
    ("iter_gspo_first", usize::MAX, usize::MAX),
    ("iter_gspo_last", usize::MAX, usize::MAX),
    ("iter_bcd_first", usize::MAX, usize::MAX),
    ("iter_bcd_last", usize::MAX, usize::MAX),
    ("iter_cd_first", usize::MAX, usize::MAX),
    ("iter_cd_last", usize::MAX, usize::MAX),
    ("iter_spo_first", usize::MAX, usize::MAX),
    ("iter_spo_last", usize::MAX, usize::MAX),
    ("iter_bc_first", usize::MAX, usize::MAX),
    ("iter_bc_last", usize::MAX, usize::MAX),
    ("nt_literal", usize::MAX, usize::MAX),
    ("c14n_literal", usize::MAX, usize::MAX),
    ("sparql_graph", usize::MAX, usize::MAX),
    ("sparql_bgp", usize::MAX, usize::MAX),
    ("jsonld_list", usize::MAX, usize::MAX),
    ("turtle_list", 1500, 4000),
    ("turtle_subjects", 1500, 4000),
    ("turtle_objects", usize::MAX, usize::MAX),
    ("parse_nt", usize::MAX, usize::MAX),
    ("parse_turtle", usize::MAX, usize::MAX),
];

pub fn generate(ctx: &mut GenCtx) {
    // quick: the size of the earlier probe; thorough: the quantifier's range 10^3 .. 10^6
    let sizes: &[usize] = if ctx.thorough { &[1_000, 10_000, 100_000, 200_000, 1_000_000] } else { &[200_000] };
    for (site, qcap, tcap) in SITES {
        let cap = if ctx.thorough { *tcap } else { *qcap };
        let mut seen: Vec<usize> = vec![];
        for &sz in sizes {
            let sz = sz.min(cap);
            if seen.iter().any(|x: &usize| *x == sz) {
                continue;
            }
            seen.push(sz);
            ctx.emit(&format!("run {} {} dev", site, sz));
            ctx.stats.bump(&format!("site.{}", site));
            ctx.stats.bump("profile.dev");
            ctx.stats.bump(&format!("size.{}", sz));
        }
        if ctx.thorough {
            let (a, b) = (200_000usize.min(cap), 1_000_000usize.min(cap));
            for sz in if a == b { vec![a] } else { vec![a, b] } {
                ctx.emit(&format!("run {} {} release", site, sz));
                ctx.stats.bump("profile.release");
            }
        }
        ctx.emit(&format!("site {} {}", site, PROBE_LARGE));
        ctx.stats.bump("model-only");
    }
}

// ------------------------------------------------------------------------------------------------
// parent side

struct ChildResult {
    /// "ok" | "err" | "panic" | "abort" | "timeout"
    done: String,
    result: String,
    extent: Option<usize>,
}

fn run_child(bin: &PathBuf, site: &str, size: usize, timeout: Duration) -> ChildResult {
    let fail = |d: &str| ChildResult { done: d.to_string(), result: "-".into(), extent: None };
    let child = Command::new(bin)
        .arg("child")
        .arg(site)
        .arg(size.to_string())
        .stdin(Stdio::null())
        .stdout(Stdio::piped())
        .stderr(Stdio::null())
        .spawn();
    let Ok(mut child) = child else { return fail("spawn-failed") };
    let t0 = Instant::now();
    let status = loop {
        match child.try_wait() {
            Ok(Some(st)) => break st,
            Ok(None) => {
                if t0.elapsed() > timeout {
                    let _ = child.kill();
                    let _ = child.wait();
                    return fail("timeout");
                }
                std::thread::sleep(Duration::from_millis(5));
            }
            Err(_) => return fail("wait-failed"),
        }
    };
    let mut out = String::new();
    if let Some(mut so) = child.stdout.take() {
        let _ = so.read_to_string(&mut out);
    }
    if !status.success() {
        // killed by a signal (SIGSEGV from the guard page, SIGABRT from Rust's overflow handler) or
        // non-zero exit
        return fail("abort");
    }
    let mut r = ChildResult { done: "abort".into(), result: "-".into(), extent: None };
    for tok in out.split_whitespace() {
        if let Some((k, v)) = tok.split_once('=') {
            match k {
                "done" => r.done = v.to_string(),
                "result" => r.result = v.to_string(),
                "extent" => r.extent = v.parse().ok(),
                _ => {}
            }
        }
    }
    r
}

fn crate_dir() -> PathBuf {
    // the standalone crate harness/props/c16 (config in harness/.cargo/config.toml applies)
    PathBuf::from(env!("CARGO_MANIFEST_DIR"))
}

/// the release variant of this very binary, built on demand against /repo's current working tree
/// (shared target dir; cargo decides what is stale)
fn release_bin() -> &'static Result<PathBuf, String> {
    static BIN: OnceLock<Result<PathBuf, String>> = OnceLock::new();
    BIN.get_or_init(|| {
        let me = std::env::current_exe().map_err(|e| e.to_string())?;
        let target = me.parent().and_then(|p| p.parent()).ok_or("no target dir")?.to_path_buf();
        let st = Command::new("cargo")
            .args(["build", "--release", "--offline"])
            .current_dir(crate_dir())
            .stdin(Stdio::null())
            .stdout(Stdio::null())
            .stderr(Stdio::null())
            .status()
            .map_err(|e| e.to_string())?;
        if !st.success() {
            return Err("cargo build --release failed".into());
        }
        let p = target.join("release").join("vh-c16");
        if p.exists() { Ok(p) } else { Err("release binary missing".into()) }
    })
}

pub fn exec(line: &str) -> String {
    let f: Vec<&str> = line.split_whitespace().collect();
    match f.as_slice() {
        ["site", name, _n] => format!("site={}", name),
        ["run", site, size, profile] => {
            let Ok(size) = size.parse::<usize>() else { return "bad-op".into() };
            if !SITES.iter().any(|(s, _, _)| s == site) {
                return "bad-op".into();
            }
            let bin = match *profile {
                "dev" => match std::env::current_exe() {
                    Ok(p) => p,
                    Err(_) => return "buildfail=1".into(),
                },
                "release" => match release_bin() {
                    Ok(p) => p.clone(),
                    Err(_) => return format!("site={} buildfail=1", site),
                },
                _ => return "bad-op".into(),
            };
            let big_timeout = Duration::from_secs(if size > 200_000 { 900 } else { 240 });
            let big = run_child(&bin, site, size, big_timeout);
            let small = run_child(&bin, site, PROBE_SMALL, Duration::from_secs(120));
            let large = run_child(&bin, site, PROBE_LARGE, Duration::from_secs(120));
            let outcome = match big.done.as_str() {
                "ok" | "err" => "ok",
                "panic" => "panic",
                "timeout" => "timeout",
                _ => "abort",
            };
            let ext = |c: &ChildResult| match (c.done.as_str(), c.extent) {
                ("ok", Some(e)) | ("err", Some(e)) => e.to_string(),
                ("abort", _) => "overflow".to_string(),
                _ => "unknown".to_string(),
            };
            let growth = match (small.done.as_str(), small.extent, large.done.as_str(), large.extent) {
                (_, Some(a), _, Some(b)) => {
                    if b >= a + 16 * (PROBE_LARGE - PROBE_SMALL) { "linear" } else { "constant" }
                }
                // already the probe size does not fit in 2 MiB although the small one does
                ("ok", Some(_), "abort", _) => "linear",
                _ => "unknown",
            };
            let mut out = format!("site={} buildfail=0 outcome={}", site, outcome);
            // the result exists only when the operation came back
            match big.done.as_str() {
                "ok" => out += &format!(" result={}", big.result),
                "err" => out += &format!(" result=err:{}", big.result),
                _ => {}
            }
            out += &format!(" extent_small={} extent_large={} growth={}", ext(&small), ext(&large), growth);
            match outcome {
                "abort" => out += &format!(" FAIL.stack_overflow={}", site),
                "panic" => out += &format!(" FAIL.panic={}", site),
                "timeout" => out += &format!(" FAIL.timeout={}", site),
                _ => {}
            }
            out
        }
        _ => "bad-op".into(),
    }
}

// ------------------------------------------------------------------------------------------------
// child side

fn no_core_dumps_no_thp() {
    unsafe {
        let rl = libc::rlimit { rlim_cur: 0, rlim_max: 0 };
        libc::setrlimit(libc::RLIMIT_CORE, &rl);
        libc::prctl(libc::PR_SET_THP_DISABLE, 1 as libc::c_ulong, 0 as libc::c_ulong, 0 as libc::c_ulong, 0 as libc::c_ulong);
    }
}

static STACK_LO: std::sync::atomic::AtomicUsize = std::sync::atomic::AtomicUsize::new(0);
static STACK_TOP: std::sync::atomic::AtomicUsize = std::sync::atomic::AtomicUsize::new(0);

/// lowest address of this thread's stack that the probes look at; `top` is the address of a local of
/// the thread's entry function
fn stack_bounds(top: usize) -> Option<usize> {
    let maps = std::fs::read_to_string("/proc/self/maps").ok()?;
    let mut start = None;
    for l in maps.lines() {
        let range = l.split_whitespace().next()?;
        let (a, b) = range.split_once('-')?;
        let a = usize::from_str_radix(a, 16).ok()?;
        let b = usize::from_str_radix(b, 16).ok()?;
        if a <= top && top < b {
            start = Some(a);
            break;
        }
    }
    let start = start?;
    let top_page_end = (top / PAGE + 1) * PAGE;
    // never look further down than the stack can reach (the mapping may have been merged with a
    // neighbour): the last 64 KiB before the guard page are left out
    Some(start.max(top_page_end.saturating_sub(STACK - 64 * 1024)))
}

/// distance from the thread entry down to the lowest page of this thread's stack that has been
/// touched since the last `stack_reset`
fn stack_extent() -> Option<usize> {
    use std::sync::atomic::Ordering::Relaxed;
    let (lo, top) = (STACK_LO.load(Relaxed), STACK_TOP.load(Relaxed));
    if lo == 0 {
        return None;
    }
    let top_page_end = (top / PAGE + 1) * PAGE;
    let n = (top_page_end - lo) / PAGE;
    let mut vec = vec![0u8; n];
    let rc = unsafe { libc::mincore(lo as *mut libc::c_void, n * PAGE, vec.as_mut_ptr()) };
    if rc != 0 {
        return None;
    }
    let first = vec.iter().position(|b| b & 1 == 1)?;
    Some(top.saturating_sub(lo + first * PAGE))
}

/// forget which stack pages *below the caller* were touched so far (building the input data is not
/// part of the measured operation): the pages strictly below this frame hold no live data and are
/// handed back to the kernel; they read as zero pages when touched again.
#[inline(never)]
fn stack_reset() {
    use std::sync::atomic::Ordering::Relaxed;
    let marker = 0u8;
    let here = std::hint::black_box(&marker) as *const u8 as usize;
    let lo = STACK_LO.load(Relaxed);
    let hi = (here / PAGE) * PAGE - PAGE;
    if lo != 0 && hi > lo {
        unsafe {
            libc::madvise(lo as *mut libc::c_void, hi - lo, libc::MADV_DONTNEED);
        }
    }
}

fn child(site: String, size: usize) -> ! {
    no_core_dumps_no_thp();
    let h = std::thread::Builder::new()
        .stack_size(STACK)
        .spawn(move || {
            let marker = 0u8;
            let top = std::hint::black_box(&marker) as *const u8 as usize;
            if let Some(lo) = stack_bounds(top) {
                STACK_LO.store(lo, std::sync::atomic::Ordering::Relaxed);
                STACK_TOP.store(top, std::sync::atomic::Ordering::Relaxed);
            }
            let r = run_site(&site, size);
            let e = stack_extent();
            (r, e)
        })
        .expect("spawn");
    match h.join() {
        Ok((r, e)) => {
            let (done, result) = match r {
                Ok(n) => ("ok", n.to_string()),
                Err(k) => ("err", k),
            };
            println!(
                "done={} result={} extent={}",
                done,
                result,
                e.map(|x| x.to_string()).unwrap_or_else(|| "unknown".into())
            );
            std::process::exit(0)
        }
        Err(_) => {
            println!("done=panic");
            std::process::exit(0)
        }
    }
}

fn iri(s: String) -> SimpleTerm<'static> {
    SimpleTerm::Iri(IriRef::new_unchecked(MownStr::from(s)))
}
fn bn(s: String) -> SimpleTerm<'static> {
    SimpleTerm::BlankNode(BnodeId::new_unchecked(MownStr::from(s)))
}
fn lit(s: String) -> SimpleTerm<'static> {
    SimpleTerm::LiteralDatatype(
        MownStr::from(s),
        IriRef::new_unchecked(MownStr::from("http://www.w3.org/2001/XMLSchema#string".to_string())),
    )
}
const RDF: &str = "http://www.w3.org/1999/02/22-rdf-syntax-ns#";

fn is_match(t: &SimpleTerm<'_>) -> bool {
    matches!(t, SimpleTerm::Iri(i) if i.as_str() == "x:match")
}

/// which position varies over the `size` non-matching rows (and carries the closure matcher)
#[derive(Clone, Copy, PartialEq)]
enum Pos {
    S,
    P,
    O,
}

fn row(pos: Pos, x: SimpleTerm<'static>) -> [SimpleTerm<'static>; 3] {
    let (s, p, o) = (iri("x:s".into()), iri("x:p".into()), iri("x:o".into()));
    match pos {
        Pos::S => [x, p, o],
        Pos::P => [s, x, o],
        Pos::O => [s, p, x],
    }
}

/// `size` rows that the closure rejects, then (in index order: terms are numbered in insertion
/// order) one row that it accepts — so the scan skips `size` rows before its first result
fn build_dataset(pos: Pos, size: usize) -> LightDataset {
    let mut d = LightDataset::new();
    // make sure the constant positions get the smallest indexes
    for i in 0..size {
        let [s, p, o] = row(pos, iri(format!("x:n{}", i)));
        d.insert(s, p, o, None::<SimpleTerm>).unwrap();
    }
    let [s, p, o] = row(pos, iri("x:match".into()));
    d.insert(s, p, o, None::<SimpleTerm>).unwrap();
    d
}

fn build_graph(pos: Pos, size: usize) -> LightGraph {
    let mut g = LightGraph::new();
    for i in 0..size {
        let [s, p, o] = row(pos, iri(format!("x:n{}", i)));
        g.insert(s, p, o).unwrap();
    }
    let [s, p, o] = row(pos, iri("x:match".into()));
    g.insert(s, p, o).unwrap();
    g
}

fn list_quads(size: usize) -> Vec<Spog<SimpleTerm<'static>>> {
    let mut v = vec![];
    let first = iri(format!("{}first", RDF));
    let rest = iri(format!("{}rest", RDF));
    let nil = iri(format!("{}nil", RDF));
    v.push(([iri("x:s".into()), iri("x:p".into()), bn("b0".into())], None));
    for i in 0..size {
        v.push(([bn(format!("b{}", i)), first.clone(), lit(format!("v{}", i))], None));
        let next = if i + 1 == size { nil.clone() } else { bn(format!("b{}", i + 1)) };
        v.push(([bn(format!("b{}", i)), rest.clone(), next], None));
    }
    v
}

fn count_sub(hay: &str, needle: &str) -> u64 {
    hay.matches(needle).count() as u64
}

// ---- GenericLightDataset::quads_matching: no constant graph name -> GspoMatchingIterator
#[inline(never)]
fn site_iter_gspo_first(size: usize) -> Result<u64, String> {
    use sophia_api::term::matcher::Any;
    let clo = |t: SimpleTerm<'_>| is_match(&t);
    let d = build_dataset(Pos::S, size);
    stack_reset();
    Ok(d.quads_matching(clo, Any, Any, Any).filter(|r| r.is_ok()).count() as u64)
}

#[inline(never)]
fn site_iter_gspo_last(size: usize) -> Result<u64, String> {
    use sophia_api::term::matcher::Any;
    let clo = |t: SimpleTerm<'_>| is_match(&t);
    let d = build_dataset(Pos::O, size);
    stack_reset();
    Ok(d.quads_matching(Any, Any, clo, Any).filter(|r| r.is_ok()).count() as u64)
}

// ---- constant graph name, subject not constant -> BcdMatchingIterator
#[inline(never)]
fn site_iter_bcd_first(size: usize) -> Result<u64, String> {
    use sophia_api::term::matcher::Any;
    let clo = |t: SimpleTerm<'_>| is_match(&t);
    let dg = [None::<SimpleTerm<'static>>];
    let d = build_dataset(Pos::S, size);
    stack_reset();
    Ok(d.quads_matching(clo, Any, Any, dg).filter(|r| r.is_ok()).count() as u64)
}

#[inline(never)]
fn site_iter_bcd_last(size: usize) -> Result<u64, String> {
    use sophia_api::term::matcher::Any;
    let clo = |t: SimpleTerm<'_>| is_match(&t);
    let dg = [None::<SimpleTerm<'static>>];
    let d = build_dataset(Pos::O, size);
    stack_reset();
    Ok(d.quads_matching(Any, Any, clo, dg).filter(|r| r.is_ok()).count() as u64)
}

// ---- constant graph name and subject, predicate not constant -> CdMatchingIterator
#[inline(never)]
fn site_iter_cd_first(size: usize) -> Result<u64, String> {
    use sophia_api::term::matcher::Any;
    let clo = |t: SimpleTerm<'_>| is_match(&t);
    let dg = [None::<SimpleTerm<'static>>];
    let d = build_dataset(Pos::P, size);
    stack_reset();
    Ok(d.quads_matching([iri("x:s".into())], clo, Any, dg).filter(|r| r.is_ok()).count() as u64)
}

#[inline(never)]
fn site_iter_cd_last(size: usize) -> Result<u64, String> {
    use sophia_api::term::matcher::Any;
    let clo = |t: SimpleTerm<'_>| is_match(&t);
    let dg = [None::<SimpleTerm<'static>>];
    let d = build_dataset(Pos::O, size);
    stack_reset();
    Ok(d.quads_matching([iri("x:s".into())], Any, clo, dg).filter(|r| r.is_ok()).count() as u64)
}

// ---- GenericLightGraph::triples_matching: subject not constant -> SpoMatchingIterator
#[inline(never)]
fn site_iter_spo_first(size: usize) -> Result<u64, String> {
    use sophia_api::term::matcher::Any;
    let clo = |t: SimpleTerm<'_>| is_match(&t);
    let g = build_graph(Pos::S, size);
    stack_reset();
    Ok(g.triples_matching(clo, Any, Any).filter(|r| r.is_ok()).count() as u64)
}

#[inline(never)]
fn site_iter_spo_last(size: usize) -> Result<u64, String> {
    use sophia_api::term::matcher::Any;
    let clo = |t: SimpleTerm<'_>| is_match(&t);
    let g = build_graph(Pos::O, size);
    stack_reset();
    Ok(g.triples_matching(Any, Any, clo).filter(|r| r.is_ok()).count() as u64)
}

// ---- constant subject, predicate not constant -> BcMatchingIterator
#[inline(never)]
fn site_iter_bc_first(size: usize) -> Result<u64, String> {
    use sophia_api::term::matcher::Any;
    let clo = |t: SimpleTerm<'_>| is_match(&t);
    let g = build_graph(Pos::P, size);
    stack_reset();
    Ok(g.triples_matching([iri("x:s".into())], clo, Any).filter(|r| r.is_ok()).count() as u64)
}

#[inline(never)]
fn site_iter_bc_last(size: usize) -> Result<u64, String> {
    use sophia_api::term::matcher::Any;
    let clo = |t: SimpleTerm<'_>| is_match(&t);
    let g = build_graph(Pos::O, size);
    stack_reset();
    Ok(g.triples_matching([iri("x:s".into())], Any, clo).filter(|r| r.is_ok()).count() as u64)
}

// ---- N-Triples serialisation of one literal with `size` escaped characters
#[inline(never)]
fn site_nt_literal(size: usize) -> Result<u64, String> {
    use sophia_turtle::serializer::nt::NtSerializer;
    let g = vec![[iri("x:s".into()), iri("x:p".into()), lit("\n".repeat(size))]];
    let mut ser = NtSerializer::new_stringifier();
    stack_reset();
    match ser.serialize_graph(&g) {
        Ok(s) => Ok(s.as_utf8().iter().filter(|b| **b == b'\\').count() as u64),
        Err(_) => Err("sink".into()),
    }
}

// ---- RDFC-1.0 of one quad whose literal has `size` escaped characters (c14n::_cnq::nq)
#[inline(never)]
fn site_c14n_literal(size: usize) -> Result<u64, String> {
    let mut d = LightDataset::new();
    d.insert(iri("x:s".into()), iri("x:p".into()), lit("\n".repeat(size)), None::<SimpleTerm>).unwrap();
    let mut out = Vec::new();
    stack_reset();
    match sophia_c14n::rdfc10::normalize(&d, &mut out) {
        Ok(()) => Ok(out.iter().filter(|b| **b == b'\\').count() as u64),
        Err(_) => Err("c14n".into()),
    }
}

// ---- GRAPH ?g over `size` named graphs (sparql::exec::graph_rec)
#[inline(never)]
fn site_sparql_graph(size: usize) -> Result<u64, String> {
    use sophia_api::sparql::Query as _;
    use sophia_sparql::{SparqlQuery, SparqlWrapper};
    let mut d = LightDataset::new();
    for i in 0..size {
        d.insert(iri("x:s".into()), iri("x:p".into()), iri("x:o".into()), Some(iri(format!("x:g{}", i)))).unwrap();
    }
    let w = SparqlWrapper(&d);
    let q = SparqlQuery::parse("SELECT ?g { GRAPH ?g { ?s ?p ?o } }").map_err(|_| "parse".to_string())?;
    stack_reset();
    match w.query(&q) {
        Ok(r) => Ok(r.into_bindings().into_iter().filter(|b| b.is_ok()).count() as u64),
        Err(_) => Err("query".into()),
    }
}

// ---- a two-pattern BGP over `size` rows (sparql::bgp::bgp_rec recurses per *pattern*)
#[inline(never)]
fn site_sparql_bgp(size: usize) -> Result<u64, String> {
    use sophia_api::sparql::Query as _;
    use sophia_sparql::{SparqlQuery, SparqlWrapper};
    let d = build_dataset(Pos::S, size);
    let w = SparqlWrapper(&d);
    let q = SparqlQuery::parse("SELECT ?s { ?s <x:p> ?o . ?s <x:p> <x:o> }").map_err(|_| "parse".to_string())?;
    stack_reset();
    match w.query(&q) {
        Ok(r) => Ok(r.into_bindings().into_iter().filter(|b| b.is_ok()).count() as u64 - 1),
        Err(_) => Err("query".into()),
    }
}

// ---- JSON-LD serialisation of one RDF list with `size` items (mark_list_node, populate_list)
#[inline(never)]
fn site_jsonld_list(size: usize) -> Result<u64, String> {
    use sophia_jsonld::serializer::JsonLdSerializer;
    let d = list_quads(size);
    let mut ser = JsonLdSerializer::new_stringifier();
    stack_reset();
    match ser.serialize_dataset(&d) {
        Ok(s) => Ok(count_sub(s.as_str(), "\"@value\"")),
        Err(_) => Err("jsonld".into()),
    }
}

// ---- pretty Turtle of one RDF list with `size` items
#[inline(never)]
fn site_turtle_list(size: usize) -> Result<u64, String> {
    use sophia_turtle::serializer::turtle::{TurtleConfig, TurtleSerializer};
    let d = list_quads(size);
    let g: Vec<[SimpleTerm<'static>; 3]> = d.into_iter().map(|(t, _)| t).collect();
    let mut ser = TurtleSerializer::new_stringifier_with_config(TurtleConfig::new().with_pretty(true));
    stack_reset();
    match ser.serialize_graph(&g) {
        Ok(s) => Ok(count_sub(s.as_str(), "\"v")),
        Err(_) => Err("turtle".into()),
    }
}

// ---- pretty Turtle of `size` subjects (find_subject: binary search by recursion)
#[inline(never)]
fn site_turtle_subjects(size: usize) -> Result<u64, String> {
    use sophia_turtle::serializer::turtle::{TurtleConfig, TurtleSerializer};
    let g: Vec<[SimpleTerm<'static>; 3]> =
        (0..size).map(|i| [iri(format!("x:n{}", i)), iri("x:p".into()), bn(format!("b{}", i))]).collect();
    let mut ser = TurtleSerializer::new_stringifier_with_config(TurtleConfig::new().with_pretty(true));
    stack_reset();
    match ser.serialize_graph(&g) {
        Ok(s) => Ok(count_sub(s.as_str(), "<x:p>")),
        Err(_) => Err("turtle".into()),
    }
}

// pretty Turtle of one subject with `size` objects (DedupIterator skips size-1 duplicates)
#[inline(never)]
fn site_turtle_objects(size: usize) -> Result<u64, String> {
    use sophia_turtle::serializer::turtle::{TurtleConfig, TurtleSerializer};
    let g: Vec<[SimpleTerm<'static>; 3]> =
        (0..size).map(|i| [iri("x:s".into()), iri("x:p".into()), iri(format!("x:n{}", i))]).collect();
    let mut ser = TurtleSerializer::new_stringifier_with_config(TurtleConfig::new().with_pretty(true));
    stack_reset();
    match ser.serialize_graph(&g) {
        Ok(s) => Ok(count_sub(s.as_str(), "<x:n")),
        Err(_) => Err("turtle".into()),
    }
}

// ---- parsing a document of `size` statements (+ inserting them: the "mutating" dimension)
#[inline(never)]
fn site_parse_nt(size: usize) -> Result<u64, String> {
    let mut doc = String::new();
    for i in 0..size {
        doc.push_str(&format!("<x:n{}> <x:p> \"v{}\\n\" .\n", i, i));
    }
    let mut g = LightGraph::new();
    stack_reset();
    match sophia_turtle::parser::nt::parse_str(&doc).add_to_graph(&mut g) {
        Ok(n) => Ok(n as u64),
        Err(_) => Err("parse".into()),
    }
}

#[inline(never)]
fn site_parse_turtle(size: usize) -> Result<u64, String> {
    let mut doc = String::from("@prefix x: <x:> .\n");
    for i in 0..size {
        doc.push_str(&format!("x:n{} x:p \"v{}\\n\" ;\n  x:q [ x:r ( {} ) ] .\n", i, i, i));
    }
    let mut g = LightGraph::new();
    stack_reset();
    match sophia_turtle::parser::turtle::parse_str(&doc).add_to_graph(&mut g) {
        Ok(n) => Ok((n / 5) as u64),
        Err(_) => Err("parse".into()),
    }
}

/// the real operation; Ok(canonical result) or Err(error kind).  One function per site so that the
/// dispatcher's own frame stays small (dev builds give every local of every arm its own slot).
#[inline(never)]
fn run_site(site: &str, size: usize) -> Result<u64, String> {
    match site {
        "iter_gspo_first" => site_iter_gspo_first(size),
        "iter_gspo_last" => site_iter_gspo_last(size),
        "iter_bcd_first" => site_iter_bcd_first(size),
        "iter_bcd_last" => site_iter_bcd_last(size),
        "iter_cd_first" => site_iter_cd_first(size),
        "iter_cd_last" => site_iter_cd_last(size),
        "iter_spo_first" => site_iter_spo_first(size),
        "iter_spo_last" => site_iter_spo_last(size),
        "iter_bc_first" => site_iter_bc_first(size),
        "iter_bc_last" => site_iter_bc_last(size),
        "nt_literal" => site_nt_literal(size),
        "c14n_literal" => site_c14n_literal(size),
        "sparql_graph" => site_sparql_graph(size),
        "sparql_bgp" => site_sparql_bgp(size),
        "jsonld_list" => site_jsonld_list(size),
        "turtle_list" => site_turtle_list(size),
        "turtle_subjects" => site_turtle_subjects(size),
        "turtle_objects" => site_turtle_objects(size),
        "parse_nt" => site_parse_nt(size),
        "parse_turtle" => site_parse_turtle(size),
        _ => Err("unknown-site".into()),
    }
}

fn main() {
    let args: Vec<String> = std::env::args().collect();
    if args.get(1).map(|s| s.as_str()) == Some("child") {
        let site = args.get(2).cloned().unwrap_or_default();
        let size = args.get(3).and_then(|s| s.parse().ok()).unwrap_or(0);
        child(site, size);
    }
    vhcore::main_loop(generate, exec)
}
