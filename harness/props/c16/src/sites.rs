//! The real operations of /repo, one `#[inline(never)]` function per site.  Every function builds its
//! input (not measured), calls `probe::paint()` and then runs ONE operation of /repo whose input has
//! `size` elements along exactly one size dimension of the property (rows skipped, characters
//! escaped, named graphs, list items, statements, matcher constants); nesting stays constant.
//! Ok(canonical amount of work done) or Err(error kind).
use sophia_api::MownStr;
use sophia_api::prelude::*;
use sophia_api::quad::Spog;
use sophia_api::term::matcher::Any;
use sophia_api::term::{BnodeId, GraphName, SimpleTerm};
use sophia_inmem::dataset::{FastDataset, LightDataset};
use sophia_inmem::graph::{FastGraph, LightGraph};
use sophia_iri::IriRef;

use crate::probe::paint;

pub type SiteFn = fn(usize) -> Result<u64, String>;

pub struct Site {
    pub name: &'static str,
    pub f: SiteFn,
    /// cap on the requested size, quick / thorough tier (usize::MAX = none).  Only operations whose
    /// running TIME is quadratic (or, jsonld_graphs, whose memory reaches several GB) are capped; that is a time limit of the check, not a statement about
    /// the stack (the growth probe and the escalation run still apply).
    pub qcap: usize,
    pub tcap: usize,
    /// the size dimension of the property's quantifier this site varies
    pub dim: &'static str,
    /// what of /repo is entered (counter in the stats)
    pub entry: &'static str,
    /// least canonical result that shows the operation processed all `size` elements
    pub least: fn(usize) -> u64,
}

const NOCAP: usize = usize::MAX;

fn all(n: usize) -> u64 {
    n as u64
}
fn one(_: usize) -> u64 {
    1
}

macro_rules! site {
    ($name:literal, $f:ident, $q:expr, $t:expr, $dim:literal, $entry:literal, $least:ident) => {
        Site { name: $name, f: $f, qcap: $q, tcap: $t, dim: $dim, entry: $entry, least: $least }
    };
}

/// heavy sites first (better packing of the parallel workers)
pub const SITES: &[Site] = &[
    site!("parse_turtle", site_parse_turtle, NOCAP, NOCAP, "statements", "parse.turtle+insert", all),
    site!("sparql_graph", site_sparql_graph, NOCAP, NOCAP, "named-graphs", "sparql.graph", all),
    site!("turtle_objects", site_turtle_objects, NOCAP, NOCAP, "statements", "ser.turtle-pretty", all),
    site!("parse_trig", site_parse_trig, NOCAP, NOCAP, "named-graphs", "parse.trig+insert", all),
    site!("sparql_ops", site_sparql_ops, NOCAP, NOCAP, "rows", "sparql.union-filter-extend-distinct-slice", all),
    site!("sparql_orderby", site_sparql_orderby, NOCAP, NOCAP, "rows", "sparql.order_by", all),
    site!("sparql_bgp", site_sparql_bgp, NOCAP, NOCAP, "rows", "sparql.bgp", all),
    site!("sparql_filter", site_sparql_filter, NOCAP, NOCAP, "rows-skipped", "sparql.filter", one),
    site!("sparql_exists", site_sparql_exists, NOCAP, NOCAP, "rows", "sparql.filter-exists", all),
    site!("jsonld_list", site_jsonld_list, NOCAP, NOCAP, "list-items", "ser.jsonld", all),
    site!("jsonld_graphs", site_jsonld_graphs, NOCAP, 300_000, "named-graphs", "ser.jsonld", all),
    site!("jsonld_nodes", site_jsonld_nodes, 20_000, 60_000, "statements", "ser.jsonld", all),
    site!("jsonld_chain", site_jsonld_chain, NOCAP, NOCAP, "statements", "ser.jsonld", all),
    site!("jsonld_lists", site_jsonld_lists, 40_000, 100_000, "statements", "ser.jsonld", all),
    site!("parse_jsonld", site_parse_jsonld, 20_000, 100_000, "statements", "parse.jsonld", all),
    site!("parse_jsonld_list", site_parse_jsonld_list, 20_000, 100_000, "list-items", "parse.jsonld", all),
    site!("parse_nt", site_parse_nt, NOCAP, NOCAP, "statements", "parse.nt+insert", all),
    site!("parse_nq", site_parse_nq, NOCAP, NOCAP, "statements", "parse.nq+insert", all),
    site!("parse_turtle_list", site_parse_turtle_list, NOCAP, NOCAP, "list-items", "parse.turtle+insert", all),
    site!("parse_turtle_objects", site_parse_turtle_objects, NOCAP, NOCAP, "statements", "parse.turtle+insert", all),
    site!("parse_rdfxml", site_parse_rdfxml, NOCAP, NOCAP, "statements", "parse.rdfxml+insert", all),
    site!("rdfxml_ser", site_rdfxml_ser, NOCAP, NOCAP, "statements", "ser.rdfxml", all),
    site!("mut_remove_ds", site_mut_remove_ds, NOCAP, NOCAP, "rows-skipped", "mutate.remove_matching", one),
    site!("mut_retain_ds", site_mut_retain_ds, NOCAP, NOCAP, "rows", "mutate.retain_matching", all),
    site!("mut_remove_g", site_mut_remove_g, NOCAP, NOCAP, "rows", "mutate.remove_matching", all),
    site!("mut_fast_ds", site_mut_fast_ds, NOCAP, NOCAP, "rows", "mutate.insert+remove_matching", all),
    site!("iter_gspo_g", site_iter_gspo_g, NOCAP, NOCAP, "rows-skipped", "iter.gspo.g", one),
    site!("iter_gspo_first", site_iter_gspo_first, NOCAP, NOCAP, "rows-skipped", "iter.gspo.s", one),
    site!("iter_gspo_p", site_iter_gspo_p, NOCAP, NOCAP, "rows-skipped", "iter.gspo.p", one),
    site!("iter_gspo_last", site_iter_gspo_last, NOCAP, NOCAP, "rows-skipped", "iter.gspo.o", one),
    site!("iter_bcd_first", site_iter_bcd_first, NOCAP, NOCAP, "rows-skipped", "iter.bcd.b", one),
    site!("iter_bcd_p", site_iter_bcd_p, NOCAP, NOCAP, "rows-skipped", "iter.bcd.c", one),
    site!("iter_bcd_last", site_iter_bcd_last, NOCAP, NOCAP, "rows-skipped", "iter.bcd.d", one),
    site!("iter_cd_first", site_iter_cd_first, NOCAP, NOCAP, "rows-skipped", "iter.cd.c", one),
    site!("iter_cd_last", site_iter_cd_last, NOCAP, NOCAP, "rows-skipped", "iter.cd.d", one),
    site!("iter_spo_first", site_iter_spo_first, NOCAP, NOCAP, "rows-skipped", "iter.spo.s", one),
    site!("iter_spo_p", site_iter_spo_p, NOCAP, NOCAP, "rows-skipped", "iter.spo.p", one),
    site!("iter_spo_last", site_iter_spo_last, NOCAP, NOCAP, "rows-skipped", "iter.spo.o", one),
    site!("iter_bc_first", site_iter_bc_first, NOCAP, NOCAP, "rows-skipped", "iter.bc.b", one),
    site!("iter_bc_last", site_iter_bc_last, NOCAP, NOCAP, "rows-skipped", "iter.bc.c", one),
    site!("iter_filter_o", site_iter_filter_o, NOCAP, NOCAP, "rows-skipped", "iter.std-filter", one),
    site!("fast_gspo_s", site_fast_gspo_s, NOCAP, NOCAP, "rows-skipped", "iter.fast.gspo.s", one),
    site!("fast_bcd_g", site_fast_bcd_g, NOCAP, NOCAP, "rows-skipped", "iter.fast.bcd(spog).g", one),
    site!("fast_cd_s", site_fast_cd_s, NOCAP, NOCAP, "rows-skipped", "iter.fast.cd(posg).s", one),
    site!("fastg_bc_s", site_fastg_bc_s, NOCAP, NOCAP, "rows-skipped", "iter.fastgraph.bc(pos).s", one),
    site!("fastg_spo_p", site_fastg_spo_p, NOCAP, NOCAP, "rows-skipped", "iter.fastgraph.spo.p", one),
    site!("match_slice_g", site_match_slice_g, 3_000, 10_000, "matcher-constants", "iter.gspo.slice-matcher", one),
    site!("match_slice_s", site_match_slice_s, 3_000, 10_000, "matcher-constants", "iter.spo.slice-matcher", one),
    site!("nt_literal", site_nt_literal, NOCAP, NOCAP, "escaped-chars", "ser.nt", all),
    site!("nq_stream", site_nq_stream, NOCAP, NOCAP, "statements", "ser.nq", all),
    site!("turtle_stream", site_turtle_stream, NOCAP, NOCAP, "statements", "ser.turtle-stream", all),
    site!("trig_stream", site_trig_stream, NOCAP, NOCAP, "named-graphs", "ser.trig-stream", all),
    site!("turtle_literal", site_turtle_literal, NOCAP, NOCAP, "escaped-chars", "ser.turtle-pretty", all),
    site!("c14n_literal", site_c14n_literal, NOCAP, NOCAP, "escaped-chars", "c14n.nq", all),
    site!("c14n_many", site_c14n_many, NOCAP, NOCAP, "statements", "c14n.rdfc10", all),
    site!("turtle_list", site_turtle_list, 1500, 4000, "list-items", "ser.turtle-pretty", all),
    site!("turtle_lists", site_turtle_lists, 1500, 4000, "statements", "ser.turtle-pretty", all),
    site!("turtle_subjects", site_turtle_subjects, 1500, 4000, "statements", "ser.turtle-pretty", all),
    site!("trig_graphs", site_trig_graphs, 1500, 4000, "named-graphs", "ser.trig-pretty", all),
    site!("turtle_chain", site_turtle_chain, 1500, 4000, "statements", "ser.turtle-pretty", all),
    site!("turtle_chain_i0", site_turtle_chain_i0, 1500, 4000, "statements", "ser.turtle-pretty(indentation='')", all),
    site!("trig_chain_tab", site_trig_chain_tab, 1500, 4000, "statements", "ser.trig-pretty(indentation=tab,named graph)", all),
    site!("turtle_list_i0", site_turtle_list_i0, 1500, 4000, "list-items", "ser.turtle-pretty(indentation='')", all),
];

pub fn find(name: &str) -> Option<&'static Site> {
    SITES.iter().find(|s| s.name == name)
}

// ------------------------------------------------------------------------------------------------
// term / data builders

fn iri(s: String) -> SimpleTerm<'static> {
    SimpleTerm::Iri(IriRef::new_unchecked(MownStr::from(s)))
}
fn ic(s: &str) -> SimpleTerm<'static> {
    iri(s.to_string())
}
fn bn(s: String) -> SimpleTerm<'static> {
    SimpleTerm::BlankNode(BnodeId::new_unchecked(MownStr::from(s)))
}
fn lit(s: String) -> SimpleTerm<'static> {
    SimpleTerm::LiteralDatatype(
        MownStr::from(s),
        IriRef::new_unchecked(MownStr::from("http://www.w3.org/2001/XMLSchema#string".to_string())),
    )
}
const RDF: &str = "http://www.w3.org/1999/02/22-rdf-syntax-ns#";

fn is_match(t: &SimpleTerm<'_>) -> bool {
    matches!(t, SimpleTerm::Iri(i) if i.as_str() == "x:match")
}

/// which position varies over the `size` non-matching rows (and carries the closure matcher)
#[derive(Clone, Copy, PartialEq)]
enum Pos {
    S,
    P,
    O,
}

fn row(pos: Pos, x: SimpleTerm<'static>) -> [SimpleTerm<'static>; 3] {
    let (s, p, o) = (ic("x:s"), ic("x:p"), ic("x:o"));
    match pos {
        Pos::S => [x, p, o],
        Pos::P => [s, x, o],
        Pos::O => [s, p, x],
    }
}

/// `size` rows that the closure rejects, then (in index order: terms are numbered in insertion
/// order) one row that it accepts — so the scan skips `size` rows before its first result
fn build_dataset<D: MutableDataset + Default>(pos: Pos, size: usize) -> D {
    let mut d = D::default();
    for i in 0..size {
        let [s, p, o] = row(pos, iri(format!("x:n{}", i)));
        let _ = d.insert(s, p, o, None::<SimpleTerm>);
    }
    let [s, p, o] = row(pos, ic("x:match"));
    let _ = d.insert(s, p, o, None::<SimpleTerm>);
    d
}

/// the same rows, each in its own named graph `x:n<i>`; the accepted one in graph `x:match`
fn build_dataset_graphs<D: MutableDataset + Default>(size: usize) -> D {
    let mut d = D::default();
    for i in 0..size {
        let _ = d.insert(ic("x:s"), ic("x:p"), ic("x:o"), Some(iri(format!("x:n{}", i))));
    }
    let _ = d.insert(ic("x:s"), ic("x:p"), ic("x:o"), Some(ic("x:match")));
    d
}

fn build_graph<G: MutableGraph + Default>(pos: Pos, size: usize) -> G {
    let mut g = G::default();
    for i in 0..size {
        let [s, p, o] = row(pos, iri(format!("x:n{}", i)));
        let _ = g.insert(s, p, o);
    }
    let [s, p, o] = row(pos, ic("x:match"));
    let _ = g.insert(s, p, o);
    g
}

/// one RDF list with `size` items hanging off `x:s x:p`; blank node labels `<pfx>0 …`
fn list_quads_into(v: &mut Vec<Spog<SimpleTerm<'static>>>, subj: SimpleTerm<'static>, pfx: &str, size: usize) {
    let first = iri(format!("{}first", RDF));
    let rest = iri(format!("{}rest", RDF));
    let nil = iri(format!("{}nil", RDF));
    v.push(([subj, ic("x:p"), bn(format!("{}0", pfx))], None));
    for i in 0..size {
        v.push(([bn(format!("{}{}", pfx, i)), first.clone(), lit(format!("v{}", i))], None));
        let next = if i + 1 == size { nil.clone() } else { bn(format!("{}{}", pfx, i + 1)) };
        v.push(([bn(format!("{}{}", pfx, i)), rest.clone(), next], None));
    }
}

fn list_quads(size: usize) -> Vec<Spog<SimpleTerm<'static>>> {
    let mut v = vec![];
    list_quads_into(&mut v, ic("x:s"), "b", size);
    v
}

fn count_sub(hay: &str, needle: &str) -> u64 {
    hay.matches(needle).count() as u64
}

/// a literal with `size` characters that need escaping: all four of N-Triples' (`\n \r \\ "`)
fn escapes(size: usize) -> String {
    let mut s = String::with_capacity(size);
    for i in 0..size {
        s.push(['\n', '"', '\\', '\r'][i % 4]);
    }
    s
}

fn clo() -> impl Fn(SimpleTerm<'_>) -> bool {
    |t: SimpleTerm<'_>| is_match(&t)
}
fn clo_g() -> impl Fn(GraphName<SimpleTerm<'_>>) -> bool {
    |g: GraphName<SimpleTerm<'_>>| g.map(|t| is_match(&t)).unwrap_or(false)
}

fn count_ok<T, E>(it: impl Iterator<Item = Result<T, E>>) -> u64 {
    it.filter(|r| r.is_ok()).count() as u64
}

// ------------------------------------------------------------------------------------------------
// pattern queries: closure matcher rejecting `size` rows before the first match

// ---- GenericLightDataset::quads_matching, no constant graph name -> GspoMatchingIterator
#[inline(never)]
fn site_iter_gspo_g(size: usize) -> Result<u64, String> {
    let d: LightDataset = build_dataset_graphs(size);
    paint();
    Ok(count_ok(d.quads_matching(Any, Any, Any, clo_g())))
}

#[inline(never)]
fn site_iter_gspo_first(size: usize) -> Result<u64, String> {
    let d: LightDataset = build_dataset(Pos::S, size);
    paint();
    Ok(count_ok(d.quads_matching(clo(), Any, Any, Any)))
}

#[inline(never)]
fn site_iter_gspo_p(size: usize) -> Result<u64, String> {
    let d: LightDataset = build_dataset(Pos::P, size);
    paint();
    Ok(count_ok(d.quads_matching(Any, clo(), Any, Any)))
}

#[inline(never)]
fn site_iter_gspo_last(size: usize) -> Result<u64, String> {
    let d: LightDataset = build_dataset(Pos::O, size);
    paint();
    Ok(count_ok(d.quads_matching(Any, Any, clo(), Any)))
}

// ---- constant graph name, subject not constant -> BcdMatchingIterator
#[inline(never)]
fn site_iter_bcd_first(size: usize) -> Result<u64, String> {
    let dg = [None::<SimpleTerm<'static>>];
    let d: LightDataset = build_dataset(Pos::S, size);
    paint();
    Ok(count_ok(d.quads_matching(clo(), Any, Any, dg)))
}

#[inline(never)]
fn site_iter_bcd_p(size: usize) -> Result<u64, String> {
    let dg = [None::<SimpleTerm<'static>>];
    let d: LightDataset = build_dataset(Pos::P, size);
    paint();
    Ok(count_ok(d.quads_matching(Any, clo(), Any, dg)))
}

#[inline(never)]
fn site_iter_bcd_last(size: usize) -> Result<u64, String> {
    let dg = [None::<SimpleTerm<'static>>];
    let d: LightDataset = build_dataset(Pos::O, size);
    paint();
    Ok(count_ok(d.quads_matching(Any, Any, clo(), dg)))
}

// ---- constant graph name and subject, predicate not constant -> CdMatchingIterator
#[inline(never)]
fn site_iter_cd_first(size: usize) -> Result<u64, String> {
    let dg = [None::<SimpleTerm<'static>>];
    let d: LightDataset = build_dataset(Pos::P, size);
    paint();
    Ok(count_ok(d.quads_matching([ic("x:s")], clo(), Any, dg)))
}

#[inline(never)]
fn site_iter_cd_last(size: usize) -> Result<u64, String> {
    let dg = [None::<SimpleTerm<'static>>];
    let d: LightDataset = build_dataset(Pos::O, size);
    paint();
    Ok(count_ok(d.quads_matching([ic("x:s")], Any, clo(), dg)))
}

// ---- g, s, p constant: `range(..).filter(om.matches)` (std's Filter skips the rows)
#[inline(never)]
fn site_iter_filter_o(size: usize) -> Result<u64, String> {
    let dg = [None::<SimpleTerm<'static>>];
    let d: LightDataset = build_dataset(Pos::O, size);
    paint();
    Ok(count_ok(d.quads_matching([ic("x:s")], [ic("x:p")], clo(), dg)))
}

// ---- GenericLightGraph::triples_matching: subject not constant -> SpoMatchingIterator
#[inline(never)]
fn site_iter_spo_first(size: usize) -> Result<u64, String> {
    let g: LightGraph = build_graph(Pos::S, size);
    paint();
    Ok(count_ok(g.triples_matching(clo(), Any, Any)))
}

#[inline(never)]
fn site_iter_spo_p(size: usize) -> Result<u64, String> {
    let g: LightGraph = build_graph(Pos::P, size);
    paint();
    Ok(count_ok(g.triples_matching(Any, clo(), Any)))
}

#[inline(never)]
fn site_iter_spo_last(size: usize) -> Result<u64, String> {
    let g: LightGraph = build_graph(Pos::O, size);
    paint();
    Ok(count_ok(g.triples_matching(Any, Any, clo())))
}

// ---- constant subject, predicate not constant -> BcMatchingIterator
#[inline(never)]
fn site_iter_bc_first(size: usize) -> Result<u64, String> {
    let g: LightGraph = build_graph(Pos::P, size);
    paint();
    Ok(count_ok(g.triples_matching([ic("x:s")], clo(), Any)))
}

#[inline(never)]
fn site_iter_bc_last(size: usize) -> Result<u64, String> {
    let g: LightGraph = build_graph(Pos::O, size);
    paint();
    Ok(count_ok(g.triples_matching([ic("x:s")], Any, clo())))
}

// ---- GenericFastDataset / GenericFastGraph: the same iterator types over the other index orders
#[inline(never)]
fn site_fast_gspo_s(size: usize) -> Result<u64, String> {
    let d: FastDataset = build_dataset(Pos::S, size);
    paint();
    Ok(count_ok(d.quads_matching(clo(), Any, Any, Any)))
}

/// subject constant, graph name matched by a closure: BcdMatchingIterator over `spog`, the closure
/// on its LAST position
#[inline(never)]
fn site_fast_bcd_g(size: usize) -> Result<u64, String> {
    let d: FastDataset = build_dataset_graphs(size);
    paint();
    Ok(count_ok(d.quads_matching([ic("x:s")], Any, Any, clo_g())))
}

/// predicate and object constant: CdMatchingIterator over `posg`, the closure on its first position
#[inline(never)]
fn site_fast_cd_s(size: usize) -> Result<u64, String> {
    let d: FastDataset = build_dataset(Pos::S, size);
    paint();
    Ok(count_ok(d.quads_matching(clo(), [ic("x:p")], [ic("x:o")], Any)))
}

/// predicate constant: BcMatchingIterator over `pos`, the closure on its last position (s)
#[inline(never)]
fn site_fastg_bc_s(size: usize) -> Result<u64, String> {
    let g: FastGraph = build_graph(Pos::S, size);
    paint();
    Ok(count_ok(g.triples_matching(clo(), [ic("x:p")], Any)))
}

#[inline(never)]
fn site_fastg_spo_p(size: usize) -> Result<u64, String> {
    let g: FastGraph = build_graph(Pos::P, size);
    paint();
    Ok(count_ok(g.triples_matching(Any, clo(), Any)))
}

// ---- a matcher that is an array of `size` + 1 constants, of which only the last one occurs in the
// data (no single constant -> full scan; `matches` walks the array for each of the `size` rows it
// rejects: quadratic time, capped)
#[inline(never)]
fn site_match_slice_g(size: usize) -> Result<u64, String> {
    let d: LightDataset = build_dataset_graphs(size);
    let mut names: Vec<GraphName<SimpleTerm<'static>>> = (0..size).map(|i| Some(iri(format!("x:m{}", i)))).collect();
    names.push(Some(ic("x:match")));
    paint();
    Ok(count_ok(d.quads_matching(Any, Any, Any, &names[..])))
}

#[inline(never)]
fn site_match_slice_s(size: usize) -> Result<u64, String> {
    let g: LightGraph = build_graph(Pos::S, size);
    let mut names: Vec<SimpleTerm<'static>> = (0..size).map(|i| iri(format!("x:m{}", i))).collect();
    names.push(ic("x:match"));
    paint();
    Ok(count_ok(g.triples_matching(&names[..], Any, Any)))
}

// ------------------------------------------------------------------------------------------------
// mutation

/// the closure rejects `size` rows before the one that is removed
#[inline(never)]
fn site_mut_remove_ds(size: usize) -> Result<u64, String> {
    let mut d: LightDataset = build_dataset(Pos::O, size);
    paint();
    d.remove_matching(Any, Any, clo(), Any).map(|n| n as u64).map_err(|_| "mutation".to_string())
}

#[inline(never)]
fn site_mut_retain_ds(size: usize) -> Result<u64, String> {
    let mut d: LightDataset = build_dataset(Pos::S, size);
    paint();
    d.retain_matching(clo(), Any, Any, Any).map_err(|_| "mutation".to_string())?;
    let left = d.quads().count();
    Ok((size + 1 - left) as u64)
}

#[inline(never)]
fn site_mut_remove_g(size: usize) -> Result<u64, String> {
    let mut g: LightGraph = build_graph(Pos::P, size);
    paint();
    g.remove_matching(Any, |t: SimpleTerm<'_>| !is_match(&t), Any).map(|n| n as u64).map_err(|_| "mutation".to_string())
}

/// FastDataset: `size` inserts (six indexes each) and one remove_matching that removes them all
#[inline(never)]
fn site_mut_fast_ds(size: usize) -> Result<u64, String> {
    let mut d = FastDataset::new();
    paint();
    for i in 0..size {
        d.insert(iri(format!("x:n{}", i)), ic("x:p"), ic("x:o"), Some(iri(format!("x:g{}", i % 5)))).map_err(|_| "mutation".to_string())?;
    }
    d.remove_matching(Any, [ic("x:p")], Any, Any).map(|n| n as u64).map_err(|_| "mutation".to_string())
}

// ------------------------------------------------------------------------------------------------
// serialisation

// ---- N-Triples serialisation of one literal with `size` escaped characters
#[inline(never)]
fn site_nt_literal(size: usize) -> Result<u64, String> {
    use sophia_turtle::serializer::nt::NtSerializer;
    let g = vec![[ic("x:s"), ic("x:p"), lit(escapes(size))]];
    let mut ser = NtSerializer::new_stringifier();
    paint();
    match ser.serialize_graph(&g) {
        Ok(s) => Ok((s.as_utf8().len() as u64).saturating_sub(16) / 2),
        Err(_) => Err("sink".into()),
    }
}

// ---- N-Quads of `size` quads (streaming serializer)
#[inline(never)]
fn site_nq_stream(size: usize) -> Result<u64, String> {
    use sophia_turtle::serializer::nq::NqSerializer;
    let d: Vec<Spog<SimpleTerm<'static>>> = (0..size)
        .map(|i| ([iri(format!("x:n{}", i)), ic("x:p"), lit(format!("v\n{}", i))], Some(iri(format!("x:g{}", i % 3)))))
        .collect();
    let mut ser = NqSerializer::new_stringifier();
    paint();
    match ser.serialize_dataset(&d) {
        Ok(s) => Ok(s.as_utf8().iter().filter(|b| **b == b'\n').count() as u64),
        Err(_) => Err("sink".into()),
    }
}

// ---- Turtle / TriG, streaming (non-pretty) mode
#[inline(never)]
fn site_turtle_stream(size: usize) -> Result<u64, String> {
    use sophia_turtle::serializer::turtle::TurtleSerializer;
    let g: Vec<[SimpleTerm<'static>; 3]> =
        (0..size).map(|i| [iri(format!("x:n{}", i / 3)), iri(format!("x:p{}", i % 3)), lit(format!("v\n{}", i))]).collect();
    let mut ser = TurtleSerializer::new_stringifier();
    paint();
    match ser.serialize_graph(&g) {
        Ok(s) => Ok(count_sub(s.as_str(), "\"v")),
        Err(_) => Err("turtle".into()),
    }
}

#[inline(never)]
fn site_trig_stream(size: usize) -> Result<u64, String> {
    use sophia_turtle::serializer::trig::TrigSerializer;
    let d: Vec<Spog<SimpleTerm<'static>>> =
        (0..size).map(|i| ([ic("x:s"), ic("x:p"), lit(format!("v{}", i))], Some(iri(format!("x:g{}", i))))).collect();
    let mut ser = TrigSerializer::new_stringifier();
    paint();
    match ser.serialize_dataset(&d) {
        Ok(s) => Ok(count_sub(s.as_str(), "\"v")),
        Err(_) => Err("trig".into()),
    }
}

fn pretty() -> sophia_turtle::serializer::turtle::TurtleConfig {
    sophia_turtle::serializer::turtle::TurtleConfig::new().with_pretty(true)
}

// ---- pretty Turtle of one literal with `size` escaped characters
#[inline(never)]
fn site_turtle_literal(size: usize) -> Result<u64, String> {
    use sophia_turtle::serializer::turtle::TurtleSerializer;
    let g = vec![[ic("x:s"), ic("x:p"), lit(escapes(size))]];
    let mut ser = TurtleSerializer::new_stringifier_with_config(pretty());
    paint();
    match ser.serialize_graph(&g) {
        Ok(s) => Ok(s.as_str().len() as u64 / 2),
        Err(_) => Err("turtle".into()),
    }
}

// ---- pretty Turtle of one RDF list with `size` items
#[inline(never)]
fn site_turtle_list(size: usize) -> Result<u64, String> {
    use sophia_turtle::serializer::turtle::TurtleSerializer;
    let d = list_quads(size);
    let g: Vec<[SimpleTerm<'static>; 3]> = d.into_iter().map(|(t, _)| t).collect();
    let mut ser = TurtleSerializer::new_stringifier_with_config(pretty());
    paint();
    match ser.serialize_graph(&g) {
        Ok(s) => Ok(count_sub(s.as_str(), "\"v")),
        Err(_) => Err("turtle".into()),
    }
}

// ---- pretty Turtle of `size` / 2 RDF lists of two items each
#[inline(never)]
fn site_turtle_lists(size: usize) -> Result<u64, String> {
    use sophia_turtle::serializer::turtle::TurtleSerializer;
    let mut d = vec![];
    for i in 0..size.div_ceil(2) {
        list_quads_into(&mut d, iri(format!("x:n{}", i)), &format!("l{}x", i), 2);
    }
    let g: Vec<[SimpleTerm<'static>; 3]> = d.into_iter().map(|(t, _)| t).collect();
    let mut ser = TurtleSerializer::new_stringifier_with_config(pretty());
    paint();
    match ser.serialize_graph(&g) {
        Ok(s) => Ok(count_sub(s.as_str(), "\"v")),
        Err(_) => Err("turtle".into()),
    }
}

// ---- pretty Turtle of `size` subjects (find_subject: binary search by recursion)
#[inline(never)]
fn site_turtle_subjects(size: usize) -> Result<u64, String> {
    use sophia_turtle::serializer::turtle::TurtleSerializer;
    let g: Vec<[SimpleTerm<'static>; 3]> =
        (0..size).map(|i| [iri(format!("x:n{}", i)), ic("x:p"), bn(format!("b{}", i))]).collect();
    let mut ser = TurtleSerializer::new_stringifier_with_config(pretty());
    paint();
    match ser.serialize_graph(&g) {
        Ok(s) => Ok(count_sub(s.as_str(), "<x:p>")),
        Err(_) => Err("turtle".into()),
    }
}

// ---- pretty Turtle of one subject with `size` objects (DedupIterator skips size-1 duplicates)
#[inline(never)]
fn site_turtle_objects(size: usize) -> Result<u64, String> {
    use sophia_turtle::serializer::turtle::TurtleSerializer;
    let g: Vec<[SimpleTerm<'static>; 3]> = (0..size).map(|i| [ic("x:s"), ic("x:p"), iri(format!("x:n{}", i))]).collect();
    let mut ser = TurtleSerializer::new_stringifier_with_config(pretty());
    paint();
    match ser.serialize_graph(&g) {
        Ok(s) => Ok(count_sub(s.as_str(), "<x:n")),
        Err(_) => Err("turtle".into()),
    }
}

// ---- pretty TriG of `size` named graphs
#[inline(never)]
fn site_trig_graphs(size: usize) -> Result<u64, String> {
    use sophia_turtle::serializer::trig::TrigSerializer;
    let d: Vec<Spog<SimpleTerm<'static>>> =
        (0..size).map(|i| ([ic("x:s"), ic("x:p"), lit(format!("v{}", i))], Some(iri(format!("x:g{}", i))))).collect();
    let mut ser = TrigSerializer::new_stringifier_with_config(pretty());
    paint();
    match ser.serialize_dataset(&d) {
        Ok(s) => Ok(count_sub(s.as_str(), "GRAPH ")),
        Err(_) => Err("trig".into()),
    }
}

// ---- RDF/XML of `size` triples
#[inline(never)]
fn site_rdfxml_ser(size: usize) -> Result<u64, String> {
    use sophia_xml::serializer::RdfXmlSerializer;
    let g: Vec<[SimpleTerm<'static>; 3]> =
        (0..size).map(|i| [iri(format!("http://x/n{}", i / 2)), ic("http://x/p"), lit(format!("v&{}", i))]).collect();
    let mut ser = RdfXmlSerializer::new_stringifier();
    paint();
    match ser.serialize_graph(&g) {
        Ok(s) => Ok(count_sub(s.as_str(), "v&amp;")),
        Err(_) => Err("rdfxml".into()),
    }
}

// ---- RDFC-1.0 of one quad whose literal has `size` escaped characters (c14n::_cnq::nq)
#[inline(never)]
fn site_c14n_literal(size: usize) -> Result<u64, String> {
    let mut d = LightDataset::new();
    d.insert(ic("x:s"), ic("x:p"), lit(escapes(size)), None::<SimpleTerm>).unwrap();
    let mut out = Vec::new();
    paint();
    match sophia_c14n::rdfc10::normalize(&d, &mut out) {
        Ok(()) => Ok((out.len() as u64).saturating_sub(16) / 2),
        Err(_) => Err("c14n".into()),
    }
}

// ---- RDFC-1.0 of `size` quads, every tenth with a blank node of its own
#[inline(never)]
fn site_c14n_many(size: usize) -> Result<u64, String> {
    let mut d = LightDataset::new();
    for i in 0..size {
        let s = if i % 10 == 0 { bn(format!("b{}", i)) } else { iri(format!("x:n{}", i)) };
        d.insert(s, ic("x:p"), lit(format!("v{}", i)), None::<SimpleTerm>).unwrap();
    }
    let mut out = Vec::new();
    paint();
    match sophia_c14n::rdfc10::normalize(&d, &mut out) {
        Ok(()) => Ok(out.iter().filter(|b| **b == b'\n').count() as u64),
        Err(_) => Err("c14n".into()),
    }
}

// ---- JSON-LD serialisation of one RDF list with `size` items (mark_list_node, populate_list)
fn jsonld(d: &Vec<Spog<SimpleTerm<'static>>>, needle: &str) -> Result<u64, String> {
    use sophia_jsonld::serializer::JsonLdSerializer;
    let mut ser = JsonLdSerializer::new_stringifier();
    paint();
    match ser.serialize_dataset(d) {
        Ok(s) => Ok(count_sub(s.as_str(), needle)),
        Err(_) => Err("jsonld".into()),
    }
}

#[inline(never)]
fn site_jsonld_list(size: usize) -> Result<u64, String> {
    let d = list_quads(size);
    jsonld(&d, "\"@value\"")
}

// ---- `size` named graphs of one statement each (into_json / jsonify over every node)
#[inline(never)]
fn site_jsonld_graphs(size: usize) -> Result<u64, String> {
    let d: Vec<Spog<SimpleTerm<'static>>> =
        (0..size).map(|i| ([ic("x:s"), ic("x:p"), lit(format!("v{}", i))], Some(iri(format!("x:g{}", i))))).collect();
    jsonld(&d, "\"@graph\"")
}

// ---- one named graph with `size` subjects (the nested `jsonify(.., false)` of the graph's node)
#[inline(never)]
fn site_jsonld_nodes(size: usize) -> Result<u64, String> {
    let d: Vec<Spog<SimpleTerm<'static>>> =
        (0..size).map(|i| ([iri(format!("x:n{}", i)), ic("x:p"), lit(format!("v{}", i))], Some(ic("x:g")))).collect();
    jsonld(&d, "\"@value\"")
}

// ---- a chain of `size` linked blank nodes `_:b0 x:p _:b1 . _:b1 x:p _:b2 …` (flat statements; a
// serializer that embeds blank nodes would nest once per link)
fn chain(size: usize, g: Option<SimpleTerm<'static>>) -> Vec<Spog<SimpleTerm<'static>>> {
    let mut d = vec![([ic("x:s"), ic("x:p"), bn("b0".into())], g.clone())];
    for i in 0..size {
        let o = if i + 1 == size { lit("end".into()) } else { bn(format!("b{}", i + 1)) };
        d.push(([bn(format!("b{}", i)), ic("x:p"), o], g.clone()));
    }
    d
}

#[inline(never)]
fn site_jsonld_chain(size: usize) -> Result<u64, String> {
    let d = chain(size, None);
    jsonld(&d, "\"x:p\"").map(|n| n.saturating_sub(1))
}

// ---- pretty Turtle of the same chain (default graph)
#[inline(never)]
fn site_turtle_chain(size: usize) -> Result<u64, String> {
    use sophia_turtle::serializer::turtle::TurtleSerializer;
    let g: Vec<[SimpleTerm<'static>; 3]> = chain(size, None).into_iter().map(|(t, _)| t).collect();
    let mut ser = TurtleSerializer::new_stringifier_with_config(pretty());
    paint();
    match ser.serialize_graph(&g) {
        Ok(s) => Ok(count_sub(s.as_str(), "x:p").saturating_sub(1)),
        Err(_) => Err("turtle".into()),
    }
}

// ---- the same chain under other serializer CONFIGURATIONS (the property quantifies over them): empty
// indentation (allowed; nothing that is derived from the indentation may bound the nesting) …
#[inline(never)]
fn site_turtle_chain_i0(size: usize) -> Result<u64, String> {
    use sophia_turtle::serializer::turtle::TurtleSerializer;
    let g: Vec<[SimpleTerm<'static>; 3]> = chain(size, None).into_iter().map(|(t, _)| t).collect();
    let mut ser = TurtleSerializer::new_stringifier_with_config(pretty().with_indentation(""));
    paint();
    match ser.serialize_graph(&g) {
        Ok(s) => Ok(count_sub(s.as_str(), "x:p").saturating_sub(1)),
        Err(_) => Err("turtle".into()),
    }
}

// … and TriG, tab indentation, the chain in a named graph
#[inline(never)]
fn site_trig_chain_tab(size: usize) -> Result<u64, String> {
    use sophia_turtle::serializer::trig::TrigSerializer;
    let d = chain(size, Some(ic("x:g")));
    let mut ser = TrigSerializer::new_stringifier_with_config(pretty().with_indentation("\t"));
    paint();
    match ser.serialize_dataset(&d) {
        Ok(s) => Ok(count_sub(s.as_str(), "x:p").saturating_sub(1)),
        Err(_) => Err("trig".into()),
    }
}

// ---- one list of `size` items, empty indentation
#[inline(never)]
fn site_turtle_list_i0(size: usize) -> Result<u64, String> {
    use sophia_turtle::serializer::turtle::TurtleSerializer;
    let d = list_quads(size);
    let g: Vec<[SimpleTerm<'static>; 3]> = d.into_iter().map(|(t, _)| t).collect();
    let mut ser = TurtleSerializer::new_stringifier_with_config(pretty().with_indentation(""));
    paint();
    match ser.serialize_graph(&g) {
        Ok(s) => Ok(count_sub(s.as_str(), "\"v")),
        Err(_) => Err("turtle".into()),
    }
}

// ---- `size` / 2 lists of two items each (one list seed per list)
#[inline(never)]
fn site_jsonld_lists(size: usize) -> Result<u64, String> {
    let mut d = vec![];
    for i in 0..size.div_ceil(2) {
        list_quads_into(&mut d, iri(format!("x:n{}", i)), &format!("l{}x", i), 2);
    }
    jsonld(&d, "\"@value\"")
}

// ------------------------------------------------------------------------------------------------
// SPARQL

fn sparql(d: &LightDataset, q: &str) -> Result<u64, String> {
    use sophia_api::sparql::Query as _;
    use sophia_api::sparql::SparqlDataset as _;
    use sophia_sparql::{SparqlQuery, SparqlWrapper};
    let w = SparqlWrapper(d);
    let q = SparqlQuery::parse(q).map_err(|_| "parse".to_string())?;
    paint();
    match w.query(&q) {
        Ok(r) => Ok(count_ok(r.into_bindings().into_iter())),
        Err(_) => Err("query".into()),
    }
}

// ---- GRAPH ?g over `size` named graphs (sparql::exec::graph_rec)
#[inline(never)]
fn site_sparql_graph(size: usize) -> Result<u64, String> {
    let mut d = LightDataset::new();
    for i in 0..size {
        d.insert(ic("x:s"), ic("x:p"), ic("x:o"), Some(iri(format!("x:g{}", i)))).unwrap();
    }
    sparql(&d, "SELECT ?g { GRAPH ?g { ?s ?p ?o } }")
}

// ---- a two-pattern BGP over `size` rows (sparql::bgp::bgp_rec recurses per *pattern*)
#[inline(never)]
fn site_sparql_bgp(size: usize) -> Result<u64, String> {
    let d: LightDataset = build_dataset(Pos::S, size);
    sparql(&d, "SELECT ?s { ?s <x:p> ?o . ?s <x:p> <x:o> }").map(|n| n.saturating_sub(1))
}

// ---- ORDER BY with two criteria over `size` rows; the first criterion ties on every pair, so
// every comparison of the sort goes through both levels of cmp_bindings_with
#[inline(never)]
fn site_sparql_orderby(size: usize) -> Result<u64, String> {
    let d: LightDataset = build_dataset(Pos::S, size);
    sparql(&d, "SELECT ?s { ?s <x:p> ?o } ORDER BY ?o DESC(?s)").map(|n| n.saturating_sub(1))
}

// ---- FILTER rejecting `size` solutions before the first it keeps
#[inline(never)]
fn site_sparql_filter(size: usize) -> Result<u64, String> {
    let d: LightDataset = build_dataset(Pos::S, size);
    sparql(&d, "SELECT ?s { ?s <x:p> ?o FILTER(?s = <x:match>) }")
}

// ---- FILTER (EXISTS … && NOT EXISTS …): `check_exists` once, then one `select` of each pattern per row
#[inline(never)]
fn site_sparql_exists(size: usize) -> Result<u64, String> {
    let d: LightDataset = build_dataset(Pos::S, size);
    sparql(&d, "SELECT ?s { ?s <x:p> ?o FILTER(EXISTS { ?s <x:p> <x:o> } && NOT EXISTS { ?s <x:nope> ?z }) }")
        .map(|n| n.saturating_sub(1))
}

// ---- UNION, FILTER, BIND, DISTINCT, OFFSET over `size` rows
#[inline(never)]
fn site_sparql_ops(size: usize) -> Result<u64, String> {
    let d: LightDataset = build_dataset(Pos::S, size);
    sparql(
        &d,
        "SELECT DISTINCT ?s ?z { { ?s <x:p> ?o FILTER(?s != <x:match>) } UNION { ?s <x:nope> ?o } BIND(?o AS ?z) } OFFSET 1",
    )
    .map(|n| n + 1)
}

// ------------------------------------------------------------------------------------------------
// parsing a document of `size` statements (+ inserting them: the "mutating" dimension)

#[inline(never)]
fn site_parse_nt(size: usize) -> Result<u64, String> {
    let mut doc = String::new();
    for i in 0..size {
        doc.push_str(&format!("<x:n{}> <x:p> \"v{}\\n\" .\n", i, i));
    }
    let mut g = LightGraph::new();
    paint();
    match sophia_turtle::parser::nt::parse_str(&doc).add_to_graph(&mut g) {
        Ok(n) => Ok(n as u64),
        Err(_) => Err("parse".into()),
    }
}

#[inline(never)]
fn site_parse_nq(size: usize) -> Result<u64, String> {
    let mut doc = String::new();
    for i in 0..size {
        doc.push_str(&format!("<x:n{}> <x:p> \"v{}\\n\" <x:g{}> .\n", i, i, i % 7));
    }
    let mut d = LightDataset::new();
    paint();
    match sophia_turtle::parser::nq::parse_str(&doc).add_to_dataset(&mut d) {
        Ok(n) => Ok(n as u64),
        Err(_) => Err("parse".into()),
    }
}

#[inline(never)]
fn site_parse_turtle(size: usize) -> Result<u64, String> {
    let mut doc = String::from("@prefix x: <x:> .\n");
    for i in 0..size {
        doc.push_str(&format!("x:n{} x:p \"v{}\\n\" ;\n  x:q [ x:r ( {} ) ] .\n", i, i, i));
    }
    let mut g = LightGraph::new();
    paint();
    match sophia_turtle::parser::turtle::parse_str(&doc).add_to_graph(&mut g) {
        Ok(n) => Ok((n / 5) as u64),
        Err(_) => Err("parse".into()),
    }
}

// ---- one collection of `size` items
#[inline(never)]
fn site_parse_turtle_list(size: usize) -> Result<u64, String> {
    let mut doc = String::from("@prefix x: <x:> .\nx:s x:p (");
    for i in 0..size {
        doc.push_str(&format!(" {}\n", i));
    }
    doc.push_str(") .\n");
    let mut g = LightGraph::new();
    paint();
    match sophia_turtle::parser::turtle::parse_str(&doc).add_to_graph(&mut g) {
        Ok(n) => Ok((n / 2) as u64),
        Err(_) => Err("parse".into()),
    }
}

// ---- one subject: `size` / 2 predicates in one predicateObjectList, then `size` / 2 objects in one
// objectList
#[inline(never)]
fn site_parse_turtle_objects(size: usize) -> Result<u64, String> {
    let h = size.div_ceil(2);
    let mut doc = String::from("@prefix x: <x:> .\nx:s");
    for i in 0..h {
        doc.push_str(&format!(" x:p{} {} ;\n", i, i));
    }
    doc.push_str(" x:q 0");
    for i in 1..h {
        doc.push_str(&format!(" ,\n {}", i));
    }
    doc.push_str(" .\n");
    let mut g = LightGraph::new();
    paint();
    match sophia_turtle::parser::turtle::parse_str(&doc).add_to_graph(&mut g) {
        Ok(n) => Ok(n as u64),
        Err(_) => Err("parse".into()),
    }
}

// ---- TriG with `size` graph blocks
#[inline(never)]
fn site_parse_trig(size: usize) -> Result<u64, String> {
    let mut doc = String::from("@prefix x: <x:> .\n");
    for i in 0..size {
        doc.push_str(&format!("x:g{} {{ x:n{} x:p \"v{}\" . }}\n", i, i, i));
    }
    let mut d = LightDataset::new();
    paint();
    match sophia_turtle::parser::trig::parse_str(&doc).add_to_dataset(&mut d) {
        Ok(n) => Ok(n as u64),
        Err(_) => Err("parse".into()),
    }
}

// ---- RDF/XML with `size` node elements
#[inline(never)]
fn site_parse_rdfxml(size: usize) -> Result<u64, String> {
    let mut doc = String::from(
        "<?xml version=\"1.0\"?>\n<rdf:RDF xmlns:rdf=\"http://www.w3.org/1999/02/22-rdf-syntax-ns#\" xmlns:x=\"http://x/\">\n",
    );
    for i in 0..size {
        doc.push_str(&format!("<rdf:Description rdf:about=\"http://x/n{}\"><x:p>v&amp;{}</x:p></rdf:Description>\n", i, i));
    }
    doc.push_str("</rdf:RDF>\n");
    let mut g = LightGraph::new();
    paint();
    match sophia_xml::parser::parse_str(&doc).add_to_graph(&mut g) {
        Ok(n) => Ok(n as u64),
        Err(_) => Err("parse".into()),
    }
}

// ---- JSON-LD (expanded form) with `size` node objects / one @list of `size` items
fn parse_jsonld(doc: &str) -> Result<u64, String> {
    let mut d = LightDataset::new();
    paint();
    match sophia_jsonld::parser::parse_str(doc).add_to_dataset(&mut d) {
        Ok(n) => Ok(n as u64),
        Err(_) => Err("parse".into()),
    }
}

#[inline(never)]
fn site_parse_jsonld(size: usize) -> Result<u64, String> {
    let mut doc = String::from("[");
    for i in 0..size {
        if i > 0 {
            doc.push(',');
        }
        doc.push_str(&format!("{{\"@id\":\"http://x/n{}\",\"http://x/p\":[{{\"@value\":\"v{}\"}}]}}\n", i, i));
    }
    doc.push(']');
    parse_jsonld(&doc)
}

#[inline(never)]
fn site_parse_jsonld_list(size: usize) -> Result<u64, String> {
    let mut doc = String::from("[{\"@id\":\"http://x/s\",\"http://x/p\":[{\"@list\":[");
    for i in 0..size {
        if i > 0 {
            doc.push(',');
        }
        doc.push_str(&format!("{{\"@value\":\"v{}\"}}\n", i));
    }
    doc.push_str("]}]}]");
    parse_jsonld(&doc).map(|n| n / 2)
}
