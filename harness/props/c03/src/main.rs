//! C03 — N-Triples / N-Quads serialisation round-trips every dataset exactly.
//!
//! requests (see lean/SophiaModel/Driver/C03.lean):
//!   ds <nt|nq> <quad>*   serialise with the real NtSerializer / NqSerializer (`out=` hex, compared byte
//!                        for byte with the model), parse the output back with the real nt / nq / gnq
//!                        parsers (`rt=`, `rt_gnq=`; the model says `o.rt=1` on the property's domain),
//!                        line discipline (`lines=`, `nl_end=`), classification by the real validators
//!                        (`valid=`, `bcp=`)
//!   p <nt|nq> <hexdoc>   the real parser on an arbitrary document: ok=0 | ok=1 n=<k> quads=<hex>
//!   e <hex>              one lexical form through write_term and back through the N-Triples parser
use sophia_api::quad::Spog;
use sophia_api::serializer::{QuadSerializer, Stringifier, TripleSerializer};
use sophia_api::source::{QuadSource, TripleSource};
use sophia_api::term::{BnodeId, LanguageTag, SimpleTerm};
use sophia_turtle::serializer::{nq::NqSerializer, nt::NtSerializer};
use std::convert::Infallible;
use vhcore::rxgen;
use vhcore::tgen::{self, TermGen};
use vhcore::util::*;
use vhcore::GenCtx;

// ------------------------------------------------------------------ generators

/// lexical-form building blocks, one per escape class of the property's quantifier
fn lex_classes() -> Vec<(&'static str, String)> {
    let mut v: Vec<(&'static str, String)> = vec![
        ("quote", "\"".into()),
        ("backslash", "\\".into()),
        ("lf", "\n".into()),
        ("cr", "\r".into()),
        ("crlf", "\r\n".into()),
        ("tab", "\t".into()),
        ("nul", "\u{0}".into()),
        ("del", "\u{7f}".into()),
        ("bs_quote", "\\\"".into()),
        ("bs_n", "\\n".into()),
        ("bs_u", "\\u0041".into()),
        ("nonbmp", "\u{1F600}".into()),
        ("nonbmp_edge", "\u{10000}\u{10FFFF}".into()),
        ("combining", "e\u{301}\u{0300}".into()),
        ("bmp_edge", "\u{7ff}\u{800}\u{ffff}\u{fffd}\u{e000}\u{d7ff}".into()),
        ("latin1", "\u{80}\u{a0}\u{ff}é".into()),
        ("ascii", "a".into()),
        ("space", " ".into()),
        ("gt", ">".into()),
        ("lt", "<<".into()),
        ("at", "@en".into()),
        ("caret", "^^<x>".into()),
        ("dot", " .".into()),
        ("hash", "#".into()),
        ("apos", "'".into()),
        ("bom", "\u{feff}".into()),
        ("ls", "\u{2028}\u{2029}\u{85}".into()),
    ];
    for c in 1u8..0x20 {
        if ![9u8, 10, 13].contains(&c) {
            v.push(("c0", (c as char).to_string()));
        }
    }
    v
}

fn gen_lex(ctx: &mut GenCtx, classes: &[(&'static str, String)]) -> String {
    let n = match ctx.rng.below(8) {
        0 => 0,
        1..=3 => 1,
        4..=5 => 2,
        6 => 3,
        _ => ctx.rng.range(4, 7),
    };
    let mut s = String::new();
    for _ in 0..n {
        let (k, t) = ctx.rng.pick(classes).clone();
        ctx.stats.bump(&format!("lex.{}", k));
        s.push_str(&t);
    }
    s
}

const LABEL_FIRST: &[char] = &['a', 'Z', '_', '0', '9', 'é', '\u{c0}', '\u{37f}', '\u{200c}', '\u{3001}', '\u{10000}', '\u{effff}', '\u{fdf0}'];
const LABEL_INNER: &[char] = &['a', 'z', '_', '-', '0', '7', '\u{b7}', '\u{300}', '\u{36f}', '\u{203f}', '\u{2040}', 'é', '\u{10000}', '\u{d7ff}'];

fn gen_label(ctx: &mut GenCtx) -> String {
    let mut s = String::new();
    s.push(*ctx.rng.pick(LABEL_FIRST));
    let n = ctx.rng.below(5);
    for _ in 0..n {
        if ctx.rng.chance(1, 3) {
            s.push('.');
            ctx.stats.bump("label.inner_dot");
        }
        let c = *ctx.rng.pick(LABEL_INNER);
        if s.ends_with('.') && c.is_ascii_digit() {
            ctx.stats.bump("label.digit_after_dot");
        }
        if c == '\u{b7}' {
            ctx.stats.bump("label.middle_dot");
        }
        if !c.is_ascii() {
            ctx.stats.bump("label.non_ascii");
        }
        s.push(c);
    }
    if s.chars().next().unwrap().is_ascii_digit() {
        ctx.stats.bump("label.leading_digit");
    }
    s
}

/// RFC 5646 `langtag` / `privateuse` as a regex the sampler understands
const BCP47_RX: &str = r"^(?:(?:[A-Za-z]{2,3}(?:-[A-Za-z]{3}){0,3}|[A-Za-z]{4}|[A-Za-z]{5,8})(?:-[A-Za-z]{4})?(?:-(?:[A-Za-z]{2}|[0-9]{3}))?(?:-(?:[A-Za-z0-9]{5,8}|[0-9][A-Za-z0-9]{3}))*(?:-[0-9A-WY-Za-wy-z](?:-[A-Za-z0-9]{2,8})+)*(?:-[xX](?:-[A-Za-z0-9]{1,8})+)?|[xX](?:-[A-Za-z0-9]{1,8})+)$";

const TAGS: &[&str] = &[
    "en", "EN-gb", "en-GB", "fr-CA", "zh-Hant-TW", "de-1996", "de-CH-1901", "x-private", "en-a-bbb-x-y", "sl-rozaj-biske",
    "i-klingon", "I-Default", "sgn-BE-FR", "en-GB-oed", "zh-min-nan", "es-419", "qaa-Qaaa-QM-x-southern", "abcdefgh",
];
/// accepted by LanguageTag::new but outside BCP 47 / the LANGTAG grammar: observations only
const TAGS_OUTSIDE: &[&str] = &["a1", "a", "abcdefghi", "en-abcdefghi", "e1-x", "en-a", "a-b"];

const IRIS: &[&str] = &[
    "http://ex.org/a", "http://ex.org/b#x", "http://ex.org/é", "x:p", "tag:q", "urn:uuid:0", "http://[::1]/", "http://a/?q=1&r=%20#f",
    "http://é.org/\u{10000}?\u{e000}", "a:", "http://www.w3.org/1999/02/22-rdf-syntax-ns#type", "x:a.b", "x:_:a", "x:'()*",
    "http://a@b:80/", "mailto:a@b", "x://h/~!$&*+,;=:@", "http://[1:2::3:4:5:6:7]/", "http://[v1.a]/",
];
/// relative references: SimpleTerm may hold them, the N-Triples parser cannot accept them: observations only
const IRIS_OUTSIDE: &[&str] = &["rel", "/abs/path", "#frag", "", "//authority/x"];

const DATATYPES: &[&str] = &[
    "http://www.w3.org/2001/XMLSchema#string", "http://www.w3.org/2001/XMLSchema#integer", "http://ex.org/dt",
    "http://www.w3.org/1999/02/22-rdf-syntax-ns#langString", "http://ex.org/é#\u{10000}", "x:d",
    "http://www.w3.org/2001/XMLSchema#strin", "http://www.w3.org/2001/XMLSchema#string2",
    "http://www.w3.org/2001/XMLSchema#String", "http://ex.org/XMLSchema#string", "x:string",
    // same namespace, local name with `string` / `langString` as a proper suffix, or empty (seeded change C03-b)
    "http://www.w3.org/2001/XMLSchema#substring", "http://www.w3.org/2001/XMLSchema#my-string",
    "http://www.w3.org/2001/XMLSchema#",
    "http://www.w3.org/1999/02/22-rdf-syntax-ns#xlangString",
];

fn build_termgen(ctx: &mut GenCtx, outside: bool) -> TermGen {
    let classes = lex_classes();
    let mut tg = TermGen::default();
    tg.generalized = false;
    tg.max_depth = 2;
    tg.lexicals = (0..12).map(|_| gen_lex(ctx, &classes)).collect();
    for l in ["a\n", "a\r", "a\"", "a\\"] {
        if ctx.rng.chance(1, 2) {
            tg.lexicals.push(l.to_string());
        }
    }
    let n_end = tg.lexicals.iter().filter(|l| l.ends_with(['\n', '\r', '"', '\\'])).count();
    ctx.stats.add("lex.ends_escapable", n_end as u64);
    tg.bnodes = (0..6).map(|_| gen_label(ctx)).collect();
    tg.bnodes.extend(["b0", "x.y", "0", "a.1", "a\u{b7}", "a-"].iter().map(|s| s.to_string()));
    tg.tags = (0..4).map(|_| ctx.rng.pick(TAGS).to_string()).collect();
    let bcp = rxgen::parse(BCP47_RX);
    for _ in 0..2 {
        let mut s = String::new();
        rxgen::sample(&bcp, &mut ctx.rng, &mut s, 2);
        ctx.stats.bump("tag.sampled_bcp47");
        tg.tags.push(s);
    }
    tg.iris = (0..5).map(|_| ctx.rng.pick(IRIS).to_string()).collect();
    let abs = rxgen::parse(sophia_iri::IRI_REGEX_SRC);
    for _ in 0..2 {
        let mut s = String::new();
        rxgen::sample(&abs, &mut ctx.rng, &mut s, 2);
        ctx.stats.bump("iri.sampled_regex");
        if !s.is_ascii() {
            ctx.stats.bump("iri.non_ascii");
        }
        tg.iris.push(s);
    }
    tg.datatypes = DATATYPES.iter().map(|s| s.to_string()).collect();
    if outside {
        tg.tags.push(ctx.rng.pick(TAGS_OUTSIDE).to_string());
        tg.iris.push(ctx.rng.pick(IRIS_OUTSIDE).to_string());
    }
    tg
}

fn count_shapes(ctx: &mut GenCtx, q: &Q) {
    fn walk(ctx: &mut GenCtx, t: &T, depth: usize) {
        match t {
            T::Iri(_) => ctx.stats.bump("term.iri"),
            T::Bnode(_) => ctx.stats.bump("term.bnode"),
            T::Lit(_, d) => {
                ctx.stats.bump("term.typed");
                if d == "http://www.w3.org/2001/XMLSchema#string" {
                    ctx.stats.bump("term.xsd_string");
                }
            }
            T::Lang(_, _) => ctx.stats.bump("term.lang"),
            T::Var(_) => ctx.stats.bump("term.var"),
            T::Triple(b) => {
                ctx.stats.bump(&format!("term.quoted.depth{}", depth + 1));
                for x in b.iter() {
                    walk(ctx, x, depth + 1);
                }
            }
        }
    }
    walk(ctx, &q.s, 0);
    walk(ctx, &q.p, 0);
    walk(ctx, &q.o, 0);
    match &q.g {
        None => ctx.stats.bump("graph.default"),
        Some(g @ T::Iri(_)) => {
            ctx.stats.bump("graph.iri");
            walk(ctx, g, 0)
        }
        Some(g) => {
            ctx.stats.bump("graph.bnode");
            walk(ctx, g, 0)
        }
    }
}

const MUT_ALPHABET: &[char] = &[
    ' ', '\t', '.', '<', '>', '"', '\\', '@', '^', '_', ':', '-', '#', '\n', '\r', 'a', 'Z', '1', 'é', 'u', 'U', '0', '?', '{', '\u{b7}',
    '\u{300}', '\'', 'n', 't', '/', '%', '\u{0}', '\u{1F600}',
];

fn mutate(ctx: &mut GenCtx, s: &str) -> String {
    let cs: Vec<char> = s.chars().collect();
    let mut out = cs.clone();
    let k = ctx.rng.below(4);
    if cs.is_empty() || k == 0 {
        let i = ctx.rng.below(cs.len() + 1);
        out.insert(i, *ctx.rng.pick(MUT_ALPHABET));
        ctx.stats.bump("mutant.insert");
    } else if k == 1 {
        let i = ctx.rng.below(cs.len());
        out.remove(i);
        ctx.stats.bump("mutant.delete");
    } else if k == 2 {
        let i = ctx.rng.below(cs.len());
        out[i] = *ctx.rng.pick(MUT_ALPHABET);
        ctx.stats.bump("mutant.replace");
    } else {
        // duplicate or swap neighbours
        let i = ctx.rng.below(cs.len());
        if i + 1 < cs.len() && ctx.rng.chance(1, 2) {
            out.swap(i, i + 1);
            ctx.stats.bump("mutant.swap");
        } else {
            out.insert(i, cs[i]);
            ctx.stats.bump("mutant.dup");
        }
    }
    out.into_iter().collect()
}

const DOC_CORPUS: &[&str] = &[
    "",
    "\n",
    "# only a comment",
    "  \t \n\r\n# c\n",
    "<x:s> <x:p> <x:o> .",
    "<x:s> <x:p> <x:o> .\n",
    "<x:s><x:p><x:o>.",
    "<x:s>\t<x:p>\t<x:o>\t.\t# c\r\n<x:s> <x:p> \"a\" .\r\n",
    "<x:s> <x:p> \"a\"@en .\n<x:s> <x:p> \"a\"@EN-gb.\n",
    "<x:s> <x:p> \"a\" @en .\n",
    "<x:s> <x:p> \"a\"^^<x:d> .\n",
    "<x:s> <x:p> \"a\" ^^ <x:d> .\n",
    "<x:s> <x:p> \"a\"^ ^<x:d> .\n",
    "<x:s> <x:p> \"a\"^^ x:d .\n",
    "<x:s> <x:p> \"a\"@ en .\n",
    "<x:s> <x:p> \"a\"@en- .\n",
    "<x:s> <x:p> \"a\"@en--a .\n",
    "<x:s> <x:p> \"a\"@-en .\n",
    "<x:s> <x:p> \"a\"@1en .\n",
    "<x:s> <x:p> \"a\"@en-1 .\n",
    "<x:s> <x:p> \"a\"@en_:g .\n",
    "<x:s> <x:p> \"a\"@en<x:g>.\n",
    "<x:s> <x:p> \"\\t\\b\\n\\r\\f\\\"\\'\\\\\" .\n",
    "<x:s> <x:p> \"\\u00e9\\U0001F600\\u0000\" .\n",
    "<x:s> <x:p> \"\\x\" .\n",
    "<x:s> <x:p> \"\\uD800\" .\n",
    "<x:s> <x:p> \"\\U00110000\" .\n",
    "<x:s> <x:p> \"\\u00e\" .\n",
    "<x:s> <x:p> \"a\nb\" .\n",
    "<x:s> <x:p> \"a\rb\" .\n",
    "<x:s> <x:p> \"a\tb\u{0}\u{7f}\" .\n",
    "<x:s> <x:p> \"a\"\"b\" .\n",
    "<x:s> <x:p> \"a\\\" .\n",
    "<x:s> <x:p> 'a' .\n",
    "<x:\\u00e9> <x:p> <x:\\U0001F600> .\n",
    "<x:\\n> <x:p> <x:o> .\n",
    "<x:s> <x:p> <x:a b> .\n",
    "<x:s> <x:p> <x:{}> .\n",
    "<x:s> <x:p> <x:o .\n",
    "_:a <x:p> _:b .\n",
    "_:a.b <x:p> _:b.1.\n",
    "_:a. <x:p> _:b .\n",
    "_:a..b <x:p> _:b .\n",
    "_:.a <x:p> _:b .\n",
    "_:a:b <x:p> _:b .\n",
    "_:-a <x:p> _:b .\n",
    "_:0 <x:p> _:9a .\n",
    "_:a\u{b7} <x:p> _:\u{b7}a .\n",
    "_:a\u{300} <x:p> _:\u{300} .\n",
    "_:é <x:p> _:\u{10000}.\n",
    "_:a<x:p>_:b.\n",
    "_: a <x:p> _:b .\n",
    "_ :a <x:p> _:b .\n",
    "<x:s> _:p <x:o> .\n",
    "<x:s> \"p\" <x:o> .\n",
    "\"s\" <x:p> <x:o> .\n",
    "<x:s> <x:p> <x:o> <x:g> .\n",
    "<x:s> <x:p> <x:o> _:g .\n",
    "<x:s> <x:p> <x:o> \"g\" .\n",
    "<x:s> <x:p> <x:o> <x:g> <x:h> .\n",
    "<x:s> <x:p> <x:o> <x:g>\n",
    "<x:s> <x:p> <x:o> . <x:s> <x:p> <x:o> .\n",
    "<x:s> <x:p> <x:o> . junk\n",
    "<x:s> <x:p> .\n",
    "<x:s> <x:p> <x:o> ..\n",
    "<<<x:a> <x:b> <x:c>>> <x:p> <<<x:a> <x:b> \"c\"@en>> .\n",
    "<< <x:a> <x:b> <x:c> >> <x:p> << _:a <x:b> << <x:a> <x:b> \"x\" >> >> <x:g> .\n",
    "<< <x:a> <x:b> <x:c> > > <x:p> <x:o> .\n",
    "<< <x:a> <x:b> <x:c> >><x:p><x:o>.\n",
    "<< \"a\" <x:b> <x:c> >> <x:p> <x:o> .\n",
    "<< <x:a> _:b <x:c> >> <x:p> <x:o> .\n",
    "<x:s> << <x:a> <x:b> <x:c> >> <x:o> .\n",
    "<x:s> <x:p> <x:o> << <x:a> <x:b> <x:c> >> .\n",
    "<< <x:a> <x:b> <x:c> >> .\n",
    "<x:s> <x:p> ?v .\n",
    "?s <x:p> <x:o> .\n",
    "<x:s> <x:p> <x:o> # no dot\n",
    "<x:s> <x:p> <x:o> .# c\n#c2\n\n\n<x:s> <x:p> <x:o2> .",
    "\u{feff}<x:s> <x:p> <x:o> .\n",
    "<x:s> <x:p> <x:o> .\r<x:s> <x:p> <x:o2> .\n",
    "<x:s> <x:p> <x:o> .\n\r<x:s> <x:p> <x:o2> .\n",
    "<x:s> <x:p> \"a\"^^<x:d>@en .\n",
    "<x:s> <x:p> \"a\"@en^^<x:d> .\n",
    "<x:s> <x:p> \"a\".\n",
    "<x:s> <x:p> \"a\"@en.\n",
    "<x:s> <x:p> \"\" .\n",
    "<> <x:p> <x:o> .\n",
    "<x:s> <x:p> <rel> .\n",
    "<x:s> <x:p> \"a\"^^<rel> .\n",
    "<x:s> <x:p> \"1\"^^<http://www.w3.org/2001/XMLSchema#string> .\n",
];

pub fn generate(ctx: &mut GenCtx) {
    // 0. escape level: every class alone, every ordered pair of the critical classes
    let classes = lex_classes();
    for (_, t) in classes.iter() {
        ctx.emit(&format!("e {}", hex(t)));
        ctx.stats.bump("esc.single");
    }
    let crit = ["\"", "\\", "\n", "\r", "a", "\u{0}", "\u{1F600}", "n", "u"];
    for a in crit {
        for b in crit {
            ctx.emit(&format!("e {}", hex(&format!("{}{}", a, b))));
            ctx.stats.bump("esc.pair");
            for c in ["\\", "\"", "\r"] {
                ctx.emit(&format!("e {}", hex(&format!("{}{}{}", a, b, c))));
                ctx.stats.bump("esc.triple");
            }
        }
    }
    // every escapable character as the LAST byte of the text, after prefixes of every kind (the end test
    // of quoted_string's loop must come after the escape arm)
    for last in ["\n", "\r", "\"", "\\"] {
        for pre in ["", "a", "ab", "é", "\u{1F600}", "a\n", "\"\\", "\r\r", "\\", "a\"b"] {
            ctx.emit(&format!("e {}", hex(&format!("{}{}", pre, last))));
            ctx.stats.bump("esc.last_byte_escapable");
        }
    }
    let n_esc = if ctx.thorough { 20000 } else { 300 };
    for _ in 0..n_esc {
        let s = gen_lex(ctx, &classes);
        if s.ends_with(['\n', '\r', '"', '\\']) {
            ctx.stats.bump("esc.random_ends_escapable");
        }
        ctx.emit(&format!("e {}", hex(&s)));
        ctx.stats.bump("esc.random");
    }

    // 1. documents: fixed corpus through both parsers
    for d in DOC_CORPUS {
        ctx.emit(&format!("p nq {}", hex(d)));
        ctx.emit(&format!("p nt {}", hex(d)));
        ctx.stats.bump("doc.corpus");
    }

    // 2. datasets
    let rounds = if ctx.thorough { 3000 } else { 60 };
    for round in 0..rounds {
        let outside = round % 6 == 5;
        let tg = build_termgen(ctx, outside);
        for k in 0..10 {
            let n = ctx.rng.range(1, 4);
            let nt = k % 3 == 2;
            let mut qs: Vec<Q> = (0..n).map(|_| tg.strict_quad(&mut ctx.rng)).collect();
            if nt {
                for q in qs.iter_mut() {
                    q.g = None;
                }
            }
            // duplicates must be kept (nothing merged)
            if ctx.rng.chance(1, 5) {
                let d = qs[0].clone();
                qs.push(d);
                ctx.stats.bump("ds.duplicate_quad");
            }
            for q in qs.iter() {
                count_shapes(ctx, q);
            }
            let mode = if nt { "nt" } else { "nq" };
            ctx.stats.bump(if outside { "ds.outside_domain" } else { "ds.in_domain" });
            ctx.stats.bump(&format!("ds.{}", mode));
            let line = format!("ds {} {}", mode, qs.iter().map(|q| q.render()).collect::<Vec<_>>().join(" "));
            if round == 0 && k < 3 {
                ctx.stats.sample(line.clone());
            }
            ctx.emit(&line);
            // 3. reader differential on the real output and on single-edit mutants of it
            if !outside && k < 6 {
                if let Ok(Ok(txt)) = catch(|| serialize(&qs, !nt)) {
                    let txt = String::from_utf8(txt).unwrap();
                    ctx.emit(&format!("p {} {}", mode, hex(&txt)));
                    ctx.stats.bump("doc.serializer_output");
                    for _ in 0..3 {
                        let m = mutate(ctx, &txt);
                        ctx.emit(&format!("p {} {}", mode, hex(&m)));
                    }
                }
            }
        }
    }
}

// ------------------------------------------------------------------ executor

type SQ = Spog<SimpleTerm<'static>>;

fn serialize(qs: &[Q], nq: bool) -> Result<Vec<u8>, String> {
    let data: Vec<SQ> = qs.iter().map(tgen::q_to_simple).collect();
    if nq {
        let mut ser = NqSerializer::new_stringifier();
        ser.serialize_quads(data.into_iter().map(Ok::<_, Infallible>))
            .map_err(|e| e.to_string())?;
        Ok(ser.as_utf8().to_vec())
    } else {
        let mut ser = NtSerializer::new_stringifier();
        ser.serialize_triples(data.into_iter().map(|q| Ok::<_, Infallible>(q.0))).map_err(|e| e.to_string())?;
        Ok(ser.as_utf8().to_vec())
    }
}

fn parse(txt: &str, which: &str) -> Result<Vec<Q>, String> {
    let mut out: Vec<Q> = vec![];
    match which {
        "nt" => sophia_turtle::parser::nt::parse_str(txt)
            .for_each_triple(|t| out.push(tgen::view_triple(t)))
            .map_err(|e| e.to_string())?,
        "nq" => sophia_turtle::parser::nq::parse_str(txt)
            .for_each_quad(|q| out.push(tgen::view_quad(q)))
            .map_err(|e| e.to_string())?,
        _ => sophia_turtle::parser::gnq::parse_str(txt)
            .for_each_quad(|q| out.push(tgen::view_quad(q)))
            .map_err(|e| e.to_string())?,
    }
    Ok(out)
}

/// language tags compare case-insensitively (`LanguageTag::eq`); Rio lower-cases what it reads
fn canon_t(t: &T) -> T {
    match t {
        T::Lang(l, tag) => T::Lang(l.clone(), tag.to_ascii_lowercase()),
        T::Triple(b) => T::Triple(Box::new([canon_t(&b[0]), canon_t(&b[1]), canon_t(&b[2])])),
        x => x.clone(),
    }
}
fn canon_q(q: &Q) -> Q {
    Q { s: canon_t(&q.s), p: canon_t(&q.p), o: canon_t(&q.o), g: q.g.as_ref().map(canon_t) }
}

fn term_valid(t: &T) -> bool {
    match t {
        T::Iri(s) => sophia_iri::Iri::new(s.as_str()).is_ok(),
        T::Bnode(s) => BnodeId::new(s.as_str()).is_ok(),
        T::Lit(_, d) => sophia_iri::Iri::new(d.as_str()).is_ok(),
        T::Lang(_, tag) => LanguageTag::new(tag.as_str()).is_ok(),
        T::Triple(b) => b.iter().all(term_valid),
        T::Var(_) => false,
    }
}
fn term_bcp(t: &T) -> bool {
    match t {
        T::Lang(_, tag) => oxilangtag::LanguageTag::parse(tag.as_str()).is_ok(),
        T::Triple(b) => b.iter().all(term_bcp),
        _ => true,
    }
}
#[derive(Clone, Copy, PartialEq)]
enum Pos {
    S,
    P,
    O,
    G,
}
fn pos_ok(pos: Pos, t: &T) -> bool {
    match (pos, t) {
        (Pos::S, T::Iri(_)) | (Pos::S, T::Bnode(_)) | (Pos::P, T::Iri(_)) | (Pos::G, T::Iri(_)) | (Pos::G, T::Bnode(_)) => true,
        (Pos::O, T::Iri(_)) | (Pos::O, T::Bnode(_)) | (Pos::O, T::Lit(..)) | (Pos::O, T::Lang(..)) => true,
        (Pos::S, T::Triple(b)) | (Pos::O, T::Triple(b)) => pos_ok(Pos::S, &b[0]) && pos_ok(Pos::P, &b[1]) && pos_ok(Pos::O, &b[2]),
        _ => false,
    }
}
fn quad_all(q: &Q, f: fn(&T) -> bool) -> bool {
    f(&q.s) && f(&q.p) && f(&q.o) && q.g.as_ref().map(f).unwrap_or(true)
}
fn strict(q: &Q) -> bool {
    pos_ok(Pos::S, &q.s) && pos_ok(Pos::P, &q.p) && pos_ok(Pos::O, &q.o) && q.g.as_ref().map(|g| pos_ok(Pos::G, g)).unwrap_or(true)
}

fn b(x: bool) -> &'static str {
    if x { "1" } else { "0" }
}

fn render_quads(qs: &[Q]) -> String {
    qs.iter().map(|q| canon_q(q).render()).collect::<Vec<_>>().join(";")
}

fn roundtrip(txt: &str, which: &'static str, want: &[Q]) -> (String, bool) {
    let t = txt.to_string();
    match catch(move || parse(&t, which)) {
        Err(_) => ("panic".into(), false),
        Ok(Err(_)) => ("0".into(), false),
        Ok(Ok(got)) => {
            let canon_eq = got.len() == want.len() && got.iter().zip(want).all(|(a, b)| canon_q(a) == canon_q(b));
            let exact = got.as_slice() == want;
            (b(canon_eq).into(), exact)
        }
    }
}

pub fn exec(line: &str) -> String {
    let f: Vec<&str> = line.split_whitespace().collect();
    match f.as_slice() {
        ["ds", mode, rest @ ..] => {
            let nq = *mode == "nq";
            let mut it = rest.iter().copied().peekable();
            let mut qs: Vec<Q> = vec![];
            while it.peek().is_some() {
                match Q::parse(&mut it) {
                    Some(q) => qs.push(q),
                    None => return "bad-op".into(),
                }
            }
            if !nq && qs.iter().any(|q| q.g.is_some()) {
                return "bad-op".into();
            }
            let valid = qs.iter().all(|q| quad_all(q, term_valid) && strict(q));
            let bcp = qs.iter().all(|q| quad_all(q, term_bcp));
            let qs2 = qs.clone();
            let out = match catch(move || serialize(&qs2, nq)) {
                Err(_) => return "out=panic".into(),
                Ok(Err(e)) => return format!("out=err:{}", hex(&e)),
                Ok(Ok(o)) => o,
            };
            let lines = out.iter().filter(|c| **c == b'\n').count();
            let nl_end = out.is_empty() || out.ends_with(b"\n");
            let txt = match String::from_utf8(out.clone()) {
                Ok(t) => t,
                Err(_) => return format!("out={} FAIL.utf8=1", hex_bytes(&out)),
            };
            let (rt, exact) = roundtrip(&txt, if nq { "nq" } else { "nt" }, &qs);
            let (rt_gnq, _) = roundtrip(&txt, "gnq", &qs);
            let mut r = format!(
                "out={} valid={} bcp={} lines={} nl_end={} rt={} rt_gnq={} exact={}",
                hex_bytes(&out), b(valid), b(bcp), lines, b(nl_end), rt, rt_gnq, b(exact)
            );
            // one statement per line: every line of the output is a complete statement of its own
            if valid && bcp {
                let per_line_ok = txt.split_inclusive('\n').zip(qs.iter()).all(|(l, q)| {
                    let (r1, _) = roundtrip(l, if nq { "nq" } else { "nt" }, std::slice::from_ref(q));
                    r1 == "1"
                });
                if !per_line_ok || txt.split_inclusive('\n').count() != qs.len() {
                    r.push_str(" FAIL.per_line=1");
                }
            }
            r
        }
        ["p", mode, h] => {
            let Some(doc) = unhex(h) else { return "bad-hex".into() };
            let which: &'static str = if *mode == "nq" { "nq" } else { "nt" };
            match catch(move || parse(&doc, which)) {
                Err(_) => "ok=panic".into(),
                Ok(Err(_)) => "ok=0".into(),
                Ok(Ok(qs)) => format!("ok=1 n={} quads={}", qs.len(), hex(&render_quads(&qs))),
            }
        }
        ["e", h] => {
            let Some(s) = unhex(h) else { return "bad-hex".into() };
            let lit: SimpleTerm<'static> =
                tgen::to_simple(&T::Lit(s.clone(), "http://www.w3.org/2001/XMLSchema#string".into()));
            let mut buf: Vec<u8> = vec![];
            let l2 = lit.clone();
            let w = catch(move || {
                let mut buf: Vec<u8> = vec![];
                sophia_turtle::serializer::nt::write_term(&mut buf, &l2).map(|_| buf)
            });
            match w {
                Err(_) => return "q=panic".into(),
                Ok(Err(_)) => return "q=err".into(),
                Ok(Ok(x)) => buf = x,
            }
            if buf.len() < 2 || buf[0] != b'"' || buf[buf.len() - 1] != b'"' {
                return format!("q=unquoted:{}", hex_bytes(&buf));
            }
            let inner = &buf[1..buf.len() - 1];
            let mut doc = b"<x:s> <x:p> ".to_vec();
            doc.extend_from_slice(&buf);
            doc.extend_from_slice(b" .\n");
            let back = match String::from_utf8(doc) {
                Err(_) => "utf8".to_string(),
                Ok(d) => match catch(move || parse(&d, "nt")) {
                    Ok(Ok(qs)) if qs.len() == 1 => match &qs[0].o {
                        T::Lit(l, _) => hex(l),
                        _ => "kind".into(),
                    },
                    Ok(Ok(_)) => "count".into(),
                    Ok(Err(_)) => "err".into(),
                    Err(_) => "panic".into(),
                },
            };
            format!("q={} back={}", hex_bytes(inner), back)
        }
        _ => "bad-op".into(),
    }
}

fn main() {
    vhcore::main_loop(generate, exec)
}
