//! C03 — N-Triples / N-Quads serialisation round-trips every dataset exactly.
//!
//! requests (see lean/SophiaModel/Driver/C03.lean):
//!   ds <nt|nq>[:opt,..] <quad>*
//!                        serialise with the real NtSerializer / NqSerializer (`out=` hex, compared byte
//!                        for byte with the model), parse the output back with the real nt / nq / gnq
//!                        parsers (`rt=`, `rt_gnq=`; `rt_buf=` through `parse_bufread` with a tiny buffer;
//!                        `rt_pipe=` parser source piped into the serializer and parsed again; the model
//!                        says `o.rt=1 …` on the property's domain), line discipline (`lines=`, `nl_end=`),
//!                        classification by the real validators (`valid=`, `bcp=`).
//!                        options: `ascii` (NtConfig::set_ascii(true)); entry point `coll`
//!                        (serialize_graph / serialize_dataset on a Vec) or `set` (on a HashSet: output
//!                        compared as a sorted set of lines); sink `short<k>` (io::Write taking <= k bytes
//!                        per call), `bufw` (BufWriter), `fail<n>` (errors after n bytes: `out=err`)
//!   rd <nt|nq>[:s] <hexdoc> <quad>*
//!                        <hexdoc> = what the real serializer wrote for <quad>* (computed when the request
//!                        is generated); the model's grammar reader must read exactly these quads from it
//!   nat <kind> <hex> <term>
//!                        write_term on a term of another type than SimpleTerm (native literal, NsTerm,
//!                        Iri, BnodeId), <term> = that term seen through its accessors
//!   p <nt|nq> <hexdoc>   the real parser on an arbitrary document: ok=0 | ok=1 n=<k> quads=<hex>
//!   e <hex>              one lexical form through write_term and back through the N-Triples parser
use sophia_api::quad::Spog;
use sophia_api::serializer::{QuadSerializer, Stringifier, TripleSerializer};
use sophia_api::source::{QuadSource, TripleSource};
use sophia_api::term::{BnodeId, LanguageTag, SimpleTerm, Term};
use sophia_turtle::serializer::{nq::NqSerializer, nt::NtConfig, nt::NtSerializer};
use std::collections::HashSet;
use std::convert::Infallible;
use std::io;
use vhcore::rxgen;
use vhcore::tgen::{self, TermGen};
use vhcore::util::*;
use vhcore::GenCtx;

// ------------------------------------------------------------------ generators

/// lexical-form building blocks, one per escape class of the property's quantifier
fn lex_classes() -> Vec<(&'static str, String)> {
    let mut v: Vec<(&'static str, String)> = vec![
        ("quote", "\"".into()),
        ("backslash", "\\".into()),
        ("lf", "\n".into()),
        ("cr", "\r".into()),
        ("crlf", "\r\n".into()),
        ("tab", "\t".into()),
        ("nul", "\u{0}".into()),
        ("del", "\u{7f}".into()),
        ("bs_quote", "\\\"".into()),
        ("bs_n", "\\n".into()),
        ("bs_u", "\\u0041".into()),
        ("nonbmp", "\u{1F600}".into()),
        ("nonbmp_edge", "\u{10000}\u{10FFFF}".into()),
        ("combining", "e\u{301}\u{0300}".into()),
        ("bmp_edge", "\u{7ff}\u{800}\u{ffff}\u{fffd}\u{e000}\u{d7ff}".into()),
        ("latin1", "\u{80}\u{a0}\u{ff}é".into()),
        ("ascii", "a".into()),
        ("space", " ".into()),
        ("gt", ">".into()),
        ("lt", "<<".into()),
        ("at", "@en".into()),
        ("caret", "^^<x>".into()),
        ("dot", " .".into()),
        ("hash", "#".into()),
        ("apos", "'".into()),
        ("bom", "\u{feff}".into()),
        ("ls", "\u{2028}\u{2029}\u{85}".into()),
    ];
    for c in 1u8..0x20 {
        if ![9u8, 10, 13].contains(&c) {
            v.push(("c0", (c as char).to_string()));
        }
    }
    v
}

fn gen_lex(ctx: &mut GenCtx, classes: &[(&'static str, String)]) -> String {
    let n = match ctx.rng.below(8) {
        0 => 0,
        1..=3 => 1,
        4..=5 => 2,
        6 => 3,
        _ => ctx.rng.range(4, 7),
    };
    let mut s = String::new();
    for _ in 0..n {
        let (k, t) = ctx.rng.pick(classes).clone();
        ctx.stats.bump(&format!("lex.{}", k));
        s.push_str(&t);
    }
    s
}

const LABEL_FIRST: &[char] = &['a', 'Z', '_', '0', '9', 'é', '\u{c0}', '\u{37f}', '\u{200c}', '\u{3001}', '\u{10000}', '\u{effff}', '\u{fdf0}'];
const LABEL_INNER: &[char] = &['a', 'z', '_', '-', '0', '7', '\u{b7}', '\u{300}', '\u{36f}', '\u{203f}', '\u{2040}', 'é', '\u{10000}', '\u{d7ff}'];

fn gen_label(ctx: &mut GenCtx) -> String {
    let mut s = String::new();
    s.push(*ctx.rng.pick(LABEL_FIRST));
    let n = ctx.rng.below(5);
    for _ in 0..n {
        if ctx.rng.chance(1, 3) {
            s.push('.');
            ctx.stats.bump("label.inner_dot");
        }
        let c = *ctx.rng.pick(LABEL_INNER);
        if s.ends_with('.') && c.is_ascii_digit() {
            ctx.stats.bump("label.digit_after_dot");
        }
        if c == '\u{b7}' {
            ctx.stats.bump("label.middle_dot");
        }
        if !c.is_ascii() {
            ctx.stats.bump("label.non_ascii");
        }
        s.push(c);
    }
    if s.chars().next().unwrap().is_ascii_digit() {
        ctx.stats.bump("label.leading_digit");
    }
    s
}

/// RFC 5646 `langtag` / `privateuse` as a regex the sampler understands
const BCP47_RX: &str = r"^(?:(?:[A-Za-z]{2,3}(?:-[A-Za-z]{3}){0,3}|[A-Za-z]{4}|[A-Za-z]{5,8})(?:-[A-Za-z]{4})?(?:-(?:[A-Za-z]{2}|[0-9]{3}))?(?:-(?:[A-Za-z0-9]{5,8}|[0-9][A-Za-z0-9]{3}))*(?:-[0-9A-WY-Za-wy-z](?:-[A-Za-z0-9]{2,8})+)*(?:-[xX](?:-[A-Za-z0-9]{1,8})+)?|[xX](?:-[A-Za-z0-9]{1,8})+)$";

const TAGS: &[&str] = &[
    "en", "EN-gb", "en-GB", "fr-CA", "zh-Hant-TW", "de-1996", "de-CH-1901", "x-private", "en-a-bbb-x-y", "sl-rozaj-biske",
    "i-klingon", "I-Default", "sgn-BE-FR", "en-GB-oed", "zh-min-nan", "es-419", "qaa-Qaaa-QM-x-southern", "abcdefgh",
];
/// accepted by LanguageTag::new but outside BCP 47 / the LANGTAG grammar: observations only
const TAGS_OUTSIDE: &[&str] = &["a1", "a", "abcdefghi", "en-abcdefghi", "e1-x", "en-a", "a-b"];

const IRIS: &[&str] = &[
    "http://ex.org/a", "http://ex.org/b#x", "http://ex.org/é", "x:p", "tag:q", "urn:uuid:0", "http://[::1]/", "http://a/?q=1&r=%20#f",
    "http://é.org/\u{10000}?\u{e000}", "a:", "http://www.w3.org/1999/02/22-rdf-syntax-ns#type", "x:a.b", "x:_:a", "x:'()*",
    "http://a@b:80/", "mailto:a@b", "x://h/~!$&*+,;=:@", "http://[1:2::3:4:5:6:7]/", "http://[v1.a]/",
    // schemes with every character RFC 3986 allows after the first letter (seeded change C03-d)
    "svn+ssh://host/repo", "chrome-extension://abcdef/x.js", "z39.50r://host/db?q", "a+.-1:x", "coap+tcp://[::1]/",
];
/// relative references: SimpleTerm may hold them, the N-Triples parser cannot accept them: observations only
const IRIS_OUTSIDE: &[&str] = &["rel", "/abs/path", "#frag", "", "//authority/x"];

const DATATYPES: &[&str] = &[
    "http://www.w3.org/2001/XMLSchema#string", "http://www.w3.org/2001/XMLSchema#integer", "http://ex.org/dt",
    "http://www.w3.org/1999/02/22-rdf-syntax-ns#langString", "http://ex.org/é#\u{10000}", "x:d",
    "http://www.w3.org/2001/XMLSchema#strin", "http://www.w3.org/2001/XMLSchema#string2",
    "http://www.w3.org/2001/XMLSchema#String", "http://ex.org/XMLSchema#string", "x:string",
    // same namespace, local name with `string` / `langString` as a proper suffix, or empty (seeded change C03-b)
    "http://www.w3.org/2001/XMLSchema#substring", "http://www.w3.org/2001/XMLSchema#my-string",
    "http://www.w3.org/2001/XMLSchema#",
    "http://www.w3.org/1999/02/22-rdf-syntax-ns#xlangString",
];

fn build_termgen(ctx: &mut GenCtx, outside: bool) -> TermGen {
    let classes = lex_classes();
    let mut tg = TermGen::default();
    tg.generalized = false;
    tg.max_depth = 2;
    tg.lexicals = (0..12).map(|_| gen_lex(ctx, &classes)).collect();
    for l in ["a\n", "a\r", "a\"", "a\\"] {
        if ctx.rng.chance(1, 2) {
            tg.lexicals.push(l.to_string());
        }
    }
    let n_end = tg.lexicals.iter().filter(|l| l.ends_with(['\n', '\r', '"', '\\'])).count();
    ctx.stats.add("lex.ends_escapable", n_end as u64);
    tg.bnodes = (0..6).map(|_| gen_label(ctx)).collect();
    tg.bnodes.extend(["b0", "x.y", "0", "a.1", "a\u{b7}", "a-"].iter().map(|s| s.to_string()));
    tg.tags = (0..4).map(|_| ctx.rng.pick(TAGS).to_string()).collect();
    let bcp = rxgen::parse(BCP47_RX);
    for _ in 0..2 {
        let mut s = String::new();
        rxgen::sample(&bcp, &mut ctx.rng, &mut s, 2);
        ctx.stats.bump("tag.sampled_bcp47");
        tg.tags.push(s);
    }
    tg.iris = (0..5).map(|_| ctx.rng.pick(IRIS).to_string()).collect();
    let abs = rxgen::parse(sophia_iri::IRI_REGEX_SRC);
    for _ in 0..2 {
        let mut s = String::new();
        rxgen::sample(&abs, &mut ctx.rng, &mut s, 2);
        ctx.stats.bump("iri.sampled_regex");
        if !s.is_ascii() {
            ctx.stats.bump("iri.non_ascii");
        }
        tg.iris.push(s);
    }
    tg.datatypes = DATATYPES.iter().map(|s| s.to_string()).collect();
    if outside {
        tg.tags.push(ctx.rng.pick(TAGS_OUTSIDE).to_string());
        tg.iris.push(ctx.rng.pick(IRIS_OUTSIDE).to_string());
    }
    tg
}

fn count_shapes(ctx: &mut GenCtx, q: &Q) {
    fn walk(ctx: &mut GenCtx, t: &T, depth: usize) {
        match t {
            T::Iri(_) => ctx.stats.bump("term.iri"),
            T::Bnode(_) => ctx.stats.bump("term.bnode"),
            T::Lit(_, d) => {
                ctx.stats.bump("term.typed");
                if d == "http://www.w3.org/2001/XMLSchema#string" {
                    ctx.stats.bump("term.xsd_string");
                }
            }
            T::Lang(_, _) => ctx.stats.bump("term.lang"),
            T::Var(_) => ctx.stats.bump("term.var"),
            T::Triple(b) => {
                ctx.stats.bump(&format!("term.quoted.depth{}", depth + 1));
                for x in b.iter() {
                    walk(ctx, x, depth + 1);
                }
            }
        }
    }
    walk(ctx, &q.s, 0);
    walk(ctx, &q.p, 0);
    walk(ctx, &q.o, 0);
    match &q.g {
        None => ctx.stats.bump("graph.default"),
        Some(g @ T::Iri(_)) => {
            ctx.stats.bump("graph.iri");
            walk(ctx, g, 0)
        }
        Some(g) => {
            ctx.stats.bump("graph.bnode");
            walk(ctx, g, 0)
        }
    }
}

const MUT_ALPHABET: &[char] = &[
    ' ', '\t', '.', '<', '>', '"', '\\', '@', '^', '_', ':', '-', '#', '\n', '\r', 'a', 'Z', '1', 'é', 'u', 'U', '0', '?', '{', '\u{b7}',
    '\u{300}', '\'', 'n', 't', '/', '%', '\u{0}', '\u{1F600}',
];

fn mutate(ctx: &mut GenCtx, s: &str) -> String {
    let cs: Vec<char> = s.chars().collect();
    let mut out = cs.clone();
    let k = ctx.rng.below(4);
    if cs.is_empty() || k == 0 {
        let i = ctx.rng.below(cs.len() + 1);
        out.insert(i, *ctx.rng.pick(MUT_ALPHABET));
        ctx.stats.bump("mutant.insert");
    } else if k == 1 {
        let i = ctx.rng.below(cs.len());
        out.remove(i);
        ctx.stats.bump("mutant.delete");
    } else if k == 2 {
        let i = ctx.rng.below(cs.len());
        out[i] = *ctx.rng.pick(MUT_ALPHABET);
        ctx.stats.bump("mutant.replace");
    } else {
        // duplicate or swap neighbours
        let i = ctx.rng.below(cs.len());
        if i + 1 < cs.len() && ctx.rng.chance(1, 2) {
            out.swap(i, i + 1);
            ctx.stats.bump("mutant.swap");
        } else {
            out.insert(i, cs[i]);
            ctx.stats.bump("mutant.dup");
        }
    }
    out.into_iter().collect()
}

const DOC_CORPUS: &[&str] = &[
    "",
    "\n",
    "# only a comment",
    "  \t \n\r\n# c\n",
    "<x:s> <x:p> <x:o> .",
    "<x:s> <x:p> <x:o> .\n",
    "<x:s><x:p><x:o>.",
    "<x:s>\t<x:p>\t<x:o>\t.\t# c\r\n<x:s> <x:p> \"a\" .\r\n",
    "<x:s> <x:p> \"a\"@en .\n<x:s> <x:p> \"a\"@EN-gb.\n",
    "<x:s> <x:p> \"a\" @en .\n",
    "<x:s> <x:p> \"a\"^^<x:d> .\n",
    "<x:s> <x:p> \"a\" ^^ <x:d> .\n",
    "<x:s> <x:p> \"a\"^ ^<x:d> .\n",
    "<x:s> <x:p> \"a\"^^ x:d .\n",
    "<x:s> <x:p> \"a\"@ en .\n",
    "<x:s> <x:p> \"a\"@en- .\n",
    "<x:s> <x:p> \"a\"@en--a .\n",
    "<x:s> <x:p> \"a\"@-en .\n",
    "<x:s> <x:p> \"a\"@1en .\n",
    "<x:s> <x:p> \"a\"@en-1 .\n",
    "<x:s> <x:p> \"a\"@en_:g .\n",
    "<x:s> <x:p> \"a\"@en<x:g>.\n",
    "<x:s> <x:p> \"\\t\\b\\n\\r\\f\\\"\\'\\\\\" .\n",
    "<x:s> <x:p> \"\\u00e9\\U0001F600\\u0000\" .\n",
    "<x:s> <x:p> \"\\x\" .\n",
    "<x:s> <x:p> \"\\uD800\" .\n",
    "<x:s> <x:p> \"\\U00110000\" .\n",
    "<x:s> <x:p> \"\\u00e\" .\n",
    "<x:s> <x:p> \"a\nb\" .\n",
    "<x:s> <x:p> \"a\rb\" .\n",
    "<x:s> <x:p> \"a\tb\u{0}\u{7f}\" .\n",
    "<x:s> <x:p> \"a\"\"b\" .\n",
    "<x:s> <x:p> \"a\\\" .\n",
    "<x:s> <x:p> 'a' .\n",
    "<x:\\u00e9> <x:p> <x:\\U0001F600> .\n",
    "<x:\\n> <x:p> <x:o> .\n",
    "<x:s> <x:p> <x:a b> .\n",
    "<x:s> <x:p> <x:{}> .\n",
    "<x:s> <x:p> <x:o .\n",
    "_:a <x:p> _:b .\n",
    "_:a.b <x:p> _:b.1.\n",
    "_:a. <x:p> _:b .\n",
    "_:a..b <x:p> _:b .\n",
    "_:.a <x:p> _:b .\n",
    "_:a:b <x:p> _:b .\n",
    "_:-a <x:p> _:b .\n",
    "_:0 <x:p> _:9a .\n",
    "_:a\u{b7} <x:p> _:\u{b7}a .\n",
    "_:a\u{300} <x:p> _:\u{300} .\n",
    "_:é <x:p> _:\u{10000}.\n",
    "_:a<x:p>_:b.\n",
    "_: a <x:p> _:b .\n",
    "_ :a <x:p> _:b .\n",
    "<x:s> _:p <x:o> .\n",
    "<x:s> \"p\" <x:o> .\n",
    "\"s\" <x:p> <x:o> .\n",
    "<x:s> <x:p> <x:o> <x:g> .\n",
    "<x:s> <x:p> <x:o> _:g .\n",
    "<x:s> <x:p> <x:o> \"g\" .\n",
    "<x:s> <x:p> <x:o> <x:g> <x:h> .\n",
    "<x:s> <x:p> <x:o> <x:g>\n",
    "<x:s> <x:p> <x:o> . <x:s> <x:p> <x:o> .\n",
    "<x:s> <x:p> <x:o> . junk\n",
    "<x:s> <x:p> .\n",
    "<x:s> <x:p> <x:o> ..\n",
    "<<<x:a> <x:b> <x:c>>> <x:p> <<<x:a> <x:b> \"c\"@en>> .\n",
    "<< <x:a> <x:b> <x:c> >> <x:p> << _:a <x:b> << <x:a> <x:b> \"x\" >> >> <x:g> .\n",
    "<< <x:a> <x:b> <x:c> > > <x:p> <x:o> .\n",
    "<< <x:a> <x:b> <x:c> >><x:p><x:o>.\n",
    "<< \"a\" <x:b> <x:c> >> <x:p> <x:o> .\n",
    "<< <x:a> _:b <x:c> >> <x:p> <x:o> .\n",
    "<x:s> << <x:a> <x:b> <x:c> >> <x:o> .\n",
    "<x:s> <x:p> <x:o> << <x:a> <x:b> <x:c> >> .\n",
    "<< <x:a> <x:b> <x:c> >> .\n",
    "<x:s> <x:p> ?v .\n",
    "?s <x:p> <x:o> .\n",
    "<x:s> <x:p> <x:o> # no dot\n",
    "<x:s> <x:p> <x:o> .# c\n#c2\n\n\n<x:s> <x:p> <x:o2> .",
    "\u{feff}<x:s> <x:p> <x:o> .\n",
    "<x:s> <x:p> <x:o> .\r<x:s> <x:p> <x:o2> .\n",
    "<x:s> <x:p> <x:o> .\n\r<x:s> <x:p> <x:o2> .\n",
    "<x:s> <x:p> \"a\"^^<x:d>@en .\n",
    "<x:s> <x:p> \"a\"@en^^<x:d> .\n",
    "<x:s> <x:p> \"a\".\n",
    "<x:s> <x:p> \"a\"@en.\n",
    "<x:s> <x:p> \"\" .\n",
    "<> <x:p> <x:o> .\n",
    "<x:s> <x:p> <rel> .\n",
    "<x:s> <x:p> \"a\"^^<rel> .\n",
    "<x:s> <x:p> \"1\"^^<http://www.w3.org/2001/XMLSchema#string> .\n",
];

pub fn generate(ctx: &mut GenCtx) {
    // 0. escape level: every class alone, every ordered pair of the critical classes
    let classes = lex_classes();
    for (_, t) in classes.iter() {
        ctx.emit(&format!("e {}", hex(t)));
        ctx.stats.bump("esc.single");
    }
    let crit = ["\"", "\\", "\n", "\r", "a", "\u{0}", "\u{1F600}", "n", "u"];
    for a in crit {
        for b in crit {
            ctx.emit(&format!("e {}", hex(&format!("{}{}", a, b))));
            ctx.stats.bump("esc.pair");
            for c in ["\\", "\"", "\r"] {
                ctx.emit(&format!("e {}", hex(&format!("{}{}{}", a, b, c))));
                ctx.stats.bump("esc.triple");
            }
        }
    }
    // every escapable character as the LAST byte of the text, after prefixes of every kind (the end test
    // of quoted_string's loop must come after the escape arm)
    for last in ["\n", "\r", "\"", "\\"] {
        for pre in ["", "a", "ab", "é", "\u{1F600}", "a\n", "\"\\", "\r\r", "\\", "a\"b"] {
            ctx.emit(&format!("e {}", hex(&format!("{}{}", pre, last))));
            ctx.stats.bump("esc.last_byte_escapable");
        }
    }
    let n_esc = if ctx.thorough { 20000 } else { 300 };
    for _ in 0..n_esc {
        let s = gen_lex(ctx, &classes);
        if s.ends_with(['\n', '\r', '"', '\\']) {
            ctx.stats.bump("esc.random_ends_escapable");
        }
        ctx.emit(&format!("e {}", hex(&s)));
        ctx.stats.bump("esc.random");
    }

    // 1. documents: fixed corpus through both parsers
    for d in DOC_CORPUS {
        ctx.emit(&format!("p nq {}", hex(d)));
        ctx.emit(&format!("p nt {}", hex(d)));
        ctx.stats.bump("doc.corpus");
    }

    // 1b. long lexical forms: a scan that works in blocks (16 / 64 bytes, 4 KiB, 8 KiB scratch buffers) must
    // meet every escape class and multi-byte characters at every offset of a block boundary
    for (i, s) in long_texts(ctx).into_iter().enumerate() {
        ctx.stats.bump("esc.long");
        ctx.stats.add("esc.long_bytes", s.len() as u64);
        ctx.emit(&format!("e {}", hex(&s)));
        if i % 3 == 0 {
            let q = Q { s: T::Bnode("b".into()), p: T::Iri("x:p".into()), o: T::Lang(s, "en".into()), g: None };
            emit_ds(ctx, Opts::plain(i % 2 == 0), std::slice::from_ref(&q), false);
            ctx.stats.bump("ds.long_literal");
        }
    }

    // 1c. terms of other types than SimpleTerm
    gen_natives(ctx);

    // 2. datasets
    let rounds = if ctx.thorough { 3000 } else { 60 };
    for round in 0..rounds {
        let outside = round % 6 == 5;
        let mut tg = build_termgen(ctx, outside);
        if round % 4 == 3 {
            tg.max_depth = 4;
        }
        for k in 0..10 {
            let n = match ctx.rng.below(12) {
                0 => ctx.rng.range(20, 60),
                1 => ctx.rng.range(6, 19),
                _ => ctx.rng.range(1, 4),
            };
            let nt = k % 3 == 2;
            let mut qs: Vec<Q> = (0..n).map(|_| tg.strict_quad(&mut ctx.rng)).collect();
            if nt {
                for q in qs.iter_mut() {
                    q.g = None;
                }
            }
            let mut o = Opts::plain(!nt);
            match ctx.rng.below(10) {
                0 | 1 => o.entry = Entry::Coll,
                2 | 3 => o.entry = Entry::Set,
                _ => {}
            }
            match ctx.rng.below(10) {
                0 => o.sink = SinkKind::Short(ctx.rng.range(1, 3)),
                1 => o.sink = SinkKind::BufW,
                2 => o.sink = SinkKind::Fail(*ctx.rng.pick(&[0usize, 1, 17, 64, 200, 500, 1000, 3000, 100000])),
                _ => {}
            }
            if ctx.rng.chance(1, 12) {
                o.ascii = true;
            }
            if o.entry == Entry::Set {
                // a set container merges equal quads, and `SimpleTerm::eq` compares tags case-insensitively:
                // keep one quad per class so that what the container holds is determined
                let mut seen: Vec<Q> = vec![];
                qs.retain(|q| {
                    let c = canon_q(q);
                    if seen.contains(&c) {
                        false
                    } else {
                        seen.push(c);
                        true
                    }
                });
            } else if ctx.rng.chance(1, 5) {
                // duplicates must be kept (nothing merged)
                let d = qs[0].clone();
                qs.push(d);
                ctx.stats.bump("ds.duplicate_quad");
            }
            for q in qs.iter() {
                count_shapes(ctx, q);
            }
            ctx.stats.bump(if outside { "ds.outside_domain" } else { "ds.in_domain" });
            ctx.stats.bump(match qs.len() {
                0..=5 => "ds.size.1-5",
                6..=19 => "ds.size.6-19",
                _ => "ds.size.20-61",
            });
            emit_ds(ctx, o, &qs, round == 0 && k < 3);
            // 3. reader differential on the real output and on single-edit mutants of it; the grammar
            // reader on the real output against the quads it was produced from
            if !outside && k < 6 {
                if o.ascii {
                    // pure-ASCII output (once the mode exists): same two differentials on it
                    let asc = Opts { sink: SinkKind::Vec, ..o };
                    if let Ok(Ok(txt)) = catch(|| serialize_with(&qs, &asc)) {
                        if let Ok(txt) = String::from_utf8(txt) {
                            emit_rd(ctx, &asc, &txt, &qs);
                            ctx.emit(&format!("p {} {}", if nt { "nt" } else { "nq" }, hex(&txt)));
                            ctx.stats.bump("doc.ascii_output");
                        }
                    }
                }
                let plain = Opts { sink: SinkKind::Vec, ascii: false, ..o };
                if let Ok(Ok(txt)) = catch(|| serialize_with(&qs, &plain)) {
                    let Ok(txt) = String::from_utf8(txt) else { continue };
                    let mode = if nt { "nt" } else { "nq" };
                    emit_rd(ctx, &plain, &txt, &qs);
                    if qs.len() <= 5 {
                        ctx.emit(&format!("p {} {}", mode, hex(&txt)));
                        ctx.stats.bump("doc.serializer_output");
                        for _ in 0..3 {
                            let m = mutate(ctx, &txt);
                            ctx.emit(&format!("p {} {}", mode, hex(&m)));
                        }
                    }
                }
            }
        }
    }

    // 4. one big document per entry point: nothing may depend on the number of statements
    let big = if ctx.thorough { 10000 } else { 2000 };
    let tg = build_termgen(ctx, false);
    for (i, entry) in [Entry::Src, Entry::Coll, Entry::Set].into_iter().enumerate() {
        let nq = i != 1;
        let mut qs: Vec<Q> = (0..big)
            .map(|j| {
                let mut q = tg.strict_quad(&mut ctx.rng);
                // distinct statements, so that a set container holds them all
                q.s = T::Bnode(format!("n{}", j));
                if !nq {
                    q.g = None;
                }
                q
            })
            .collect();
        if entry != Entry::Set {
            let d = qs[big / 2].clone();
            qs.push(d);
        }
        let o = Opts { entry, ..Opts::plain(nq) };
        ctx.stats.bump("ds.size.big");
        ctx.stats.add("ds.big_statements", qs.len() as u64);
        emit_ds(ctx, o, &qs, false);
        if let Ok(Ok(txt)) = catch(|| serialize_with(&qs, &o)) {
            if let Ok(txt) = String::from_utf8(txt) {
                emit_rd(ctx, &o, &txt, &qs);
            }
        }
    }
}

fn emit_ds(ctx: &mut GenCtx, o: Opts, qs: &[Q], sample: bool) {
    ctx.stats.bump(if o.nq { "ds.nq" } else { "ds.nt" });
    ctx.stats.bump(match o.entry {
        Entry::Src => "entry.source",
        Entry::Coll => "entry.vec_container",
        Entry::Set => "entry.hashset_container",
    });
    ctx.stats.bump(match o.sink {
        SinkKind::Vec => "sink.stringifier",
        SinkKind::Short(_) => "sink.short_writes",
        SinkKind::BufW => "sink.bufwriter",
        SinkKind::Fail(_) => "sink.failing",
    });
    if o.ascii {
        ctx.stats.bump("ds.ascii_mode");
    }
    let line = format!("ds {} {}", o.render(), qs.iter().map(|q| q.render()).collect::<Vec<_>>().join(" "));
    if sample {
        ctx.stats.sample(line.clone());
    }
    ctx.emit(&line);
}

fn emit_rd(ctx: &mut GenCtx, o: &Opts, txt: &str, qs: &[Q]) {
    let sorted = o.entry == Entry::Set;
    ctx.stats.bump(if sorted { "rd.sorted" } else { "rd.ordered" });
    ctx.emit(&format!(
        "rd {}{} {} {}",
        if o.nq { "nq" } else { "nt" },
        if sorted { ":s" } else { "" },
        hex(txt),
        qs.iter().map(|q| q.render()).collect::<Vec<_>>().join(" ")
    ));
}

/// texts of 4 KiB .. 64 KiB: every escape class and multi-byte characters, with paddings of every
/// length 0..=16 in front, so that each of them meets each offset of a 16-byte block, and of a 4 KiB /
/// 8 KiB / 64 KiB buffer boundary
fn long_texts(ctx: &mut GenCtx) -> Vec<String> {
    let mut v = vec![];
    let units = ["\n", "\r", "\"", "\\", "\r\n", "\\\"", "é", "\u{20ac}", "\u{1F600}", "\t", "\u{0}", "\u{7f}", "a"];
    // (1) each unit at each offset 0..=16 of a block, the block repeated
    for pad in 0..=16usize {
        let mut s = String::new();
        let mut i = pad;
        while s.len() < 4200 {
            s.push_str(&"x".repeat(i % 17));
            s.push_str(units[i % units.len()]);
            i += 1;
        }
        v.push(s);
    }
    // (2) a unit exactly before / on / after the boundary of a buffer of 2^k bytes
    for size in [64usize, 4096, 8192, 65536] {
        for u in ["\n", "\"", "\\", "\r", "\u{1F600}", "é\n"] {
            for delta in [0usize, 1, 2] {
                let n = size + 1 - delta.min(size);
                let mut s = "y".repeat(n.saturating_sub(u.len()));
                s.push_str(u);
                s.push_str("z\\");
                s.push_str(u);
                v.push(s);
            }
        }
    }
    // (3) dense: nothing but escapable characters, and random mixtures
    v.push("\n".repeat(5000));
    v.push("\\\"".repeat(3000));
    v.push("\r\n".repeat(4099));
    let classes = lex_classes();
    for _ in 0..(if ctx.thorough { 40 } else { 6 }) {
        let mut s = String::new();
        let target = ctx.rng.range(3000, 70000);
        while s.len() < target {
            if ctx.rng.chance(1, 2) {
                let n = ctx.rng.below(40);
                s.push_str(&"w".repeat(n));
            }
            s.push_str(&ctx.rng.pick(&classes).1);
        }
        v.push(s);
    }
    v
}

/// terms of other types than SimpleTerm through `write_term`
fn gen_natives(ctx: &mut GenCtx) {
    let mut cases: Vec<(&'static str, String)> = vec![];
    for s in ["", "a", "a\"b\\c\nd\re", "\n", "\\", "é\u{1F600}", "x\r"] {
        cases.push(("str", s.to_string()));
    }
    for n in [0i64, 1, -1, 42, i32::MAX as i64, i32::MIN as i64] {
        cases.push(("i32", n.to_string()));
        cases.push(("isize", n.to_string()));
        if n >= 0 {
            cases.push(("usize", n.to_string()));
        }
    }
    for x in [0.0f64, -0.0, 1.0, -1.5, 1e21, 1e-7, 0.1, f64::MAX, f64::MIN_POSITIVE, f64::INFINITY, f64::NEG_INFINITY, f64::NAN, 123456789.125] {
        cases.push(("f64", format!("{:x}", x.to_bits())));
    }
    for _ in 0..10 {
        cases.push(("f64", format!("{:x}", ctx.rng.next())));
        cases.push(("i32", (ctx.rng.next() as i32).to_string()));
    }
    cases.push(("bool", "true".into()));
    cases.push(("bool", "false".into()));
    for i in IRIS {
        cases.push(("iri", i.to_string()));
        cases.push(("iriref", i.to_string()));
    }
    for l in ["b0", "x.y", "0", "a.1", "a\u{b7}", "a-", "é\u{10000}"] {
        cases.push(("bnode", l.to_string()));
    }
    // NsTerm: namespace + suffix kept apart (the datatype of native literals is one of these too)
    for (ns, sfx) in [
        (tgen::XSD, "string"), (tgen::XSD, "integer"), (tgen::XSD, "substring"), (tgen::XSD, ""), (tgen::RDF, "type"),
        (tgen::RDF, "langString"), ("http://ex.org/", "é\u{10000}"), ("x:", "a.b"), ("http://ex.org/a#", "b?c"),
    ] {
        cases.push(("ns", format!("{} {}", ns, sfx)));
    }
    for (kind, payload) in cases {
        let mut line = None;
        with_native(kind, &payload, &mut |_w, seen, _eq| {
            line = Some(format!("nat {} {} {}", kind, hex(&payload), seen.render()));
        });
        if let Some(l) = line {
            ctx.stats.bump(&format!("native.{}", kind));
            ctx.emit(&l);
        }
    }
}

// ------------------------------------------------------------------ executor

type SQ = Spog<SimpleTerm<'static>>;

/// which public entry point of the serializer is fed
#[derive(Clone, Copy, PartialEq, Debug)]
enum Entry {
    /// `serialize_triples` / `serialize_quads` on an iterator source
    Src,
    /// `serialize_graph(&Vec<[T;3]>)` / `serialize_dataset(&Vec<Spog<T>>)` (default methods of api/src/serializer.rs)
    Coll,
    /// `serialize_graph(&HashSet<[T;3]>)` / `serialize_dataset(&HashSet<Spog<T>>)`: a set container, arbitrary order
    Set,
}

/// where the bytes go
#[derive(Clone, Copy, PartialEq, Debug)]
enum SinkKind {
    /// `new_stringifier()` + `as_utf8()`
    Vec,
    /// an `io::Write` that takes at most k bytes per `write` call (legal; `write_all` must cope)
    Short(usize),
    /// `BufWriter` around such a sink
    BufW,
    /// an `io::Write` that fails once n bytes were taken: the serializer must report an error
    Fail(usize),
}

#[derive(Clone, Copy, Debug)]
struct Opts {
    nq: bool,
    ascii: bool,
    entry: Entry,
    sink: SinkKind,
}

impl Opts {
    fn plain(nq: bool) -> Opts {
        Opts { nq, ascii: false, entry: Entry::Src, sink: SinkKind::Vec }
    }
    fn parse(tok: &str) -> Option<Opts> {
        let (mode, rest) = match tok.split_once(':') {
            Some((m, r)) => (m, r),
            None => (tok, ""),
        };
        let mut o = Opts::plain(match mode {
            "nq" => true,
            "nt" => false,
            _ => return None,
        });
        for x in rest.split(',').filter(|x| !x.is_empty()) {
            match x {
                "ascii" => o.ascii = true,
                "src" => o.entry = Entry::Src,
                "coll" => o.entry = Entry::Coll,
                "set" => o.entry = Entry::Set,
                "vec" => o.sink = SinkKind::Vec,
                "bufw" => o.sink = SinkKind::BufW,
                _ => {
                    if let Some(k) = x.strip_prefix("short") {
                        o.sink = SinkKind::Short(k.parse().ok().filter(|k| *k > 0)?);
                    } else if let Some(n) = x.strip_prefix("fail") {
                        o.sink = SinkKind::Fail(n.parse().ok()?);
                    } else {
                        return None;
                    }
                }
            }
        }
        Some(o)
    }
    fn render(&self) -> String {
        let mut v: Vec<String> = vec![];
        if self.ascii {
            v.push("ascii".into());
        }
        match self.entry {
            Entry::Src => {}
            Entry::Coll => v.push("coll".into()),
            Entry::Set => v.push("set".into()),
        }
        match self.sink {
            SinkKind::Vec => {}
            SinkKind::BufW => v.push("bufw".into()),
            SinkKind::Short(k) => v.push(format!("short{}", k)),
            SinkKind::Fail(n) => v.push(format!("fail{}", n)),
        }
        let m = if self.nq { "nq" } else { "nt" };
        if v.is_empty() { m.to_string() } else { format!("{}:{}", m, v.join(",")) }
    }
}

struct Sink {
    buf: Vec<u8>,
    per_call: usize,
    limit: Option<usize>,
}
impl io::Write for Sink {
    fn write(&mut self, b: &[u8]) -> io::Result<usize> {
        if b.is_empty() {
            return Ok(0);
        }
        let mut n = b.len().min(self.per_call);
        if let Some(l) = self.limit {
            let room = l.saturating_sub(self.buf.len());
            if room == 0 {
                return Err(io::Error::new(io::ErrorKind::Other, "sink full"));
            }
            n = n.min(room);
        }
        self.buf.extend_from_slice(&b[..n]);
        Ok(n)
    }
    fn flush(&mut self) -> io::Result<()> {
        Ok(())
    }
}

fn feed_nt<W: io::Write>(ser: &mut NtSerializer<W>, qs: &[Q], entry: Entry) -> Result<(), String> {
    let data: Vec<[SimpleTerm<'static>; 3]> = qs.iter().map(|q| tgen::q_to_simple(q).0).collect();
    match entry {
        Entry::Src => ser.serialize_triples(data.into_iter().map(Ok::<_, Infallible>)).map(|_| ()).map_err(|e| e.to_string()),
        Entry::Coll => ser.serialize_graph(&data).map(|_| ()).map_err(|e| e.to_string()),
        Entry::Set => {
            let set: HashSet<[SimpleTerm<'static>; 3]> = data.into_iter().collect();
            ser.serialize_graph(&set).map(|_| ()).map_err(|e| e.to_string())
        }
    }
}

fn feed_nq<W: io::Write>(ser: &mut NqSerializer<W>, qs: &[Q], entry: Entry) -> Result<(), String> {
    let data: Vec<SQ> = qs.iter().map(tgen::q_to_simple).collect();
    match entry {
        Entry::Src => ser.serialize_quads(data.into_iter().map(Ok::<_, Infallible>)).map(|_| ()).map_err(|e| e.to_string()),
        Entry::Coll => ser.serialize_dataset(&data).map(|_| ()).map_err(|e| e.to_string()),
        Entry::Set => {
            let set: HashSet<SQ> = data.into_iter().collect();
            ser.serialize_dataset(&set).map(|_| ()).map_err(|e| e.to_string())
        }
    }
}

fn feed<W: io::Write>(w: W, qs: &[Q], o: &Opts) -> Result<(), String> {
    let mut cfg = NtConfig::default();
    cfg.set_ascii(o.ascii);
    if o.nq {
        feed_nq(&mut NqSerializer::new_with_config(w, cfg), qs, o.entry)
    } else {
        feed_nt(&mut NtSerializer::new_with_config(w, cfg), qs, o.entry)
    }
}

fn serialize_with(qs: &[Q], o: &Opts) -> Result<Vec<u8>, String> {
    match o.sink {
        SinkKind::Vec => {
            let mut cfg = NtConfig::default();
            cfg.set_ascii(o.ascii);
            if o.nq {
                let mut ser = NqSerializer::new_stringifier_with_config(cfg);
                feed_nq(&mut ser, qs, o.entry)?;
                Ok(ser.as_utf8().to_vec())
            } else {
                let mut ser = NtSerializer::new_stringifier_with_config(cfg);
                feed_nt(&mut ser, qs, o.entry)?;
                Ok(ser.as_utf8().to_vec())
            }
        }
        SinkKind::Short(k) => {
            let mut sink = Sink { buf: vec![], per_call: k, limit: None };
            feed(&mut sink, qs, o)?;
            Ok(sink.buf)
        }
        SinkKind::BufW => {
            let mut sink = Sink { buf: vec![], per_call: 5, limit: None };
            {
                let mut bw = io::BufWriter::with_capacity(7, &mut sink);
                feed(&mut bw, qs, o)?;
                io::Write::flush(&mut bw).map_err(|e| e.to_string())?;
            }
            Ok(sink.buf)
        }
        SinkKind::Fail(n) => {
            let mut sink = Sink { buf: vec![], per_call: 4, limit: Some(n) };
            feed(&mut sink, qs, o)?;
            Ok(sink.buf)
        }
    }
}

fn parse(txt: &str, which: &str) -> Result<Vec<Q>, String> {
    let mut out: Vec<Q> = vec![];
    match which {
        "nt" => sophia_turtle::parser::nt::parse_str(txt)
            .for_each_triple(|t| out.push(tgen::view_triple(t)))
            .map_err(|e| e.to_string())?,
        "nq" => sophia_turtle::parser::nq::parse_str(txt)
            .for_each_quad(|q| out.push(tgen::view_quad(q)))
            .map_err(|e| e.to_string())?,
        _ => sophia_turtle::parser::gnq::parse_str(txt)
            .for_each_quad(|q| out.push(tgen::view_quad(q)))
            .map_err(|e| e.to_string())?,
    }
    Ok(out)
}

/// the other entry point of the parser glue: `parse_bufread` on a reader with a tiny buffer (every
/// token straddles a refill)
fn parse_buf(txt: &str, nq: bool, cap: usize) -> Result<Vec<Q>, String> {
    let mut out: Vec<Q> = vec![];
    let rd = io::BufReader::with_capacity(cap, txt.as_bytes());
    if nq {
        sophia_turtle::parser::nq::parse_bufread(rd)
            .for_each_quad(|q| out.push(tgen::view_quad(q)))
            .map_err(|e| e.to_string())?
    } else {
        sophia_turtle::parser::nt::parse_bufread(rd)
            .for_each_triple(|t| out.push(tgen::view_triple(t)))
            .map_err(|e| e.to_string())?
    }
    Ok(out)
}

/// parser source piped straight into the serializer: the terms the serializer sees are Rio's,
/// wrapped as `Trusted<…>` (rio/src/model.rs), not `SimpleTerm`s
fn pipe(txt: &str, nq: bool) -> Result<Vec<u8>, String> {
    if nq {
        let mut ser = NqSerializer::new_stringifier();
        ser.serialize_quads(sophia_turtle::parser::nq::parse_str(txt)).map_err(|e| e.to_string())?;
        Ok(ser.as_utf8().to_vec())
    } else {
        let mut ser = NtSerializer::new_stringifier();
        ser.serialize_triples(sophia_turtle::parser::nt::parse_str(txt)).map_err(|e| e.to_string())?;
        Ok(ser.as_utf8().to_vec())
    }
}

/// language tags compare case-insensitively (`LanguageTag::eq`); Rio lower-cases what it reads
fn canon_t(t: &T) -> T {
    match t {
        T::Lang(l, tag) => T::Lang(l.clone(), tag.to_ascii_lowercase()),
        T::Triple(b) => T::Triple(Box::new([canon_t(&b[0]), canon_t(&b[1]), canon_t(&b[2])])),
        x => x.clone(),
    }
}
fn canon_q(q: &Q) -> Q {
    Q { s: canon_t(&q.s), p: canon_t(&q.p), o: canon_t(&q.o), g: q.g.as_ref().map(canon_t) }
}

fn term_valid(t: &T) -> bool {
    match t {
        T::Iri(s) => sophia_iri::Iri::new(s.as_str()).is_ok(),
        T::Bnode(s) => BnodeId::new(s.as_str()).is_ok(),
        T::Lit(_, d) => sophia_iri::Iri::new(d.as_str()).is_ok(),
        T::Lang(_, tag) => LanguageTag::new(tag.as_str()).is_ok(),
        T::Triple(b) => b.iter().all(term_valid),
        T::Var(_) => false,
    }
}
fn term_bcp(t: &T) -> bool {
    match t {
        T::Lang(_, tag) => oxilangtag::LanguageTag::parse(tag.as_str()).is_ok(),
        T::Triple(b) => b.iter().all(term_bcp),
        _ => true,
    }
}
#[derive(Clone, Copy, PartialEq)]
enum Pos {
    S,
    P,
    O,
    G,
}
fn pos_ok(pos: Pos, t: &T) -> bool {
    match (pos, t) {
        (Pos::S, T::Iri(_)) | (Pos::S, T::Bnode(_)) | (Pos::P, T::Iri(_)) | (Pos::G, T::Iri(_)) | (Pos::G, T::Bnode(_)) => true,
        (Pos::O, T::Iri(_)) | (Pos::O, T::Bnode(_)) | (Pos::O, T::Lit(..)) | (Pos::O, T::Lang(..)) => true,
        (Pos::S, T::Triple(b)) | (Pos::O, T::Triple(b)) => pos_ok(Pos::S, &b[0]) && pos_ok(Pos::P, &b[1]) && pos_ok(Pos::O, &b[2]),
        _ => false,
    }
}
fn quad_all(q: &Q, f: fn(&T) -> bool) -> bool {
    f(&q.s) && f(&q.p) && f(&q.o) && q.g.as_ref().map(f).unwrap_or(true)
}
fn strict(q: &Q) -> bool {
    pos_ok(Pos::S, &q.s) && pos_ok(Pos::P, &q.p) && pos_ok(Pos::O, &q.o) && q.g.as_ref().map(|g| pos_ok(Pos::G, g)).unwrap_or(true)
}

fn b(x: bool) -> &'static str {
    if x { "1" } else { "0" }
}

fn render_quads(qs: &[Q]) -> String {
    qs.iter().map(|q| canon_q(q).render()).collect::<Vec<_>>().join(";")
}

/// rendering with the tags as they are; `sorted` for set containers (order is not part of a dataset)
fn render_exact(qs: &[Q], sorted: bool) -> String {
    let mut v: Vec<String> = qs.iter().map(|q| q.render()).collect();
    if sorted {
        v.sort();
    }
    v.join(";")
}

/// `got` against `want`: as lists, or as multisets when the source was a set container
fn same_quads(got: &[Q], want: &[Q], unordered: bool) -> (bool, bool) {
    if unordered {
        let key = |qs: &[Q], canon: bool| {
            let mut v: Vec<String> = qs.iter().map(|q| if canon { canon_q(q).render() } else { q.render() }).collect();
            v.sort();
            v
        };
        (key(got, true) == key(want, true), key(got, false) == key(want, false))
    } else {
        let canon_eq = got.len() == want.len() && got.iter().zip(want).all(|(a, b)| canon_q(a) == canon_q(b));
        (canon_eq, got == want)
    }
}

fn verdict(r: Result<Result<Vec<Q>, String>, String>, want: &[Q], unordered: bool) -> (String, bool) {
    match r {
        Err(_) => ("panic".into(), false),
        Ok(Err(_)) => ("0".into(), false),
        Ok(Ok(got)) => {
            let (c, e) = same_quads(&got, want, unordered);
            (b(c).into(), e)
        }
    }
}

fn roundtrip(txt: &str, which: &'static str, want: &[Q], unordered: bool) -> (String, bool) {
    let t = txt.to_string();
    verdict(catch(move || parse(&t, which)), want, unordered)
}

/// set containers: the quads they hold (exact duplicates collapse; the generator never emits two
/// quads that differ by tag case only, which `SimpleTerm::eq` would merge)
fn dedup(qs: &[Q]) -> Vec<Q> {
    let mut out: Vec<Q> = vec![];
    for q in qs {
        if !out.contains(q) {
            out.push(q.clone());
        }
    }
    out
}

fn sorted_lines(out: &[u8]) -> Vec<u8> {
    let mut lines: Vec<&[u8]> = out.split_inclusive(|c| *c == b'\n').collect();
    lines.sort();
    lines.concat()
}

fn exec_ds(o: Opts, qs: Vec<Q>) -> String {
    let nq = o.nq;
    let unordered = o.entry == Entry::Set;
    let want: Vec<Q> = if unordered { dedup(&qs) } else { qs.clone() };
    let valid = qs.iter().all(|q| quad_all(q, term_valid) && strict(q));
    let bcp = qs.iter().all(|q| quad_all(q, term_bcp));
    let qs2 = qs.clone();
    let out = match catch(move || serialize_with(&qs2, &o)) {
        // the oracle fields are present so that a panic / an error on a dataset of the property's
        // domain is a failing input, not only a difference with the model
        Err(_) => return format!("out=panic valid={} bcp={} lines=panic nl_end=panic rt=panic rt_gnq=panic rt_buf=panic rt_pipe=panic", b(valid), b(bcp)),
        Ok(Err(_)) => return format!("out=err valid={} bcp={} lines=err nl_end=err rt=err rt_gnq=err rt_buf=err rt_pipe=err", b(valid), b(bcp)),
        Ok(Ok(x)) => x,
    };
    let lines = out.iter().filter(|c| **c == b'\n').count();
    let nl_end = out.is_empty() || out.ends_with(b"\n");
    let shown = if unordered { sorted_lines(&out) } else { out.clone() };
    let txt = match String::from_utf8(out.clone()) {
        Ok(t) => t,
        Err(_) => return format!("out={} FAIL.utf8=1", hex_bytes(&shown)),
    };
    let which = if nq { "nq" } else { "nt" };
    let (rt, exact) = roundtrip(&txt, which, &want, unordered);
    let (rt_gnq, _) = roundtrip(&txt, "gnq", &want, unordered);
    // parse_bufread with a buffer of a few bytes
    let cap = 1 + (txt.len() % 7);
    let t2 = txt.clone();
    let (rt_buf, _) = verdict(catch(move || parse_buf(&t2, nq, cap)), &want, unordered);
    // parser -> serializer -> parser, the serializer reading Rio's terms
    let t3 = txt.clone();
    let rt_pipe = match catch(move || pipe(&t3, nq)) {
        Err(_) => "panic".to_string(),
        Ok(Err(_)) => "0".to_string(),
        Ok(Ok(bytes)) => match String::from_utf8(bytes) {
            Err(_) => "utf8".to_string(),
            Ok(t) => roundtrip(&t, which, &want, unordered).0,
        },
    };
    let mut r = format!(
        "out={} valid={} bcp={} lines={} nl_end={} rt={} rt_gnq={} rt_buf={} rt_pipe={} exact={}",
        hex_bytes(&shown), b(valid), b(bcp), lines, b(nl_end), rt, rt_gnq, rt_buf, rt_pipe, b(exact)
    );
    if o.ascii {
        r.push_str(&format!(" ascii_only={}", b(out.is_ascii())));
    }
    // one statement per line: every line of the output is a complete statement of its own
    if valid && bcp && !unordered {
        let per_line_ok = txt.split_inclusive('\n').zip(want.iter()).all(|(l, q)| {
            let (r1, _) = roundtrip(l, which, std::slice::from_ref(q), false);
            r1 == "1"
        });
        if !per_line_ok || txt.split_inclusive('\n').count() != want.len() {
            r.push_str(" FAIL.per_line=1");
        }
    }
    r
}

/// terms of other types than `SimpleTerm` (native literals, `NsTerm`, `Iri`, `BnodeId`, borrowed terms)
fn with_native<R>(kind: &str, payload: &str, f: &mut dyn FnMut(&dyn Fn(&mut Vec<u8>) -> io::Result<()>, T, &dyn Fn(&SimpleTerm) -> bool) -> R) -> Option<R> {
    macro_rules! go {
        ($t:expr) => {{
            let t = $t;
            Some(f(&|w| sophia_turtle::serializer::nt::write_term(w, t.borrow_term()), tgen::view(t.borrow_term()), &|x| Term::eq(&t, x)))
        }};
    }
    match kind {
        "str" => go!(payload),
        "i32" => go!(payload.parse::<i32>().ok()?),
        "isize" => go!(payload.parse::<isize>().ok()?),
        "usize" => go!(payload.parse::<usize>().ok()?),
        "f64" => go!(f64::from_bits(u64::from_str_radix(payload, 16).ok()?)),
        "bool" => go!(payload == "true"),
        "iri" => go!(sophia_iri::Iri::new_unchecked(payload)),
        "iriref" => go!(sophia_iri::IriRef::new_unchecked(payload)),
        "bnode" => go!(BnodeId::new_unchecked(payload)),
        "ns" => {
            let (ns, suffix) = payload.split_once(' ')?;
            let ns = sophia_api::ns::Namespace::new_unchecked(ns);
            go!(ns.get_unchecked(suffix))
        }
        _ => None,
    }
}

fn exec_nat(kind: &str, payload: &str) -> String {
    let r = catch({
        let kind = kind.to_string();
        let payload = payload.to_string();
        move || {
            with_native(&kind, &payload, &mut |write, seen, eq| {
                let mut buf: Vec<u8> = vec![];
                if write(&mut buf).is_err() {
                    return "out=err rt=err".to_string();
                }
                let mut doc = b"<x:s> <x:p> ".to_vec();
                doc.extend_from_slice(&buf);
                doc.extend_from_slice(b" .\n");
                let rt = match String::from_utf8(doc) {
                    Err(_) => "utf8",
                    Ok(d) => {
                        let mut back: Vec<SimpleTerm<'static>> = vec![];
                        match sophia_turtle::parser::nt::parse_str(&d).for_each_triple(|t| {
                            use sophia_api::triple::Triple;
                            back.push(t.o().into_term())
                        }) {
                            Err(_) => "0",
                            Ok(_) if back.len() != 1 => "count",
                            Ok(_) => b(eq(&back[0])),
                        }
                    }
                };
                format!("out={} seen={} rt={}", hex_bytes(&buf), hex(&seen.render()), rt)
            })
        }
    });
    match r {
        Err(_) => "out=panic rt=panic".into(),
        Ok(None) => "bad-op".into(),
        Ok(Some(s)) => s,
    }
}

pub fn exec(line: &str) -> String {
    let f: Vec<&str> = line.split_whitespace().collect();
    match f.as_slice() {
        ["ds", mode, rest @ ..] => {
            let Some(o) = Opts::parse(mode) else { return "bad-op".into() };
            let mut it = rest.iter().copied().peekable();
            let mut qs: Vec<Q> = vec![];
            while it.peek().is_some() {
                match Q::parse(&mut it) {
                    Some(q) => qs.push(q),
                    None => return "bad-op".into(),
                }
            }
            if !o.nq && qs.iter().any(|q| q.g.is_some()) {
                return "bad-op".into();
            }
            exec_ds(o, qs)
        }
        ["rd", mode, _h, rest @ ..] => {
            // the independent reader (model side) on bytes the real serializer produced: this side only
            // says what they were produced from
            let sorted = mode.ends_with(":s");
            let mut it = rest.iter().copied().peekable();
            let mut qs: Vec<Q> = vec![];
            while it.peek().is_some() {
                match Q::parse(&mut it) {
                    Some(q) => qs.push(q),
                    None => return "bad-op".into(),
                }
            }
            format!("reads={}", hex(&render_exact(&qs, sorted)))
        }
        ["nat", kind, h, ..] => {
            let Some(payload) = unhex(h) else { return "bad-hex".into() };
            exec_nat(kind, &payload)
        }
        ["p", mode, h] => {
            let Some(doc) = unhex(h) else { return "bad-hex".into() };
            let which: &'static str = if *mode == "nq" { "nq" } else { "nt" };
            match catch(move || parse(&doc, which)) {
                Err(_) => "ok=panic".into(),
                Ok(Err(_)) => "ok=0".into(),
                Ok(Ok(qs)) => format!("ok=1 n={} quads={}", qs.len(), hex(&render_quads(&qs))),
            }
        }
        ["e", h] => {
            let Some(s) = unhex(h) else { return "bad-hex".into() };
            let lit: SimpleTerm<'static> =
                tgen::to_simple(&T::Lit(s.clone(), "http://www.w3.org/2001/XMLSchema#string".into()));
            let buf: Vec<u8>;
            let l2 = lit.clone();
            let w = catch(move || {
                let mut buf: Vec<u8> = vec![];
                sophia_turtle::serializer::nt::write_term(&mut buf, &l2).map(|_| buf)
            });
            match w {
                // `back` is present so that the oracle (`o.back`) sees the failure
                Err(_) => return "q=panic back=panic".into(),
                Ok(Err(_)) => return "q=err back=err".into(),
                Ok(Ok(x)) => buf = x,
            }
            // what comes back is decided by the parser alone; the spelling (`q=`, compared with the model's
            // bytes) is not part of the oracle: a still-valid respelling such as an explicit ^^xsd:string
            // must not turn into a failing input
            let shape_ok = buf.len() >= 2 && buf[0] == b'"' && buf[buf.len() - 1] == b'"';
            let mut doc = b"<x:s> <x:p> ".to_vec();
            doc.extend_from_slice(&buf);
            doc.extend_from_slice(b" .\n");
            let back = match String::from_utf8(doc) {
                Err(_) => "utf8".to_string(),
                Ok(d) => match catch(move || parse(&d, "nt")) {
                    Ok(Ok(qs)) if qs.len() == 1 => match &qs[0].o {
                        T::Lit(l, dt) if dt == "http://www.w3.org/2001/XMLSchema#string" => hex(l),
                        T::Lit(..) => "datatype".into(),
                        _ => "kind".into(),
                    },
                    Ok(Ok(_)) => "count".into(),
                    Ok(Err(_)) => "err".into(),
                    Err(_) => "panic".into(),
                },
            };
            if !shape_ok {
                return format!("q=unquoted:{} back={}", hex_bytes(&buf), back);
            }
            let inner = &buf[1..buf.len() - 1];
            format!("q={} back={}", hex_bytes(inner), back)
        }
        _ => "bad-op".into(),
    }
}

fn main() {
    vhcore::main_loop(generate, exec)
}
