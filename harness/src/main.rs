//! Correspondence harness `vh`.
//!
//!   vh gen  <prop> <seed> <tier> <stats.json>   > requests   (one case per line)
//!   vh exec <prop>                < requests    > replies    (real implementation, in-process)
//!
//! Requests are self-contained, so a replay file is just a request line.
pub mod util;
pub mod rxgen;
pub mod tgen;

use std::io::{BufRead, Write};

pub struct GenCtx {
    pub rng: util::Rng,
    pub thorough: bool,
    pub stats: util::Stats,
    pub out: std::io::BufWriter<std::io::Stdout>,
}

impl GenCtx {
    pub fn emit(&mut self, line: &str) {
        debug_assert!(!line.contains('\n'));
        writeln!(self.out, "{}", line).unwrap();
        self.stats.bump("requests");
    }
}

type GenFn = fn(&mut GenCtx);
type ExecFn = fn(&str) -> String;

include!(concat!(env!("OUT_DIR"), "/registry.rs"));

fn main() {
    let args: Vec<String> = std::env::args().collect();
    std::panic::set_hook(Box::new(|_| {}));
    if args.len() < 3 {
        eprintln!("usage: vh gen|exec <prop> ...");
        std::process::exit(2);
    }
    let Some((g, e)) = table(&args[2]) else {
        eprintln!("unknown property {}", args[2]);
        std::process::exit(2);
    };
    match args[1].as_str() {
        "gen" => {
            let seed: u64 = args.get(3).and_then(|s| s.parse().ok()).unwrap_or(0);
            let thorough = args.get(4).map(|s| s == "thorough").unwrap_or(false);
            let mut ctx = GenCtx {
                rng: util::Rng::new(seed),
                thorough,
                stats: util::Stats::default(),
                out: std::io::BufWriter::new(std::io::stdout()),
            };
            g(&mut ctx);
            ctx.out.flush().unwrap();
            if let Some(p) = args.get(5) {
                std::fs::write(p, ctx.stats.to_json()).unwrap();
            }
        }
        "exec" => {
            let stdin = std::io::stdin();
            let mut out = std::io::BufWriter::new(std::io::stdout());
            for line in stdin.lock().lines() {
                let line = line.unwrap();
                let r = match util::catch(std::panic::AssertUnwindSafe(|| e(&line))) {
                    Ok(r) => r,
                    Err(m) => format!("panic={}", util::hex(&m)),
                };
                writeln!(out, "{}", r).unwrap();
            }
            out.flush().unwrap();
        }
        _ => {
            eprintln!("usage: vh gen|exec <prop> ...");
            std::process::exit(2);
        }
    }
}
