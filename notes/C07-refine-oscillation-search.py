#!/usr/bin/env python3
"""C07, termination of the refinement loop of isomorphic_datasets (NOT claimed by the proofs; see DESIGN.md 4.7).

Simulates the loop of isomorphism/src/dataset.rs under an *ideal* hash (a colour is the set of event traces with odd
multiplicity: XOR of independent 64-bit values) and looks for a dataset on which the number of colour classes keeps
changing (the only way the loop cannot stop).  With XOR-combination the class count is not monotone: nodes all of
whose mentioning statements pair up with equal traces fall back into one "zero" class (DECREASE lines).

  python3 notes/C07-refine-oscillation-search.py <seed> <samples>

Result 2026-09-30: 4.6 million random multigraphs (2-10 blank nodes, <= 22 statements, 1-2 predicates, blank graph
names) - the class count decreased at most once per run, longest run 4 rounds, no oscillation found.
"""
import random
import sys

def simulate(quads, maxr=200):
    # quads: list of (s,p,o,g) ; blank nodes = ints, ground = strings; g may be None
    nodes=sorted({t for q in quads for t in q if isinstance(t,int)})
    b2q={b:[i for i,q in enumerate(quads) if b in q] for b in nodes}
    col={b:('n',len(b2q[b])) for b in nodes}
    old=0; hist=[]
    for r in range(maxr):
        new={}
        for b in nodes:
            acc=set()
            for i in b2q[b]:
                tr=[]
                for pos,t in zip('spog',quads[i]):
                    if isinstance(t,int):
                        tr.append((pos if t==b else '', col[t]))
                    else: tr.append(t)
                tr=tuple(tr)
                if tr in acc: acc.remove(tr)
                else: acc.add(tr)
            new[b]=frozenset(acc)
        # intern
        ids={}
        for b in nodes: ids.setdefault(new[b],len(ids))
        col={b:('c',r,ids[new[b]]) if new[b] else ('zero',) for b in nodes}
        cnt=len(set(col.values()))
        hist.append(cnt)
        if cnt==old: return ('stagnate',r+1,hist)
        old=cnt
        if cnt==len(nodes): return ('distinct',r+1,hist)
    return ('HANG',maxr,hist)
def rnd(rng):
    n=rng.randint(2,7); m=rng.randint(1,12)
    preds=['p','q'][:rng.randint(1,2)]
    qs=set()
    for _ in range(m):
        s=rng.randrange(n); o=rng.randrange(n) if rng.random()<0.85 else 'lit'
        g=None if rng.random()<0.7 else rng.randrange(n)
        qs.add((s,rng.choice(preds),o,g))
    return sorted(qs,key=str)


if __name__ == "__main__":
    rng = random.Random(int(sys.argv[1]))
    N = int(sys.argv[2])
    most, longest = 0, 0
    for k in range(N):
        n = rng.randint(2, 10)
        m = rng.randint(1, 22)
        np_ = 1 if rng.random() < 0.7 else 2
        named = rng.random() < 0.3
        qs = set()
        for _ in range(m):
            s = rng.randrange(n)
            o = rng.randrange(n) if rng.random() < 0.9 else 'lit'
            g = rng.randrange(n) if named and rng.random() < 0.4 else None
            qs.add((s, 'pq'[rng.randrange(np_)], o, g))
        qs = sorted(qs, key=str)
        res = simulate(qs, 60)
        h = res[2]
        dec = sum(1 for i in range(len(h) - 1) if h[i + 1] < h[i])
        if res[0] == 'HANG':
            print('NON-TERMINATION', qs, res)
            sys.exit(1)
        if dec > most or res[1] > longest:
            most, longest = max(most, dec), max(longest, res[1])
            print('decreases', dec, 'rounds', res[1], h, qs)
    print('done: %d samples, at most %d decrease(s) per run, longest run %d rounds' % (N, most, longest))
