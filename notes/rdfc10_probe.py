import hashlib, itertools, sys, random
def H(s): return hashlib.sha256(s.encode()).hexdigest()
def nq_term(t, ref=None, mp=None):
    if t is None: return ''
    if t.startswith('_:'):
        if ref is not None: return ('_:a ' if t==ref else '_:z ')
        if mp is not None: return '_:'+mp[t]+' '
        return t+' '
    return t+' '
class Issuer:
    def __init__(s,p): s.p=p; s.m={}; s.o=[]
    def copy(s):
        c=Issuer(s.p); c.m=dict(s.m); c.o=list(s.o); return c
    def issue(s,b):
        if b in s.m: return s.m[b], False
        i=s.p+str(len(s.o)); s.m[b]=i; s.o.append(b); return i, True
def bnodes(q): return [t for t in q if t is not None and t.startswith('_:')]
def canon(quads, variant):
    b2q={}
    for q in quads:
        for b in set(bnodes(q)): b2q.setdefault(b,[]).append(q)
    def h1(b):
        lines=sorted(''.join(nq_term(t,ref=b) for t in q)+'.\n' for q in b2q[b])
        return H(''.join(lines))
    b2h={b:h1(b) for b in b2q}
    h2b={}
    for b in sorted(b2q): h2b.setdefault(b2h[b],[]).append(b)
    can=Issuer('c14n')
    for h in sorted(h2b):
        if len(h2b[h])==1: can.issue(h2b[h][0])
    rest={h:l for h,l in h2b.items() if len(l)>1}
    def hrel(rel,q,iss,pos):
        s=pos
        if pos!='g': s+=q[1] if False else '<'+q[1][1:-1]+'>'
        if rel in can.m: s+='_:'+can.m[rel]
        elif rel in iss.m: s+='_:'+iss.m[rel]
        else: s+=b2h[rel]
        return H(s)
    def skip(chosen,path):
        if not chosen: return False
        if variant=='spec': return len(path)>=len(chosen) and path>chosen
        # sophia smaller_path(chosen,path)
        if len(chosen)<len(path): return True
        if len(chosen)==len(path): return chosen<path
        return False
    def hnd(ident,iss):
        hn={}
        for q in b2q[ident]:
            for t,pos in zip(q,'spog'):
                if t is not None and t.startswith('_:') and t!=ident:
                    hn.setdefault(hrel(t,q,iss,pos),[]).append(t)
        data=''
        for rh in sorted(hn):
            data+=rh; chosen=''; chosen_iss=None
            for p in itertools.permutations(hn[rh]):
                ic=iss.copy(); path=''; rec=[]; sk=False
                for r in p:
                    if r in can.m: path+='_:'+can.m[r]
                    else:
                        i,new=ic.issue(r)
                        if new: rec.append(r)
                        path+='_:'+i
                    if variant=='spec' and skip(chosen,path): sk=True;break
                if sk: continue
                if variant!='spec' and skip(chosen,path): continue
                for r in rec:
                    res,ri=hnd(r,ic)
                    i,_=ic.issue(r)
                    path+='_:'+i+'<'+res+'>'; ic=ri
                    if skip(chosen,path): sk=True;break
                if sk: continue
                if not chosen or path<chosen: chosen=path; chosen_iss=ic
            data+=chosen; iss=chosen_iss
        return H(data), iss
    for h in sorted(rest):
        hpl=[]
        for n in rest[h]:
            if variant=='spec' and n in can.m: continue
            t=Issuer('b'); t.issue(n); hpl.append(hnd(n,t))
        hpl.sort(key=lambda x:x[0])
        for _,i in hpl:
            for b in i.o: can.issue(b)
    out=sorted(''.join(nq_term(t,mp=can.m) for t in q)+'.\n' for q in quads)
    return ''.join(out)
if __name__=='__main__':
    P='<x:p>';Q='<x:q>';G='<x:g>'
    best=None
    for chain in range(6,12):
        for extra in range(0,3):
            quads=[]
            # ring/chain of indistinguishable nodes a0..a(chain-1) in a cycle so all have same h1
            for i in range(chain):
                quads.append((f'_:a{i}',P,f'_:a{(i+1)%chain}',None))
            hub='_:a0'
            quads+= [(hub,Q,'_:x',None),(hub,Q,'_:x',G),(hub,Q,'_:y',None),('_:m',Q,'_:y',G)]
            for e in range(extra): quads.append((f'_:a{e+1}',Q,f'_:w{e}',None))
            a=canon(quads,'spec'); b=canon(quads,'sophia')
            print(chain,extra,a==b)
            if a!=b and best is None: best=quads
    if best:
        print('DIVERGENCE'); [print(q) for q in best]
