#!/usr/bin/env python3
"""Ask for `vp check` while holding the exclusive repo lock, so that the copy is never taken while a
seeded change is applied to /repo (tools/mutate.py) or a check is half way through."""
import fcntl, os, subprocess, sys
HERE = os.path.dirname(os.path.abspath(__file__)); VERIF = os.path.dirname(HERE)
with open(os.path.join(VERIF, ".cache", "gate.lock"), "w") as gate, open(os.path.join(VERIF, ".cache", "repo.lock"), "w") as lk:
    fcntl.flock(gate, fcntl.LOCK_EX)
    fcntl.flock(lk, fcntl.LOCK_EX)
    st = subprocess.run(["git", "-C", "/repo", "status", "--porcelain"], stdout=subprocess.PIPE).stdout.decode()
    if st.strip():
        print("/repo is not clean:\n" + st); sys.exit(2)
    sys.exit(subprocess.call(["vp", "check"]))
