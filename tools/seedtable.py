#!/usr/bin/env python3
"""Rewrite the seeded-changes table of DESIGN.md (between the SEEDTABLE markers) from seeded/*/meta.json."""
import glob, json, os, re
HERE = os.path.dirname(os.path.abspath(__file__)); VERIF = os.path.dirname(HERE)
rows = []
for f in sorted(glob.glob(os.path.join(VERIF, "seeded", "*", "meta.json"))):
    m = json.load(open(f)); sid = os.path.basename(os.path.dirname(f))
    summ = re.sub(r"\s+", " ", m.get("summary", "")).replace("|", "\\|")
    if len(summ) > 230: summ = summ[:227] + "…"
    caught = m.get("caught_by_check")
    how = m.get("caught_how", "")
    if not how:
        tail = " ".join(m.get("check_output_tail", []))
        mm = re.search(r"disagreements (\d+), oracle failures (\d+)", tail)
        ob = re.search(r"obligations (\d+)/(\d+)", tail)
        bits = []
        if ob and ob.group(1) != ob.group(2): bits.append("proof obligations %s/%s" % (ob.group(1), ob.group(2)))
        if mm:
            if int(mm.group(1)): bits.append("%s model/impl disagreements" % mm.group(1))
            if int(mm.group(2)): bits.append("%s oracle failures" % mm.group(2))
        if "no-failing-input-found" in tail: bits.append("no-failing-input-found")
        how = ", ".join(bits)
    note = m.get("strengthened", "")
    rows.append("| %s | %s | %s | %s%s |" % (sid, summ, "caught" if caught else "**missed**", how, (" — " + note) if note else ""))
table = "| seed | change | result | how / what was strengthened |\n|---|---|---|---|\n" + "\n".join(rows) + "\n"
p = os.path.join(VERIF, "DESIGN.md"); s = open(p).read()
b, e = "<!-- SEEDTABLE BEGIN -->", "<!-- SEEDTABLE END -->"
if b in s:
    s = s[:s.index(b) + len(b)] + "\n" + table + s[s.index(e):]
else:
    raise SystemExit("markers missing in DESIGN.md")
open(p, "w").write(s)
print("%d seeds, %d caught" % (len(rows), sum("| caught |" in r for r in rows)))
