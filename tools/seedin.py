#!/usr/bin/env python3
"""Confirm a seeded change produced by an independent agent and file it under /verif/seeded/.

  python3 tools/seedin.py C02 a "<demo command, run from the demo dir>" [--crates sophia_api,sophia_term] [--root /tmp/seed2]

Steps (all in the agent's scratch worktree /tmp/seed/Cxx, never in /repo):
  1. demo with the change -> must fail; change reverted -> must pass; change re-applied
  2. the touched crates' own tests pass with the change
  3. copy patch.diff, demo/, meta.json to /verif/seeded/Cxx-<slug>/
  4. run the property's check against the change (tools/mutate.py: applies to /repo under the exclusive lock,
     runs the check, restores /repo) and record whether it was caught
"""
import json, os, shutil, subprocess, sys
HERE = os.path.dirname(os.path.abspath(__file__)); VERIF = os.path.dirname(HERE)

def sh(cmd, cwd=None, env=None, timeout=3600):
    p = subprocess.run(cmd, shell=True, cwd=cwd, env=env, stdout=subprocess.PIPE, stderr=subprocess.STDOUT, timeout=timeout)
    return p.returncode, p.stdout.decode("utf-8", "replace")

def main():
    prop, slug, demo_cmd = sys.argv[1], sys.argv[2], sys.argv[3]
    crates = None
    if "--crates" in sys.argv:
        crates = sys.argv[sys.argv.index("--crates") + 1].split(",")
    root = "/tmp/seed"
    if "--root" in sys.argv:
        root = sys.argv[sys.argv.index("--root") + 1]
    wt = "%s/%s" % (root, prop)
    out = "%s/%s-out" % (root, prop)
    env = dict(os.environ, CARGO_TARGET_DIR="%s/%s-target" % (root, prop), CARGO_NET_OFFLINE="true")
    patch = os.path.join(out, "patch.diff")
    meta = json.load(open(os.path.join(out, "meta.json")))
    demo = os.path.join(out, "demo")
    # start from a clean scratch worktree (agents working in parallel worktrees share refs/stash: one
    # agent's `git stash pop` can land another's change here), then apply exactly the delivered patch
    sh("git checkout -- .", cwd=wt)
    rc, o = sh("git apply %s" % patch, cwd=wt)
    if rc != 0:
        print("cannot apply patch in worktree:", o); return 2
    rc1, o1 = sh(demo_cmd, cwd=demo, env=env)
    sh("git apply -R %s" % patch, cwd=wt)
    rc0, o0 = sh(demo_cmd, cwd=demo, env=env)
    sh("git apply %s" % patch, cwd=wt)
    print("demo with change: exit %d; without: exit %d" % (rc1, rc0))
    if not (rc1 != 0 and rc0 == 0):
        print("NOT CONFIRMED\n--- with change:\n%s\n--- without:\n%s" % (o1[-1500:], o0[-1500:]))
        return 1
    if crates is None:
        crates = sorted({"sophia_" + f.split("/")[0] for f in meta.get("files_touched", []) if "/" in f})
        crates = [c for c in crates if c != "sophia_sophia"] or ["sophia_api"]
    rct, ot = sh("cargo test --offline " + " ".join("-p " + c for c in crates), cwd=wt, env=env)
    tests_ok = rct == 0
    print("tests of %s with the change: %s" % (crates, "pass" if tests_ok else "FAIL"))
    if not tests_ok:
        print(ot[-2000:]); return 1
    dst = os.path.join(VERIF, "seeded", "%s-%s" % (prop, slug))
    if os.path.exists(dst):
        shutil.rmtree(dst)
    os.makedirs(dst)
    shutil.copy(patch, os.path.join(dst, "patch.diff"))
    shutil.copytree(demo, os.path.join(dst, "demo"), ignore=shutil.ignore_patterns("target", "Cargo.lock"))
    rcm, om = sh("%s %s %s %s" % (sys.executable, os.path.join(HERE, "mutate.py"), prop, os.path.join(dst, "patch.diff")), cwd=VERIF)
    tail = [l for l in om.split("\n") if l.strip() and not l.startswith("WARNING")][-6:]
    meta.update({"property": prop, "confirmed": {"demo_cmd": demo_cmd, "exit_with_change": rc1, "exit_without_change": rc0,
                 "crate_tests_with_change": "cargo test --offline " + " ".join("-p " + c for c in crates) + " : pass"},
                 "caught_by_check": rcm == 1, "check_cmd": "python3 tools/mutate.py %s seeded/%s-%s/patch.diff" % (prop, prop, slug),
                 "check_output_tail": tail})
    json.dump(meta, open(os.path.join(dst, "meta.json"), "w"), indent=1)
    print("\n".join(tail))
    print("filed under", dst, "caught" if rcm == 1 else "MISSED (exit %d)" % rcm)
    return 0

if __name__ == "__main__":
    sys.exit(main())
