#!/usr/bin/env python3
"""Build one property's harness binary:  python3 tools/cb.py c07 [extra cargo args]

Every harness/props/cNN is a STANDALONE crate (own empty [workspace] table, explicit path
dependencies, its own Cargo.lock copied from /repo) so that a broken or half-written crate of
another property can never break this one.  Shared settings (offline, --cfg sophia_verif, target
dir /verif/.cache/target, dev profile) live in harness/.cargo/config.toml.
This script normalises the manifest (rewrites `x.workspace = true` lines left over from the old
layout), provides the lock file, and runs `cargo build --offline` in the crate directory.
"""
import os
import re
import shutil
import subprocess
import sys

HERE = os.path.dirname(os.path.abspath(__file__))
VERIF = os.path.dirname(HERE)
HARNESS = os.path.join(VERIF, "harness")

PATHS = {
    "vhcore": '{ path = "../../core" }',
    "regex": '"1.11"',
    "regex-syntax": '"0.8"',
}
for c in ("api", "c14n", "inmem", "iri", "isomorphism", "jsonld", "resource", "rio", "sparql", "term", "turtle", "xml"):
    PATHS["sophia_" + c] = '{ path = "/repo/%s" }' % c


def normalise(crate_dir):
    p = os.path.join(crate_dir, "Cargo.toml")
    s = open(p).read()
    o = s
    s = re.sub(r'^version\.workspace = true$', 'version = "0.1.0"', s, flags=re.M)
    s = re.sub(r'^edition\.workspace = true$', 'edition = "2024"', s, flags=re.M)
    s = re.sub(r'^publish\.workspace = true$', 'publish = false', s, flags=re.M)

    def dep(m):
        name = m.group(1)
        if name not in PATHS:
            return m.group(0)
        return "%s = %s" % (name, PATHS[name])
    s = re.sub(r'^([\w-]+)\.workspace = true$', dep, s, flags=re.M)
    s = re.sub(r'^([\w-]+) = \{ workspace = true \}$', dep, s, flags=re.M)
    if not re.search(r'^\[workspace\]', s, flags=re.M):
        s = s.rstrip("\n") + "\n\n[workspace]\n"
    if s != o:
        open(p, "w").write(s)


def main():
    prop = sys.argv[1].lower()
    d = os.path.join(HARNESS, "props", prop)
    if not os.path.exists(os.path.join(d, "Cargo.toml")):
        print("no such crate", d)
        return 2
    normalise(d)
    lock = os.path.join(d, "Cargo.lock")
    if not os.path.exists(lock) and os.path.exists("/repo/Cargo.lock"):
        shutil.copy("/repo/Cargo.lock", lock)
    env = dict(os.environ, CARGO_NET_OFFLINE="true")
    return subprocess.call(["cargo", "build", "--offline"] + sys.argv[2:], cwd=d, env=env)


if __name__ == "__main__":
    sys.exit(main())
