#!/usr/bin/env python3
"""MANIFEST.json is generated from tools/props.py (single source of truth)."""
import json
import os
import sys

HERE = os.path.dirname(os.path.abspath(__file__))
VERIF = os.path.dirname(HERE)
sys.path.insert(0, HERE)
import props as P  # noqa: E402

ids = [json.loads(l)["id"] for l in open(os.path.join(VERIF, "properties.jsonl"))]
hook_commits = []
hp = os.path.join(VERIF, "hooks_commits.txt")
if os.path.exists(hp):
    hook_commits = [l.split()[0] for l in open(hp) if l.strip()]
checks = []
na = []
# a property is claimed only once the coordinator has verified its check on the unchanged tree
claimed_file = os.path.join(VERIF, "tools", "claimed.txt")
verified = set(open(claimed_file).read().split()) if os.path.exists(claimed_file) else set()
for i in ids:
    c = P.PROPS.get(i)
    if not c or not c.get("claimed", True) or i not in verified:
        na.append({"property_id": i, "reason": (c or {}).get("na_reason", "check not built yet in this commit (work in progress; DESIGN.md section 8 gives the order)")})
        continue
    checks.append({
        "property_id": i,
        "quick_cmd": "python3 tools/check.py %s --tier quick" % i,
        "thorough_cmd": "python3 tools/check.py %s --tier thorough" % i,
        "evidence_file": "evidence/%s.json" % i,
        "replay_cmd_template": "python3 tools/check.py %s --replay {path}" % i,
        "engine": "lean4+vh",
        "level_claimed": {"category": c.get("level", "proof"), "text": c["level_text"], "design_ref": c.get("design_ref", "")},
        "level_note": c["level_note"],
        "technique": c.get("technique", "Lean 4 kernel-checked theorems over a model tied to /repo by generated tables and a differential correspondence harness"),
    })
m = {
    "version": 1,
    "setup_cmd": "python3 tools/setup.py",
    "hooks": {"guard": "sophia_verif",
              "enable": "RUSTFLAGS='--cfg sophia_verif' (set for the harness in harness/.cargo/config.toml [build] rustflags)",
              "baseline_off_cmd": "cd /repo && cargo test --workspace --no-fail-fast --offline",
              "source_commits": hook_commits, "add_only": True},
    "engines": [{"name": "lean4+vh", "path": "lean/ harness/ tools/",
                 "serves_properties": [c["property_id"] for c in checks],
                 "kind_free_text": "Lean 4 models (lean/SophiaModel, executable, Mathlib-free) and kernel-checked theorems (lean/SophiaProofs) with #print axioms audit; tools/extract.py regenerates lean/SophiaModel/Gen from /repo on every run; harness/ (Rust, path-depends on /repo) runs the real code on generated requests; the same requests go to the compiled Lean driver smdriver; tools/check.py diffs, classifies, searches, writes evidence"}],
    "checks": checks,
    "notes": "All checks rebuild the harness against /repo's working tree (cargo path dependencies) and re-run tools/extract.py + lake build, so theorems are re-checked against regenerated definitions. See DESIGN.md.",
    "not_applicable": na,
}
json.dump(m, open(os.path.join(VERIF, "MANIFEST.json"), "w"), indent=1)
# known_findings.json = merge of findings/Cxx.json (committed; never written by a check)
import glob
allf, fixed = [], []
for p in sorted(glob.glob(os.path.join(VERIF, "findings", "C*.json"))):
    d = json.load(open(p))
    allf += d.get("findings", [])
    fixed += d.get("fixed", [])
json.dump({"_comment": "Genuine defects of /repo recorded rather than repaired (DESIGN.md section 7); merged from findings/Cxx.json by tools/mkmanifest.py. Never written at run time. `fixed` entries suppress nothing.",
           "findings": allf, "fixed": fixed}, open(os.path.join(VERIF, "known_findings.json"), "w"), indent=1)
print("claimed:", [c["property_id"] for c in checks])
