#!/usr/bin/env python3
"""`lake` under the shared build lock (use this instead of calling lake directly when several
checks / people build in the same tree):  python3 tools/lk.py build SophiaProofs.Props.C07"""
import fcntl
import os
import subprocess
import sys

HERE = os.path.dirname(os.path.abspath(__file__))
VERIF = os.path.dirname(HERE)
os.makedirs(os.path.join(VERIF, ".cache"), exist_ok=True)
subprocess.call([sys.executable, os.path.join(HERE, "genlean.py")])
with open(os.path.join(VERIF, ".cache", "lake.lock"), "w") as f:
    fcntl.flock(f, fcntl.LOCK_EX)
    sys.exit(subprocess.call(["lake"] + sys.argv[1:], cwd=os.path.join(VERIF, "lean")))
