#!/usr/bin/env python3
"""`lake` from /verif/lean after regenerating lakefile/roots:  python3 tools/lk.py build SophiaProofs.Props.C07 smd_C07
(builds of different properties touch disjoint modules; do not edit shared modules while others build)"""
import fcntl
import os
import subprocess
import sys

HERE = os.path.dirname(os.path.abspath(__file__))
VERIF = os.path.dirname(HERE)
os.makedirs(os.path.join(VERIF, ".cache"), exist_ok=True)
with open(os.path.join(VERIF, ".cache", "genlean.lock"), "w") as f:
    fcntl.flock(f, fcntl.LOCK_EX)
    subprocess.call([sys.executable, os.path.join(HERE, "genlean.py")])
sys.exit(subprocess.call(["lake"] + sys.argv[1:], cwd=os.path.join(VERIF, "lean")))
