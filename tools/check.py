#!/usr/bin/env python3
"""Orchestrator: one property check = regenerate tables from /repo, re-check the Lean
theorems stated over them, audit their axioms, rebuild the harness against /repo's working
tree, run implementation and model on the same requests, classify what differs.

  check.py Cxx [--tier quick|thorough] [--seed N] [--replay FILE]

exit 0: property held on everything explored (KNOWN-FINDING lines possible)
exit 1: a line `VIOLATION property=Cxx replay=<path>[ no-failing-input-found]` was printed
"""
import fcntl
import json
import os
import re
import subprocess
import sys
import time

HERE = os.path.dirname(os.path.abspath(__file__))
VERIF = os.path.dirname(HERE)
sys.path.insert(0, HERE)
import props as P  # noqa: E402

LEAN = os.path.join(VERIF, "lean")
HARNESS = os.path.join(VERIF, "harness")
CACHE = os.path.join(VERIF, ".cache")


def vh_bin(prop):
    return os.path.join(CACHE, "target", "debug", "vh-" + prop.lower())


def driver_bin(prop):
    return os.path.join(LEAN, ".lake", "build", "bin", "smd_" + prop)

ENV = dict(os.environ, CARGO_NET_OFFLINE="true")

ALLOWED_AXIOMS = {"propext", "Classical.choice", "Quot.sound"}
NATIVE_AXIOMS = {"Lean.ofReduceBool", "Lean.trustCompiler"}
FORBIDDEN = re.compile(r"\b(sorry|admit|implemented_by|unsafe)\b|^\s*axiom\s|maxHeartbeats\s+0\b")


def log(*a):
    print(*a, flush=True)


class Lock:
    def __init__(self, name):
        os.makedirs(CACHE, exist_ok=True)
        self.path = os.path.join(CACHE, name + ".lock")

    def __enter__(self):
        self.f = open(self.path, "w")
        fcntl.flock(self.f, fcntl.LOCK_EX)

    def __exit__(self, *a):
        fcntl.flock(self.f, fcntl.LOCK_UN)
        self.f.close()


def run(cmd, cwd=None, inp=None, timeout=None, env=None):
    p = subprocess.run(cmd, cwd=cwd, input=inp, stdout=subprocess.PIPE, stderr=subprocess.STDOUT,
                       timeout=timeout, env=env or ENV)
    return p.returncode, p.stdout.decode("utf-8", "replace")


# ---------------------------------------------------------------- build steps

def step_extract():
    ej = os.path.join(CACHE, "extract.json")
    with Lock("extract"):
        t_start = time.time()
        try:
            rc, out = run([sys.executable, os.path.join(HERE, "extract.py")], timeout=900)
        except subprocess.TimeoutExpired:
            rc, out = 124, "extract.py did not finish within 900 s"
        try:
            # a crashed translator must not leave the previous run's tables standing in for this one
            if os.path.getmtime(ej) < t_start - 2:
                raise RuntimeError("extract.json not rewritten (extract.py exit %d)" % rc)
            info = json.load(open(ej))
        except Exception as e:
            info = {"failures": {"extract.py": "%r\n%s" % (e, out[-2000:])}, "tables": {}}
    return info


def lean_errors(out):
    """[(file, line, msg)] from lake/lean output"""
    errs = []
    for m in re.finditer(r"error: ([^\s:]+\.lean):(\d+):(\d+): (.*)", out):
        errs.append((m.group(1), int(m.group(2)), m.group(4)))
    return errs


def theorem_at(path, line):
    """name of the theorem/def enclosing `line` of `path`"""
    try:
        src = open(os.path.join(LEAN, path) if not os.path.isabs(path) else path).read().split("\n")
    except OSError:
        return None
    for i in range(min(line, len(src)) - 1, -1, -1):
        m = re.match(r"\s*(?:private\s+)?(?:theorem|lemma|def|example|instance)\s+([^\s:({\[]+)?", src[i])
        if m:
            return m.group(1) or "example@%d" % (i + 1)
    return None


def step_lake(targets, prop="x"):
    with Lock("genlean"):
        run([sys.executable, os.path.join(HERE, "genlean.py")])
    # builds of different properties touch disjoint modules (shared ones are prebuilt), so the
    # lock is per property
    with Lock("lake-" + prop):
        rc, out = run(["lake", "build"] + targets, cwd=LEAN, timeout=3000)
    return rc, out


def step_audit(prop):
    """run the audit file directly so that #print axioms output is always produced"""
    path = os.path.join("SophiaProofs", "Audit", prop + ".lean")
    if not os.path.exists(os.path.join(LEAN, path)):
        return None, "no audit file"
    rc, out = run(["lake", "env", "lean", path], cwd=LEAN, timeout=1200)
    res = {}
    for m in re.finditer(r"'([^']+)' depends on axioms: \[([^\]]*)\]", out):
        res[m.group(1)] = [a.strip() for a in m.group(2).replace("\n", " ").split(",") if a.strip()]
    for m in re.finditer(r"'([^']+)' does not depend on any axioms", out):
        res[m.group(1)] = []
    return res, out if rc != 0 else ""


def classify_axioms(name, axioms, native_ok):
    bad = []
    native = False
    for a in axioms:
        if a in ALLOWED_AXIOMS:
            continue
        if a in NATIVE_AXIOMS or "_native.native_decide" in a:
            native = True
            if name not in native_ok:
                bad.append(a)
            continue
        bad.append(a)
    return bad, native


def step_grep():
    hits = []
    for root in ("SophiaModel", "SophiaProofs"):
        for dp, _, fs in os.walk(os.path.join(LEAN, root)):
            for f in fs:
                if not f.endswith(".lean"):
                    continue
                p = os.path.join(dp, f)
                in_block = 0
                for i, line in enumerate(open(p, encoding="utf-8"), 1):
                    # strip comments (block comments tracked coarsely)
                    s = line
                    if in_block:
                        if "-/" in s:
                            in_block = 0
                            s = s.split("-/", 1)[1]
                        else:
                            continue
                    if "/-" in s:
                        pre, rest = s.split("/-", 1)
                        if "-/" in rest:
                            s = pre + rest.split("-/", 1)[1]
                        else:
                            in_block = 1
                            s = pre
                    s = s.split("--", 1)[0]
                    s = re.sub(r'"[^"]*"', '""', s)
                    if FORBIDDEN.search(s):
                        hits.append("%s:%d: %s" % (os.path.relpath(p, LEAN), i, line.strip()))
    return hits


def step_cargo(prop):
    """standalone crate harness/props/cNN (tools/cb.py normalises the manifest and provides the lock)"""
    with Lock("cargo-" + prop):
        rc, out = run([sys.executable, os.path.join(HERE, "cb.py"), prop.lower()], timeout=3000)
        if rc != 0 and "lock file" in out:
            try:
                os.remove(os.path.join(HARNESS, "props", prop.lower(), "Cargo.lock"))
            except OSError:
                pass
            rc, out = run([sys.executable, os.path.join(HERE, "cb.py"), prop.lower()], timeout=3000)
    return rc, out


# ---------------------------------------------------------------- correspondence

def parse_reply(line):
    d = {}
    for tok in line.split():
        if "=" in tok:
            k, v = tok.split("=", 1)
            d[k] = v
        else:
            d[tok] = ""
    return d


def run_cases(prop, reqs, rundir, tag):
    """returns (impl_lines, model_lines, errors)"""
    os.makedirs(rundir, exist_ok=True)
    reqp = os.path.join(rundir, tag + ".req")
    with open(reqp, "w") as f:
        f.write("".join(r + "\n" for r in reqs))
    data = open(reqp, "rb").read()
    errors = []
    cfg = P.PROPS[prop]
    # replies come on stdout only: anything the real code (or the runtime, when it aborts) writes to
    # stderr is kept beside the run, never mixed into the reply stream (it would shift every later reply)
    try:
        with open(os.path.join(rundir, tag + ".impl.stderr"), "wb") as errf:
            p = subprocess.run([vh_bin(prop), "exec"], input=data, stdout=subprocess.PIPE, stderr=errf,
                               timeout=cfg.get("exec_timeout", 900), env=ENV)
        rc, out = p.returncode, p.stdout.decode("utf-8", "replace")
    except subprocess.TimeoutExpired as e:
        rc, out = 124, (e.output or b"").decode("utf-8", "replace")
    impl = out.split("\n")
    if impl and impl[-1] == "":
        impl.pop()
    if rc != 0:
        errors.append("harness exec exit %s after %d replies" % (rc, len(impl)))
        # the request being processed when the real code hung / aborted is a failing input
        if len(impl) < len(reqs):
            impl.append("FAIL.hang_or_abort=exit%s" % rc)
    try:
        rc, out = run([driver_bin(prop)], inp=data, timeout=cfg.get("exec_timeout", 1800))
    except subprocess.TimeoutExpired:
        rc, out = 124, ""
    model = out.split("\n")
    if model and model[-1] == "":
        model.pop()
    if rc != 0:
        errors.append("smdriver exit %s after %d replies" % (rc, len(model)))
    open(os.path.join(rundir, tag + ".impl"), "w").write("\n".join(impl) + "\n")
    open(os.path.join(rundir, tag + ".model"), "w").write("\n".join(model) + "\n")
    return impl, model, errors


def compare(prop, reqs, impl, model):
    """-> (oracle_failures, disagreements) lists of dicts"""
    cfg = P.PROPS[prop]
    ignore = set(cfg.get("ignore_fields", []))
    ofail, dis = [], []
    n = len(reqs)
    for i in range(n):
        r = reqs[i]
        il = impl[i] if i < len(impl) else "<missing>"
        ml = model[i] if i < len(model) else "<missing>"
        I, M = parse_reply(il), parse_reply(ml)
        for k, v in I.items():
            if k.startswith("FAIL."):
                ofail.append({"kind": "impl-vs-oracle", "field": k, "request": r, "impl": il, "model": ml,
                              "detail": v})
        if "panic" in I and not cfg.get("panic_is_reply"):
            ofail.append({"kind": "impl-vs-oracle", "field": "panic", "request": r, "impl": il, "model": ml,
                          "detail": I["panic"]})
        if il == "<missing>" or ml == "<missing>":
            dis.append({"kind": "impl-vs-model", "field": "<line>", "request": r, "impl": il, "model": ml})
            continue
        for k, v in M.items():
            if k in ignore:
                continue
            if k.startswith("o."):
                kk = k[2:]
                if kk in I and I[kk] != v:
                    ofail.append({"kind": "impl-vs-oracle", "field": kk, "request": r, "impl": il, "model": ml,
                                  "detail": "expected %s got %s" % (v, I[kk])})
            elif k in I:
                if I[k] != v:
                    dis.append({"kind": "impl-vs-model", "field": k, "request": r, "impl": il, "model": ml})
            elif not cfg.get("allow_extra_model_fields", True):
                dis.append({"kind": "impl-vs-model", "field": k + " (absent in impl)", "request": r, "impl": il,
                            "model": ml})
        if ("bad-op" in M or "bad-hex" in M) != ("bad-op" in I or "bad-hex" in I):
            dis.append({"kind": "impl-vs-model", "field": "<protocol>", "request": r, "impl": il, "model": ml})
    return ofail, dis


def known_findings(prop):
    p = os.path.join(VERIF, "known_findings.json")
    if not os.path.exists(p):
        return []
    return [e for e in json.load(open(p)).get("findings", []) if e.get("property") == prop]


def match_known(entry, failure):
    m = entry.get("match", {})
    if "request" in m and m["request"] != failure["request"]:
        return False
    if "request_re" in m and not re.search(m["request_re"], failure["request"]):
        return False
    if "field" in m and m["field"] != failure.get("field"):
        return False
    if "theorem" in m:
        return failure.get("theorem") == m["theorem"]
    if "predicate" in m:
        try:
            if not P.PREDICATES[m["predicate"]](failure):
                return False
        except Exception:
            return False
    return bool(m)


def gen_cases(prop, seed, tier, rundir, tag):
    os.makedirs(rundir, exist_ok=True)
    statsp = os.path.join(rundir, tag + ".stats.json")
    cfg = P.PROPS[prop]
    rc, out = run([vh_bin(prop), "gen", str(seed), tier, statsp], timeout=cfg.get("gen_timeout", 1800))
    if rc != 0:
        return None, {}, "harness gen exit %s: %s" % (rc, out[-500:])
    reqs = [l for l in out.split("\n") if l]
    try:
        stats = json.load(open(statsp))
    except Exception:
        stats = {}
    return reqs, stats, None


def corpus_cases(prop):
    d = os.path.join(VERIF, "corpus", prop)
    reqs = []
    if os.path.isdir(d):
        for f in sorted(os.listdir(d)):
            if f.endswith(".req"):
                reqs += [l.rstrip("\n") for l in open(os.path.join(d, f)) if l.strip() and not l.startswith("#")]
    return reqs


def write_replay(prop, seed, idx, payload):
    d = os.path.join(VERIF, "replay")
    os.makedirs(d, exist_ok=True)
    p = os.path.join(d, "%s-%s-%d.json" % (prop, seed, idx))
    json.dump(payload, open(p, "w"), indent=1)
    return p


def shrink(prop, failure, rundir):
    """property-specific shrinking of a failing request (optional)"""
    f = P.PROPS[prop].get("shrink")
    if not f:
        return failure
    try:
        return f(failure, lambda reqs: run_and_compare(prop, reqs, rundir, "shrink"))
    except Exception as e:  # shrinking must never mask a failure
        log("shrink failed: %r" % e)
        return failure


def run_and_compare(prop, reqs, rundir, tag):
    impl, model, errs = run_cases(prop, reqs, rundir, tag)
    o, d = compare(prop, reqs, impl, model)
    return o, d, errs


# ---------------------------------------------------------------- main

def main():
    args = sys.argv[1:]
    if not args:
        print(__doc__)
        return 2
    prop = args[0]
    tier = os.environ.get("VERIF_TIER") or "quick"
    seed = int(os.environ.get("VERIF_SEED") or 1)
    replay = None
    i = 1
    while i < len(args):
        if args[i] == "--tier":
            tier = args[i + 1]; i += 2
        elif args[i] == "--seed":
            seed = int(args[i + 1]); i += 2
        elif args[i] == "--replay":
            replay = args[i + 1]; i += 2
        else:
            print("unknown arg", args[i]); return 2
    if os.environ.get("VERIF_TIER") in ("quick", "thorough") and "--tier" not in args:
        tier = os.environ["VERIF_TIER"]
    if prop not in P.PROPS:
        print("unknown property", prop)
        return 2
    cfg = P.PROPS[prop]
    t0 = time.time()
    rundir = os.path.join(CACHE, "run", prop)
    signals = []          # broken ties / proofs without (yet) a failing input
    notes = []

    # 1. regenerate tables
    ex = step_extract()
    for t in cfg.get("tables", []):
        if t in ex.get("failures", {}):
            signals.append({"what": "extractor", "name": "extract.py:" + t, "detail": ex["failures"][t]})
    if "extract.py" in ex.get("failures", {}):
        signals.append({"what": "extractor", "name": "extract.py", "detail": ex["failures"]["extract.py"]})

    # 2. theorems (+ driver)
    targets = cfg.get("lean_targets", ["SophiaProofs.Props." + prop]) + ["smd_" + prop]
    rc, out = step_lake(targets, prop)
    lake_ok = rc == 0
    failing_theorems = []
    if rc != 0:
        errs = lean_errors(out)
        for f, ln, msg in errs:
            nm = theorem_at(f, ln) or "?"
            failing_theorems.append("%s (%s:%d)" % (nm, f, ln))
        if not errs:
            failing_theorems.append("lake build failed: " + out[-800:])
        signals.append({"what": "proof", "name": "; ".join(sorted(set(failing_theorems)))[:2000],
                        "detail": out[-3000:]})
        # make sure the driver exists if only proofs broke
        rc2, out2 = step_lake(["smd_" + prop], prop)
        if rc2 != 0:
            signals.append({"what": "model-build", "name": "smd_" + prop, "detail": out2[-2000:]})

    # 3. axiom audit
    obligations, discharged, native_used, audit_bad = 0, 0, [], []
    audit = {}
    if lake_ok:
        audit, aerr = step_audit(prop)
        if audit is None:
            audit = {}
            signals.append({"what": "audit", "name": "Audit/%s.lean" % prop, "detail": aerr})
        elif aerr:
            signals.append({"what": "audit", "name": "Audit/%s.lean" % prop, "detail": aerr[-2000:]})
        expected = cfg.get("theorems", [])
        for th in expected:
            obligations += 1
            full = [k for k in audit if k == th or k.endswith("." + th)]
            if not full:
                audit_bad.append(th + ": not found by #print axioms")
                continue
            bad, native = classify_axioms(th, audit[full[0]], set(cfg.get("native_ok", [])))
            if native:
                native_used.append(th)
            if bad:
                audit_bad.append("%s: %s" % (th, bad))
            else:
                discharged += 1
        if audit_bad:
            signals.append({"what": "audit", "name": "; ".join(audit_bad)[:1500], "detail": ""})
    else:
        obligations = len(cfg.get("theorems", []))
    # thorough tier: independent re-check of the compiled proofs
    leanchecker = None
    if lake_ok and tier == "thorough":
        rcl, outl = run(["lake", "env", "leanchecker", "SophiaProofs.Props." + prop], cwd=LEAN, timeout=3000)
        leanchecker = "ok" if rcl == 0 else "failed"
        if rcl != 0:
            signals.append({"what": "leanchecker", "name": "leanchecker SophiaProofs.Props." + prop, "detail": outl[-2000:]})
    hits = step_grep()
    if hits:
        signals.append({"what": "forbidden-token", "name": "; ".join(hits)[:1500], "detail": ""})

    # 4. harness against /repo's working tree
    rc, out = step_cargo(prop)
    cargo_ok = rc == 0
    if not cargo_ok:
        signals.append({"what": "harness-build", "name": "cargo build (harness vs /repo)", "detail": out[-3000:]})

    can_run = cargo_ok and os.path.exists(driver_bin(prop)) and os.path.exists(vh_bin(prop))

    # --- replay mode
    if replay:
        rp = json.load(open(replay))
        reqs = rp.get("requests") or [rp["request"]]
        if not can_run:
            log("cannot replay: build failed")
            return 1
        o, d, errs = run_and_compare(prop, reqs, rundir, "replay")
        for x in o + d:
            log("%s field=%s\n  request: %s\n  impl:    %s\n  model:   %s" % (x["kind"], x["field"], x["request"][:400],
                                                                           x["impl"][:400], x["model"][:400]))
        if o or d or errs:
            log("VIOLATION property=%s replay=%s" % (prop, replay))
            return 1
        log("replay: no failure reproduced")
        return 0

    # 5. correspondence + oracle
    ofail, dis, run_errors = [], [], []
    stats = {}
    reqs = []
    evaluations = 0
    distinct = set()
    samples = []
    if can_run:
        creqs = corpus_cases(prop)
        greqs, stats, gerr = gen_cases(prop, seed, tier, rundir, "main")
        if gerr:
            signals.append({"what": "harness-gen", "name": "vh-%s gen" % prop.lower(), "detail": gerr})
            greqs = []
        reqs = creqs + greqs
        impl, model, run_errors = run_cases(prop, reqs, rundir, "main")
        for e in run_errors:
            signals.append({"what": "run", "name": e, "detail": ""})
        ofail, dis = compare(prop, reqs, impl, model)
        evaluations = len(reqs)
        triv = re.compile(cfg["trivial_re"]) if cfg.get("trivial_re") else None
        for j, r in enumerate(reqs):
            il = impl[j] if j < len(impl) else ""
            if triv is None or not triv.search(il):
                distinct.add(r)
        samples = [{"request": r[:300], "impl": (impl[j] if j < len(impl) else "")[:300],
                    "model": (model[j] if j < len(model) else "")[:300]}
                   for j, r in list(enumerate(reqs))[:: max(1, len(reqs) // 5)][:6]]

    # 6. classify
    known = known_findings(prop)
    printed_known = set()
    violations = []

    def handle_failure(f):
        for e in known:
            if match_known(e, f):
                if e["id"] not in printed_known:
                    printed_known.add(e["id"])
                    log("KNOWN-FINDING: property=%s %s" % (prop, e["what"]))
                return
        violations.append(f)

    for f in ofail:
        handle_failure(f)

    # proof-level known findings (a theorem that is *refuted* and carried as a witness)
    for e in known:
        if e.get("kind") == "witness-theorem" and e["id"] not in printed_known:
            # printed only if its witness still fails on the implementation (the harness replays
            # it as a corpus case and the failure was matched above) or if declared static
            if e.get("static"):
                printed_known.add(e["id"])
                log("KNOWN-FINDING: property=%s %s" % (prop, e["what"]))

    searched = None
    if not violations and (signals or dis) and can_run:
        # SEARCH: a tie or proof broke but no failing input yet — look harder
        searched = {"rounds": 0, "cases": 0, "model_witnesses": 0}
        budget = cfg.get("search_rounds", 6)
        # (1) model-level counterexamples (decision-procedure witnesses, small-domain enumeration)
        ms = cfg.get("model_search")
        if ms:
            try:
                rc_, out_ = run([driver_bin(prop)], inp=("\n".join(ms["ask"]) + "\n").encode(), timeout=900)
                wreqs = ms["to_requests"](out_.split("\n"))
            except Exception as e:
                wreqs = []
                log("model search failed: %r" % e)
            if wreqs:
                searched["model_witnesses"] = len(wreqs)
                o2, d2, _ = run_and_compare(prop, wreqs, rundir, "witness")
                for f in o2:
                    handle_failure(f)
        if violations:
            budget = 0
        for k in range(budget):
            sreqs, _, gerr = gen_cases(prop, seed * 1000 + 17 * (k + 1), "thorough" if k >= 2 else tier, rundir, "search")
            if gerr or not sreqs:
                break
            # mutations around disagreeing cases first
            o2, d2, _ = run_and_compare(prop, sreqs, rundir, "search")
            searched["rounds"] += 1
            searched["cases"] += len(sreqs)
            for f in o2:
                handle_failure(f)
            if violations:
                break
            if time.time() - t0 > cfg.get("search_time", 600):
                break

    status = 0
    replay_paths = []
    if violations:
        f = shrink(prop, violations[0], rundir)
        payload = {"property": prop, "kind": f["kind"], "field": f["field"], "request": f["request"],
                   "impl": f["impl"], "model": f["model"], "detail": f.get("detail", ""),
                   "decoded": P.decode_request(prop, f["request"]),
                   "other_failures": len(violations) - 1,
                   "signals": [{"what": s["what"], "name": s["name"]} for s in signals],
                   "replay_cmd": "python3 tools/check.py %s --replay <this file>" % prop}
        p = write_replay(prop, seed, 0, payload)
        replay_paths.append(p)
        log("failing case: %s" % json.dumps(payload["decoded"])[:600])
        log("VIOLATION property=%s replay=%s" % (prop, p))
        status = 1
    elif signals or dis:
        names = [s["what"] + ": " + s["name"] for s in signals]
        if dis:
            names.append("correspondence impl-vs-model: %d disagreeing cases, first field=%s" % (len(dis), dis[0]["field"]))
        payload = {"property": prop, "kind": "no-failing-input-found",
                   "no_longer_checks": names,
                   "signals": signals[:10],
                   "disagreements": dis[:10],
                   "decoded_first_disagreement": P.decode_request(prop, dis[0]["request"]) if dis else None,
                   "searched": searched}
        p = write_replay(prop, seed, 0, payload)
        replay_paths.append(p)
        for nme in names[:5]:
            log("no longer checks: " + nme[:500])
        log("VIOLATION property=%s replay=%s no-failing-input-found" % (prop, p))
        status = 1

    # 7. evidence
    wall = time.time() - t0
    cov = {
        "obligations": max(obligations, 1),
        "discharged": discharged,
        "checker_cmd": "cd lean && lake build %s && lake env lean SophiaProofs/Audit/%s.lean  (#print axioms)" % (
            " ".join(targets), prop),
        "trusted_base": cfg.get("trusted_base", []) + P.COMMON_TRUSTED,
        "theorems": cfg.get("theorems", []),
        "native_decide_theorems": native_used,
        "leanchecker": leanchecker,
        "failing_theorems": failing_theorems,
        "generated_tables": {k: v.get("file") for k, v in ex.get("tables", {}).items() if k in cfg.get("tables", [])},
        "evaluations": evaluations,
        "distinct_nontrivial": len(distinct),
        "rule": cfg.get("rule", ""),
        "samples": samples or [{"note": "no cases were run (build failed)"}],
        "disagreements_checked": len(dis),
        "oracle_failures": len(ofail),
        "known_findings_reported": sorted(printed_known),
        "generator_distribution": stats.get("counters", {}),
        "generator_samples": stats.get("samples", []),
        "search": searched,
        "signals": [{"what": s["what"], "name": s["name"][:300]} for s in signals],
    }
    ev = {"property_id": prop, "tier": tier if tier in ("quick", "thorough") else "quick", "seed": seed,
          "level": cfg.get("level", "proof"), "coverage": cov,
          "assumptions": cfg.get("assumptions", []), "wall_s": round(wall, 2), "violations": len(violations) if violations else (1 if status else 0)}
    if discharged < cov["obligations"] or discharged == 0:
        # not a proof-level result in this run: say so instead of writing an invalid proof record
        ev["level"] = "other"
        cov["explanation"] = ("proof obligations not all discharged in this run (%d of %d); "
                              "see signals / failing_theorems" % (discharged, cov["obligations"]))
    os.makedirs(os.path.join(VERIF, "evidence"), exist_ok=True)
    json.dump(ev, open(os.path.join(VERIF, "evidence", prop + ".json"), "w"), indent=1)
    log("%s %s: obligations %d/%d, cases %d (distinct non-trivial %d), disagreements %d, oracle failures %d, %.1fs" % (
        prop, tier, discharged, obligations, evaluations, len(distinct), len(dis), len(ofail), wall))
    return status


if __name__ == "__main__":
    # every check holds the repo lock shared; tools/mutate.py takes it exclusively while /repo is patched
    if os.environ.get("VERIF_HOLDS_REPO_LOCK") == "1":
        sys.exit(main())
    os.makedirs(CACHE, exist_ok=True)
    # writer-preferring: a waiting tools/mutate.py holds the gate, so new checks queue behind it
    with open(os.path.join(CACHE, "gate.lock"), "w") as _gate, open(os.path.join(CACHE, "repo.lock"), "w") as _lk:
        fcntl.flock(_gate, fcntl.LOCK_EX)
        fcntl.flock(_lk, fcntl.LOCK_SH)
        fcntl.flock(_gate, fcntl.LOCK_UN)
        sys.exit(main())
