"""Fail-closed translator for the subset of Rust `regex` syntax used in /repo.

parse(src) -> AST; AST nodes are tuples:
  ('emp',) ('eps',) ('cls', [(lo,hi),...]) ('cat', a, b) ('alt', a, b) ('star', a)
The regex must be anchored with ^...$ (whole-string match); anything outside the
supported subset raises RxError.
"""

MAXCP = 0x10FFFF
SUR_LO, SUR_HI = 0xD800, 0xDFFF


class RxError(Exception):
    pass


def norm_ranges(rs):
    rs = sorted(rs)
    out = []
    for lo, hi in rs:
        if lo > hi:
            raise RxError("empty range")
        if out and lo <= out[-1][1] + 1:
            out[-1] = (out[-1][0], max(out[-1][1], hi))
        else:
            out.append((lo, hi))
    return out


def complement(rs):
    """complement within Unicode scalar values"""
    rs = norm_ranges(rs)
    out = []
    cur = 0
    for lo, hi in rs:
        if lo > cur:
            out.append((cur, lo - 1))
        cur = hi + 1
    if cur <= MAXCP:
        out.append((cur, MAXCP))
    # remove surrogates
    res = []
    for lo, hi in out:
        if hi < SUR_LO or lo > SUR_HI:
            res.append((lo, hi))
        else:
            if lo < SUR_LO:
                res.append((lo, SUR_LO - 1))
            if hi > SUR_HI:
                res.append((SUR_HI + 1, hi))
    return res


class P:
    def __init__(self, s):
        self.s = s
        self.i = 0
        self.x = False

    def eof(self):
        return self.i >= len(self.s)

    def peek(self):
        return self.s[self.i] if self.i < len(self.s) else ''

    def skip(self):
        if not self.x:
            return
        while not self.eof():
            c = self.s[self.i]
            if c in ' \t\n\r\x0b\x0c':
                self.i += 1
            elif c == '#':
                while not self.eof() and self.s[self.i] != '\n':
                    self.i += 1
            else:
                break

    def parse_top(self):
        if self.s.startswith('(?x)'):
            self.x = True
            self.i = 4
        self.skip()
        if self.peek() != '^':
            raise RxError("regex not anchored at start")
        self.i += 1
        r = self.parse_alt(top=True)
        self.skip()
        if self.peek() != '$':
            raise RxError("regex not anchored at end (at %d: %r)" % (self.i, self.s[self.i:self.i + 10]))
        self.i += 1
        self.skip()
        if not self.eof():
            raise RxError("trailing input after $")
        return r

    def parse_alt(self, top=False):
        branches = [self.parse_cat(top)]
        while True:
            self.skip()
            if self.peek() == '|':
                self.i += 1
                branches.append(self.parse_cat(top))
            else:
                break
        r = branches[-1]
        for b in reversed(branches[:-1]):
            r = ('alt', b, r)
        if top and len(branches) > 1:
            raise RxError("top-level alternation with anchors not supported")
        return r

    def parse_cat(self, top):
        items = []
        while True:
            self.skip()
            c = self.peek()
            if c == '' or c in '|)':
                break
            if c == '$':
                if top:
                    break
                raise RxError("$ inside group")
            if c == '^':
                raise RxError("^ not at start")
            items.append(self.parse_rep())
        if not items:
            return ('eps',)
        r = items[-1]
        for it in reversed(items[:-1]):
            r = ('cat', it, r)
        return r

    def parse_rep(self):
        a = self.parse_atom()
        while True:
            self.skip()
            c = self.peek()
            if c == '*':
                self.i += 1
                a = ('star', a)
            elif c == '+':
                self.i += 1
                a = ('cat', a, ('star', a))
            elif c == '?':
                self.i += 1
                a = ('alt', a, ('eps',))
            elif c == '{':
                j = self.s.index('}', self.i)
                body = self.s[self.i + 1:j].replace(' ', '')
                self.i = j + 1
                if ',' in body:
                    lo, hi = body.split(',')
                    lo = int(lo)
                    hi = None if hi == '' else int(hi)
                else:
                    lo = hi = int(body)
                a = rept(a, lo, hi)
            else:
                break
            nxt = self.peek()
            if nxt == '?':
                raise RxError("lazy quantifier not supported")
        return a

    def parse_escape_cp(self):
        """after a backslash; returns a code point, or raises"""
        c = self.peek()
        self.i += 1
        if c in ('u', 'U', 'x'):
            if self.peek() == '{':
                j = self.s.index('}', self.i)
                v = int(self.s[self.i + 1:j], 16)
                self.i = j + 1
                return v
            n = {'x': 2, 'u': 4, 'U': 8}[c]
            v = int(self.s[self.i:self.i + n], 16)
            self.i += n
            return v
        if c == 'n':
            return 10
        if c == 'r':
            return 13
        if c == 't':
            return 9
        if c.isalnum() or c == '':
            raise RxError("unsupported escape \\%s" % c)
        return ord(c)

    def parse_atom(self):
        c = self.peek()
        if c == '(':
            self.i += 1
            if self.s.startswith('?:', self.i):
                self.i += 2
            elif self.peek() == '?':
                raise RxError("unsupported group flag")
            r = self.parse_alt()
            self.skip()
            if self.peek() != ')':
                raise RxError("expected )")
            self.i += 1
            return r
        if c == '[':
            return self.parse_class()
        if c == '.':
            self.i += 1
            return ('cls', complement([(10, 10)]))
        if c == '\\':
            self.i += 1
            cp = self.parse_escape_cp()
            return ('cls', [(cp, cp)])
        if c in '*+?{':
            raise RxError("dangling quantifier")
        self.i += 1
        return ('cls', [(ord(c), ord(c))])

    def parse_class(self):
        assert self.peek() == '['
        self.i += 1
        neg = False
        if self.peek() == '^':
            neg = True
            self.i += 1
        rs = []
        first = True
        while True:
            self.skip()
            c = self.peek()
            if c == '':
                raise RxError("unterminated class")
            if c == ']' and not first:
                self.i += 1
                break
            first = False
            if c == '[':
                raise RxError("nested class / posix class not supported")
            lo = self.class_item()
            self.skip()
            if self.peek() == '-' and self.s[self.i + 1:self.i + 2] != ']':
                self.i += 1
                self.skip()
                hi = self.class_item()
                rs.append((lo, hi))
            else:
                rs.append((lo, lo))
        rs = norm_ranges(rs)
        if neg:
            rs = complement(rs)
        return ('cls', rs)

    def class_item(self):
        c = self.peek()
        if c == '\\':
            self.i += 1
            return self.parse_escape_cp()
        if c == '&' and self.s[self.i + 1:self.i + 2] == '&':
            raise RxError("class intersection not supported")
        self.i += 1
        return ord(c)


def rept(a, lo, hi):
    """a{lo,hi}; hi None = unbounded"""
    if hi is None:
        tail = ('star', a)
    else:
        if hi < lo:
            raise RxError("bad repetition")
        tail = ('eps',)
        for _ in range(hi - lo):
            tail = ('alt', ('cat', a, tail), ('eps',)) if tail != ('eps',) else ('alt', a, ('eps',))
    r = tail
    for _ in range(lo):
        r = ('cat', a, r) if r != ('eps',) else a
    return r


def parse(src):
    return P(src).parse_top()


# ---------------------------------------------------------------- Lean emission

class Emitter:
    """emits Lean definitions with shared classes"""

    def __init__(self):
        self.cls_names = {}
        self.lines = []

    def cls(self, rs):
        key = tuple(rs)
        if key not in self.cls_names:
            name = "c%d" % len(self.cls_names)
            self.cls_names[key] = name
            body = ", ".join("(%d, %d)" % r for r in rs)
            self.lines.append("def %s : Re := .cls [%s]" % (name, body))
        return self.cls_names[key]

    def term(self, a):
        t = a[0]
        if t == 'emp':
            return "Re.emp"
        if t == 'eps':
            return "Re.eps"
        if t == 'cls':
            return self.cls(a[1])
        if t == 'star':
            return "(Re.star %s)" % self.term(a[1])
        if t in ('cat', 'alt'):
            return "(Re.%s %s %s)" % (t, self.term(a[1]), self.term(a[2]))
        raise RxError("bad node")

    def define(self, name, ast):
        # split very large terms into chunks to keep elaboration fast
        body = self.chunk(name, ast)
        self.lines.append("def %s : Re := %s" % (name, body))

    def chunk(self, name, a, counter=[0]):
        def size(n):
            if n[0] in ('emp', 'eps', 'cls'):
                return 1
            return 1 + sum(size(x) for x in n[1:])

        def go(n):
            t = n[0]
            if t in ('emp', 'eps', 'cls'):
                return self.term(n)
            if size(n) > 60:
                parts = [go(x) for x in n[1:]]
                s = "(Re.%s %s)" % (t, " ".join(parts))
                counter[0] += 1
                nm = "%s_p%d" % (name, counter[0])
                self.lines.append("def %s : Re := %s" % (nm, s))
                return nm
            return self.term(n)
        return go(a)


def matches(ast, s):
    """reference matcher on the AST via derivative sets (python), for self-test"""
    def nullable(n):
        t = n[0]
        if t == 'eps' or t == 'star':
            return True
        if t in ('emp', 'cls'):
            return False
        if t == 'cat':
            return nullable(n[1]) and nullable(n[2])
        return nullable(n[1]) or nullable(n[2])

    def pder(c, n):
        t = n[0]
        if t in ('emp', 'eps'):
            return set()
        if t == 'cls':
            return {('eps',)} if any(lo <= c <= hi for lo, hi in n[1]) else set()
        if t == 'cat':
            r = {('cat', x, n[2]) for x in pder(c, n[1])}
            if nullable(n[1]):
                r |= pder(c, n[2])
            return r
        if t == 'alt':
            return pder(c, n[1]) | pder(c, n[2])
        return {('cat', x, n) for x in pder(c, n[1])}
    S = {ast}
    for ch in s:
        S = set().union(*[pder(ord(ch), r) for r in S]) if S else set()
    return any(nullable(r) for r in S)


def _freeze(a):
    if a[0] == 'cls':
        return ('cls', tuple(a[1]))
    return (a[0],) + tuple(_freeze(x) for x in a[1:])


def parse_frozen(src):
    return _freeze(parse(src))
