#!/usr/bin/env python3
"""setup_cmd: build everything from files on disk, offline."""
import os
import shutil
import subprocess
import sys

HERE = os.path.dirname(os.path.abspath(__file__))
VERIF = os.path.dirname(HERE)
env = dict(os.environ, CARGO_NET_OFFLINE="true")


def sh(cmd, cwd):
    print("+", " ".join(cmd), flush=True)
    return subprocess.call(cmd, cwd=cwd, env=env)


rc = sh([sys.executable, os.path.join(HERE, "extract.py")], VERIF)
if rc != 0:
    print("extract.py reported failures (checks will report them)")
sh([sys.executable, os.path.join(HERE, "genlean.py")], VERIF)
import glob
sys.path.insert(0, HERE)
import props as P  # noqa: E402
rc = sh(["lake", "build", "SophiaModel"], os.path.join(VERIF, "lean"))
# property modules are built by name, one lake call per property, so that one broken property does
# not stop the others
for prop, cfg in sorted(P.PROPS.items()):
    targets = cfg.get("lean_targets", ["SophiaProofs.Props." + prop]) + ["smd_" + prop]
    rc = sh(["lake", "build"] + targets, os.path.join(VERIF, "lean"))
    if rc != 0:
        print("lake build failed for %s (its check will report it)" % prop)
for d in sorted(glob.glob(os.path.join(VERIF, "harness", "props", "c*"))):
    rc = sh([sys.executable, os.path.join(HERE, "cb.py"), os.path.basename(d)], VERIF)
    if rc != 0:
        print("cargo build failed for %s (its check will report it)" % d)
sys.exit(0)
