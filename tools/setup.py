#!/usr/bin/env python3
"""setup_cmd: build everything from files on disk, offline."""
import os
import shutil
import subprocess
import sys

HERE = os.path.dirname(os.path.abspath(__file__))
VERIF = os.path.dirname(HERE)
env = dict(os.environ, CARGO_NET_OFFLINE="true")


def sh(cmd, cwd):
    print("+", " ".join(cmd), flush=True)
    return subprocess.call(cmd, cwd=cwd, env=env)


rc = sh([sys.executable, os.path.join(HERE, "extract.py")], VERIF)
if rc != 0:
    print("extract.py reported failures (checks will report them)")
sh([sys.executable, os.path.join(HERE, "genlean.py")], VERIF)
import glob
exes = ["smd_" + os.path.basename(p)[:-5] for p in glob.glob(os.path.join(VERIF, "lean", "SophiaModel", "Driver", "C*.lean"))]
rc = sh(["lake", "build", "SophiaModel", "SophiaProofs"] + exes, os.path.join(VERIF, "lean"))
if rc != 0:
    print("lake build failed (checks will report it)")
lock = os.path.join(VERIF, "harness", "Cargo.lock")
if not os.path.exists(lock) and os.path.exists("/repo/Cargo.lock"):
    shutil.copy("/repo/Cargo.lock", lock)
rc = sh(["cargo", "build", "--offline", "--workspace", "--keep-going"], os.path.join(VERIF, "harness"))
if rc != 0:
    print("cargo build failed (checks will report it)")
sys.exit(0)
