#!/usr/bin/env python3
print("setup placeholder")
