#!/usr/bin/env python3
"""Commit a cfg(sophia_verif)-guarded, add-only hook patch to /repo and record it in hooks_commits.txt."""
import fcntl, os, subprocess, sys
HERE = os.path.dirname(os.path.abspath(__file__)); VERIF = os.path.dirname(HERE)
patch, msg = os.path.abspath(sys.argv[1]), sys.argv[2]
with open(os.path.join(VERIF, ".cache", "gate.lock"), "w") as gate, open(os.path.join(VERIF, ".cache", "repo.lock"), "w") as lk:
    fcntl.flock(gate, fcntl.LOCK_EX); fcntl.flock(lk, fcntl.LOCK_EX)
    st = subprocess.run(["git", "-C", "/repo", "status", "--porcelain", "--untracked-files=no"], capture_output=True, text=True).stdout.strip()
    if st:
        print("refusing: /repo dirty:\n" + st); sys.exit(2)
    if subprocess.call(["git", "-C", "/repo", "apply", "--index", patch]) != 0:
        print("patch does not apply"); sys.exit(2)
    subprocess.check_call(["git", "-C", "/repo", "commit", "-q", "-m", msg])
    h = subprocess.run(["git", "-C", "/repo", "log", "--format=%h %s", "-1"], capture_output=True, text=True).stdout.strip()
    open(os.path.join(VERIF, "hooks_commits.txt"), "a").write(h + "\n")
    print(h)
