"""C09 configuration, known-finding predicates, model-search hooks."""
import re
from props import predicate, kv, unhex


THEOREMS = [
    # 1 languages
    "iri_regex_exact", "irel_regex_exact", "iriref_is_union", "abs_rel_disjoint",
    # 2 typed constructors over the generated wiring
    "wiring_pinned", "is_absolute_exact", "is_relative_exact", "is_valid_ref_exact", "iri_new_exact",
    "iriref_new_exact", "classification",
    # 3 usable as a base
    "iri_sub_oxiri", "iriref_sub_oxiri", "iri_as_base_never_panics", "iriref_as_base_never_panics",
    # 4 namespaces
    "suffixed_exact", "suffixed_none_exact", "namespace_get_exact", "ns_term_is_concatenation",
    # 5 resolution: oracle laws, partial agreement of the code's algorithm, refutations of the full statement
    "recompose_split", "resolve_same_document", "oxiri_agrees_partial", "oxiri_agrees_refuted_rootpop",
    "oxiri_agrees_refuted_panic", "oxiri_agrees_refuted_base_dots", "oxiri_agrees_refuted_ref_authority",
    "oxiri_deviation_values", "resolve_closed_refuted",
    # round 3: fuel discharged, panic-freedom and RFC agreement on bases with an authority
    "remove_dot_segments_fuel", "accepted_ref_no_leading_colon", "typed_resolve_never_panics_with_authority",
    "oxiri_agrees_abs_path_partial",
]

CONFIG = {
    "design_ref": "4.9",
    "technique": "Lean 4 proof: verified regex-equivalence / inclusion decision procedure (Antimirov derivatives + checked "
                 "bisimulation certificate) on regexes regenerated from iri/src/_regex.rs vs the RFC 3987 ABNF and vs a hand "
                 "model of oxiri's recogniser; typed constructors / namespace wiring regenerated from the source; RFC 3986 "
                 "5.2 oracle and a transcription of oxiri's resolution algorithm as executable Lean models; differential vs "
                 "the regex crate / oxiri through every public entry point",
    "level_text": "Proof (unbounded, all strings): the validators' regexes, regenerated from iri/src/_regex.rs on every run, accept "
                  "exactly the RFC 3987 IRI / irelative-ref / IRI-reference languages and classify disjointly; over the wiring "
                  "regenerated from _wrapper.rs / _regex.rs / _namespace.rs, Iri::new / IriRef::new / is_valid_suffixed_iri_ref / "
                  "Namespace::get accept exactly the RFC languages (of ns ++ suffix for the latter two), every accepted reference is "
                  "exactly one of absolute / relative, and as_base / to_base cannot panic (validator language included in the hand "
                  "model of oxiri's recogniser). Kernel-checked soundness of the decision procedure; the per-regex obligations are "
                  "evaluated by native_decide. Resolution: the RFC 3986 5.2 oracle is an executable Lean model (proved: Appendix-B "
                  "split/recompose is lossless, the empty reference drops exactly the fragment); the algorithm the code really runs "
                  "(oxiri 0.2.11) is transcribed as a second model (exact on every generated pair) and PROVED, for all inputs, "
                  "(a) never to report an error - i.e. the typed resolve never panics - for any accepted reference against any "
                  "base that has an authority (typed_resolve_never_panics_with_authority; no accepted reference starts with ':', "
                  "kernel-checked derivative of the generated regex), (b) to return exactly the RFC 3986 5.2 result for "
                  "same-document references on any base (oxiri_agrees_partial) and for absolute-path references, dot segments "
                  "included, on any base with an authority (oxiri_agrees_abs_path_partial: parse_path::<true> simulates 5.2.4 "
                  "segment by segment); the fuel of the 5.2.4 model is proved never exhausted (remove_dot_segments_fuel). The "
                  "full statement (OxiriAgrees) is refuted by four kernel-checked witnesses (= the four findings: authority-less "
                  "bases, dot segments in the base, references with scheme/authority and dot segments). REMAINS DIFFERENTIAL: "
                  "relative-path and network-path references against dot-free bases (agreement seen on every generated pair, "
                  "not proved), closure of the result under the IRI grammar (the RFC's own result is not always an IRI: "
                  "resolve_closed_refuted), and the tie of both resolution models to the real oxiri / sophia code.",
    "level_note": "Trusted: RFC ABNF transcription; hand model of oxiri's recogniser (C08's Backend.Oxiri, tied per case by "
                  "bnew/brnew); the Python regex translator (cross-checked per case against the regex crate); native_decide (Lean "
                  "compiler) for the language obligations; source-shape extractor tools/extractors/c09.py (fail-closed). "
                  "Known findings: four RFC 3986 deviations/panics of resolution on dot-segment / authority-less corner cases; "
                  "each predicate demands that the implementation returned exactly the value the oxiri model predicts.",
    "tables": ["regexes_iri", "iri_wiring"],
    "lean_targets": ["SophiaProofs.Props.C09", "SophiaProofs.Audit.C09"],
    "theorems": THEOREMS,
    "native_ok": ["iri_regex_exact", "irel_regex_exact", "iriref_is_union", "abs_rel_disjoint", "is_absolute_exact",
                  "is_relative_exact", "is_valid_ref_exact", "iri_new_exact", "iriref_new_exact", "classification",
                  "iri_sub_oxiri", "iriref_sub_oxiri", "iri_as_base_never_panics", "iriref_as_base_never_panics",
                  "suffixed_exact", "suffixed_none_exact", "namespace_get_exact"],
    "trivial_re": r"^abs=0 rel=0|^skip=1|^ns_new=0",
    "rule": "m: members sampled from the HIR of IRI_REGEX_SRC / IRELATIVE_REF_REGEX_SRC as parsed by regex-syntax (every "
            "production reachable; repetition bound 1/3/12/40), 2 single-character mutants each over an alphabet containing all "
            "class boundaries +-1, an enumeration of every IPv6 shape (0..8 groups before/after '::', with/without '::', IPv4 "
            "tail, valid or not) in absolute and network-path form, dec-octet and IPvFuture boundary shapes, a fixed corpus; "
            "ml: 12 long-token shapes up to 2*10^4 (thorough 2*10^5) characters; r: (base, reference) pairs from a corpus "
            "(32 bases x 73 references) and random pairs (members, absolute references, mutants, empty, dotted paths with "
            "authority/scheme) resolved through Iri::resolve and 10 other entry points; rr: any accepted reference as base "
            "(IriRef::resolve, BaseIriRef); ns: Namespace::new/get and is_valid_suffixed_iri_ref on corpus and on members "
            "split at a random position, both orders. A case is non-trivial when the implementation accepts the string "
            "(resolves the pair / accepts the namespace); distinct = distinct request lines",
    "trusted_base": ["RFC 3987 / RFC 3986 ABNF transcription lean/SophiaModel/Model/Iri3987.lean",
                     "regex crate semantics for the supported syntax subset (cross-checked per case by the differential)",
                     "hand model of oxiri's recogniser lean/SophiaModel/Model/Backend.lean (Oxiri.abs/ref; cross-checked per case: bnew/brnew)",
                     "oxiri's resolution algorithm: transcription lean/SophiaModel/Model/OxiriResolve.lean, used only to pin the known deviations"],
    "assumptions": ["Rust regex `is_match` with ^...$ = whole-string membership (checked per generated case against the Lean matcher)"],
    # generous: the whole quick run takes a few seconds; a loaded machine must never turn slowness into an alarm
    "exec_timeout": 3600,
    "gen_timeout": 3600,
}


_SCHEME = re.compile(r"^([A-Za-z][A-Za-z0-9+.-]*):")


def _c09_parts(failure):
    """(base, ref, scheme-or-None, base-after-scheme, got, rfc) of a resolution failure, or None.

    TIGHT: only failures of the fields that carry the resolution result (`res` of an `r` request;
    `rres` / `rpanic` of an `rr` request), and only when the implementation returned EXACTLY what the
    Lean model of oxiri's algorithm (Model/OxiriResolve.lean, driver field `ox.res`) predicts for that
    pair — the specific wrong value (or the error) of the known deviation.  Any other wrong result in
    the same region is a different failure and is NOT masked."""
    toks = failure["request"].split()
    if len(toks) != 3 or toks[0] not in ("r", "rr"):
        return None
    I, M = kv(failure["impl"]), kv(failure["model"])
    field = failure.get("field")
    if toks[0] == "r":
        if field != "res":
            return None
        got = I.get("res")
        rfc = M.get("o.res")
    else:
        if field not in ("rres", "rpanic"):
            return None
        got = I.get("rres")
        rfc = M.get("o.rres")
    ox = M.get("ox.res")
    if got is None or ox is None or got != ox:
        return None
    base, ref = unhex(toks[1]), unhex(toks[2])
    m = _SCHEME.match(base)
    sch = m.group(1) if m else None
    after = base[len(sch) + 1:] if sch is not None else base
    return base, ref, sch, after, got, (unhex(rfc) if rfc is not None else None)


def _path_of(s):
    return s.split("?")[0].split("#")[0]


def _has_dot_segment(path):
    return any(seg in (".", "..") for seg in _path_of(path).split("/"))


@predicate
def c09_rootpop(failure):
    """authority-less base, '..' climbs past the root: oxiri drops the leading '/'"""
    x = _c09_parts(failure)
    if not x:
        return False
    base, ref, sch, after, got, rfc = x
    if got == "panic" or rfc is None or sch is None or after.startswith("//") or ref.startswith("//"):
        return False
    a = unhex(got)
    return rfc == sch + ":/" + a[len(sch) + 1:] and ".." in ref


@predicate
def c09_resolve_panic_slashslash(failure):
    """authority-less base and reference whose merged path has an empty segment ('//'): the
    (intermediate or final) result would start with '//' without authority; oxiri errs, sophia unwraps"""
    x = _c09_parts(failure)
    if not x:
        return False
    base, ref, sch, after, got, rfc = x
    if got != "panic" or after.startswith("//") or ref.startswith("//") or _SCHEME.match(ref):
        return False
    bpath, rpath = _path_of(after), _path_of(ref)
    merged = rpath if rpath.startswith("/") else bpath[:bpath.rfind("/") + 1] + rpath
    return "//" in merged


@predicate
def c09_base_dot_segments(failure):
    """dot segments already present in the *base* path are not removed by oxiri"""
    x = _c09_parts(failure)
    if not x:
        return False
    base, ref, sch, after, got, rfc = x
    if got == "panic":
        return False
    return _has_dot_segment(after)


@predicate
def c09_ref_authority_dot_segments(failure):
    """reference with its own scheme/authority: its dot segments are not removed"""
    x = _c09_parts(failure)
    if not x:
        return False
    base, ref, sch, after, got, rfc = x
    if got == "panic":
        return False
    m = _SCHEME.match(ref)
    if not (ref.startswith("//") or m):
        return False
    return _has_dot_segment(ref[m.end():] if m else ref)


def _c09_witness_requests(lines):
    """driver reply to `witness`: abs=<hex|none> rel=... -> membership requests for each witness and
    its single-character neighbours (deletions)"""
    reqs = []
    for l in lines:
        for k, v in kv(l).items():
            if v and v != "none":
                reqs.append("m " + v)
                w = unhex(v)
                for i in range(len(w)):
                    reqs.append("m " + ((w[:i] + w[i + 1:]).encode().hex() or "_"))
    return reqs


CONFIG["model_search"] = {"ask": ["witness"], "to_requests": _c09_witness_requests}
