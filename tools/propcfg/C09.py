"""C09 configuration, known-finding predicates, model-search hooks."""
import re
from props import predicate, kv, unhex


CONFIG = {
    "design_ref": "4.9",
    "technique": "Lean 4 proof: verified regex-equivalence decision procedure (Antimirov derivatives + checked bisimulation certificate) on regexes regenerated from iri/src/_regex.rs vs RFC 3987 ABNF; differential vs regex crate/oxiri",
    "level_text": "Proof (unbounded, all strings): the validators' regexes, regenerated from iri/src/_regex.rs on every run, accept exactly the RFC 3987 IRI / irelative-ref / IRI-reference languages and classify disjointly (kernel-checked soundness of the decision procedure; the per-regex obligation is evaluated by native_decide). Resolution (RFC 3986 5.2) is an executable Lean model compared with Iri::resolve/BaseIri on generated pairs: that part is differential, not proof.",
    "level_note": "Trusted: RFC ABNF transcription; extract.py regex translator (cross-checked per case against the regex crate); native_decide (Lean compiler) for the four language obligations; oxiri internals only observed. Known findings: four RFC 3986 deviations/panics of resolution on dot-segment / authority-less corner cases.",
    "tables": ["regexes"],
    "lean_targets": ["SophiaProofs.Props.C09", "SophiaProofs.Audit.C09"],
    "theorems": ["iri_regex_exact", "irel_regex_exact", "iriref_is_union", "abs_rel_disjoint"],
    "native_ok": ["iri_regex_exact", "irel_regex_exact", "iriref_is_union", "abs_rel_disjoint"],
    "trivial_re": r"^abs=0 rel=0|^skip",
    "rule": "members sampled from the HIR of IRI_REGEX_SRC / IRELATIVE_REF_REGEX_SRC as parsed by regex-syntax "
            "(every production reachable), 2 single-character mutants each over an alphabet containing all class "
            "boundaries +-1, a fixed corpus of shapes absent from the shipped table, (base, reference) pairs; a case "
            "is non-trivial when the implementation accepts the string (or resolves the pair); distinct = distinct request lines",
    "trusted_base": ["RFC 3987 / RFC 3986 ABNF transcription lean/SophiaModel/Model/Iri3987.lean",
                     "regex crate semantics for the supported syntax subset (cross-checked per case by the differential)",
                     "oxiri (resolver) internals: observed through the differential only"],
    "assumptions": ["Rust regex `is_match` with ^...$ = whole-string membership (checked per generated case against the Lean matcher)"],
}



def _c09_parts(failure):
    toks = failure["request"].split()
    if len(toks) != 3 or toks[0] != "r":
        return None
    base, ref = unhex(toks[1]), unhex(toks[2])
    I, M = kv(failure["impl"]), kv(failure["model"])
    sch = base.split(":", 1)[0]
    after = base[len(sch) + 1:]
    return base, ref, sch, after, I, M


def _has_dot_segment(path):
    segs = path.split("?")[0].split("#")[0].split("/")
    return any(s in (".", "..") for s in segs)


@predicate
def c09_rootpop(failure):
    """authority-less base, '..' climbs past the root: oxiri drops the leading '/'"""
    x = _c09_parts(failure)
    if not x or failure.get("field") != "res":
        return False
    base, ref, sch, after, I, M = x
    if after.startswith("//") or ref.startswith("//") or I.get("res") in (None, "panic"):
        return False
    a, b = unhex(I["res"]), unhex(M.get("o.res", ""))
    return b == sch + ":/" + a[len(sch) + 1:] and ".." in ref


@predicate
def c09_resolve_panic_slashslash(failure):
    """authority-less base and reference whose merged path has an empty segment ('//'): the
    (intermediate or final) result would start with '//' without authority; oxiri errs, sophia unwraps"""
    x = _c09_parts(failure)
    if not x:
        return False
    base, ref, sch, after, I, M = x
    if I.get("res") != "panic" or after.startswith("//") or ref.startswith("//"):
        return False
    if re.match(r"^[A-Za-z][A-Za-z0-9+.-]*:", ref):
        return False
    bpath = after.split("?")[0].split("#")[0]
    rpath = ref.split("?")[0].split("#")[0]
    merged = rpath if rpath.startswith("/") else bpath[:bpath.rfind("/") + 1] + rpath
    return "//" in merged


@predicate
def c09_base_dot_segments(failure):
    """dot segments already present in the *base* path are not removed by oxiri"""
    x = _c09_parts(failure)
    if not x or failure.get("field") != "res":
        return False
    base, ref, sch, after, I, M = x
    if I.get("res") in (None, "panic"):
        return False
    # the reference itself is resolved correctly against a normalised base: only the base's own
    # dot segments are at stake
    return _has_dot_segment(after.split("?")[0].split("#")[0])


@predicate
def c09_ref_authority_dot_segments(failure):
    """reference with its own scheme/authority: its dot segments are not removed"""
    x = _c09_parts(failure)
    if not x or failure.get("field") != "res":
        return False
    base, ref, sch, after, I, M = x
    if I.get("res") in (None, "panic"):
        return False
    has_scheme = re.match(r"^[A-Za-z][A-Za-z0-9+.-]*:", ref) is not None
    if not (ref.startswith("//") or has_scheme):
        return False
    return _has_dot_segment(ref.split("?")[0].split("#")[0])


def _c09_witness_requests(lines):
    """driver reply to `witness`: abs=<hex|none> rel=... -> membership requests for each witness and
    its single-character neighbours (deletions)"""
    reqs = []
    for l in lines:
        for k, v in kv(l).items():
            if v and v != "none":
                reqs.append("m " + v)
                w = unhex(v)
                for i in range(len(w)):
                    reqs.append("m " + ((w[:i] + w[i + 1:]).encode().hex() or "_"))
    return reqs


CONFIG["model_search"] = {"ask": ["witness"], "to_requests": _c09_witness_requests}
