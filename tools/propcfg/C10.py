"""C10 configuration and the known-finding predicate."""
import re
from props import predicate, kv


CONFIG = {
    "design_ref": "4.10",
    "technique": "Lean 4 proof over an ownership model (heap of allocations, owning / borrowing string fields, term index, stores, clone/drop/move/swap/take, terms cloned out of a store and kept) whose `clone` and whose lent term type are the ones the source defines (regenerated from inmem/src/index.rs); cfg-guarded pointer-provenance audit hook + differential over histories on twenty store types (Light/Fast x dataset/graph + bare index, x u32 / u16 / usize / a six-term index type)",
    "level_text": "Proof ABOUT THE OWNERSHIP MODEL lean/SophiaModel/Model/Heap.lean, for all histories, any number of stores, all terms incl. owned quoted triples, every index width, both ways a caller's term can reach a store (allocations never reused; MownStr = owning or borrowing pointer; SimpleTermIndex = keys owning their buffers + i2t entries borrowing from them via the transmute of ensure_index; every string of every inserted term goes through the model's `ensureOwned`, in the is_owned or the copy branch as `World.own` / op `via` selects). PROVED for the manual `impl Clone` (the one the tree has: obligation cloneKind_is): (1) MEMORY SAFETY: every operation preserves the index invariant (sc_preserved: borrowed strings of a store's i2t point into buffers owned by keys of the same store, unique ownership, liveness, AND positionally: key j is mapped to j, has entry j's shape, owns every buffer entry j borrows, both read the same term, no two keys are Term::eq = C01's I2 carried in the heap model), hence after ANY interleaving of insert / remove / clone / clone_from / drop (either side first) / swap / move / Box / mem::take / iteration / change of feeding mode no read of a live store touches released memory and nothing is released twice (no_dangling, c10_holds_gen), and the audit vector the hook computes is clean for every entry of every store (audit_clean, audit_clean_run, keys_unique; for either Clone on clone-free histories audit_clean_partial; never more than MAX entries, refused insertions leave nothing behind: index_sized, ensure_index_full_refused). (2) CLONES ARE VALUES, at full strength: read through the heap every store is a value of the model C01's theorems are about, and every operation of the ownership model IS the operation of a value-semantics world where clone copies, drop forgets, moves rename and an operation touches the named values only (value_semantics_step, value_semantics = the driver's oracle o.k.C as a theorem; index_refines: get_index / insert / remove refine the Store functions; clone_is_copy: the clone's terms are EXACTLY the original's); clone_same_content, clone_original_unchanged, clone_independent, mv_/box_/swap_/take_same_content are corollaries kept for readability. (3) every reachable graph / dataset satisfies C01's representation invariant (reachable_store_inv), which DISCHARGES the hypothesis of unwrap_unchecked_safe: the values handed to `unwrap_unchecked` in inmem/src/dataset/_iter.rs are Some in every reachable world (unwrap_unchecked_safe_reachable). (4) ensure_owned: both branches are run by World.step; whichever is taken the result owns a fresh live buffer with the argument's bytes, the two branches leave the same heap and string (ensure_owned_sound, ensure_owned_branches_agree, from_term_sound). (5) what the model assumes about the crate mownstr (bytes out of line, Clone of a borrowed string copies the pointer, Drop releases iff owned, From<Box<str>> takes the buffer, borrowed() is a pointer copy) is recognised in its source on every run (mownstr_as_modelled); growth / moves / Box / swap / take touch no buffer (moves_keep_buffers) — in the model this is what `out of line` means. REFUTED by kernel-checked witnesses: the statement for `#[derive(Clone)]` (derive_clone_dangles, repaired in a16feec), and the second sentence of the property at full strength (C10Full) for the tree AS IT IS: the index declares `type Term = SimpleTerm<'static>`, so safe code may keep `get_term(i).clone()` beyond the store (escape_dangles, c10_full_refuted; known finding C10-lent-term-clone-outlives-store, confirmed with Miri, recorded not repaired); with the term type of the proposed, NOT applied, API-changing notes/fixes/C10-indexed-term-lifetime.diff C10Full would hold (escape_bounded_safe), and for every history that keeps no lent term it holds either way (c10_full_partial). Which Clone and which term type the source has is regenerated on every run (Gen/CloneKind.lean; fail-closed). NOT proof: that std's HashMap / Vec / Box move their elements bitwise and that rustc behaves as the ownership model says; undefined behaviour in general is outside any model. The tie is the differential: after every operation of every history the hook `verif_audit` and the full content of every safely readable store are compared with the model, and kept clones of lent terms are checked against the blocks released since (address ranges only, never dereferenced).",
    "level_note": "Trusted: the ownership model's reading of std (HashMap/Vec/BTreeSet moves never move Box<str> buffers; derive(Clone) is field-wise); allocation ids are never reused in the model (the harness enforces the same with a quarantining allocator); tools/extractors/c10.py (exact-text recognition of ensure_index, get_term, get_index, the two Clone shapes — any other impl, e.g. an added clone_from override, fails closed —, the two term-type shapes, from_term, from_term_ref, ensure_owned, the fields of the four stores, the eight public aliases, the list of methods of every impl block of the index and the stores, the files of inmem/src and the number of `unsafe` tokens in each, and the fragments of mownstr's source behind Gen.mownStr: a new safe method, field, file, alias or mownstr version fails closed as `no-failing-input-found`); the hook's pointer arithmetic; harness/props/c10/build.rs (text test for the hook and for the term type: a wrong guess does not compile). A store whose audit reports an outside pointer is never read, cloned or Debug-formatted by the checker, a kept clone of a lent term is never dereferenced (no UB inside the check). Lookups in the model compare key CONTENT (Term::eq), hashing is abstracted (C02). value_semantics is equality of views (terms in index order + rows), i.e. stronger than the digest the differential compares. Index-full is exercised on every run through `I6`, an Index type of the harness with MAX = 6, proved for every MAX, and checked on the REAL u16 width at exactly 65535 terms by the requests `F <kind> 16` (implementation: fill 65535 distinct terms, two more new terms must be refused, a known one answered, audit clean with exactly 65535 entries); the list-based model would need ~15 min to replay 65535 insertions, so for these requests the driver does NOT evaluate the model: it answers with the instance max = 65535 of ensure_index_full_refused / ensure_index_known / index_sized / audit_clean (an oracle by theorem, not by simulation). quads_matching / triples_matching are C01's; get_index's temporary `as_simple` copy of a quoted triple is heap-neutral and not modelled. LIMIT — release-only memory errors: the harness is a dev build (debug assertions on, as `cargo test` builds; check.py / cb.py make no release build), so a change whose out-of-bounds / dangling access is guarded by a `debug_assert!` and only happens in --release (seed C10-e: `get_term` with `debug_assert!(i < len)` + `get_unchecked`) cannot be EXECUTED into a failing input here: it is caught through the source-shape obligations (pinned body of get_term, number of `unsafe` tokens per file, pinned impl/method lists), i.e. as `no-failing-input-found`, not by execution. The dev-visible half IS executed: op `gt <n> <i>` calls get_term with indices the store never handed out (empty index, an index minted by a grown clone used on the original, exactly len(), after take) and the oracle demands the panic, so a removed bounds check WITHOUT the debug_assert yields a concrete history (notes/mutations/C10-get-term-unchecked-no-debug-assert.diff). Miri/ASan are not part of the verdict (Miri was used once, by hand, to confirm the finding's witness). No native_decide. Known finding (recorded, not repaired; the proposed repair changes a public associated type and was not applied): C10-lent-term-clone-outlives-store.",
    "tables": ["clone_kind", "mownstr_shape"],
    "lean_targets": ["SophiaProofs.Props.C10", "SophiaProofs.Audit.C10"],
    "theorems": ["sc_preserved", "winv_self_contained", "audit_clean_self_contained", "no_dangling", "read_after_history", "clone_same_content", "clone_same_quads", "clone_independent", "clone_independent_run", "derive_clone_dangles", "derive_not_safe", "no_dangling_partial", "c10_verdict", "unwrap_unchecked_safe", "unwrap_unchecked_safe_gen", "ensure_owned_sound",
                 "cloneKind_is", "c10_holds_gen", "mv_same_content", "box_same_content", "swap_same_content", "take_same_content", "clone_original_unchanged", "ensure_index_full_refused", "ensure_index_known", "escape_dangles", "c10_full_refuted", "escape_bounded_safe", "c10_full_partial", "c10_full_verdict", "index_sized", "audit_key_found", "key_reads_defined", "audit_clean_partial", "audit_clean", "audit_clean_run", "keys_unique", "ensure_owned_branches_agree", "from_term_sound", "mownstr_as_modelled", "moves_keep_buffers", "value_semantics_step", "value_semantics", "index_refines", "clone_is_copy", "reachable_store_inv", "unwrap_unchecked_safe_reachable"],
    "native_ok": [],
    "trivial_re": r"^$",
    "rule": "one request = one self-contained history over up to six named stores and three kept terms: the kernel-checked witnesses (derive_clone_dangles, escape_dangles); per store type (Light/Fast x dataset/graph + bare SimpleTermIndex, x u32 / u16 / usize / six-term I6) three scripted escape histories (keep a clone of a lent literal / language string / quoted triple, then drop, mutate, grow, Box, move, take, clone_from the source; from a clone; with owned-string input); for u32/u16/usize the scripted patterns (insert 100, clone, drop original, read clone; clone dropped first; swap then drop either side; clone_from over a non-empty target, and for every store type clone_from over a destination holding MORE terms than the source / fewer / an empty source, twice; mem::take / Box / move / chains of clones losing their links one by one) and growth histories crossing the hash table's 2^k thresholds before and after cloning on original and clone (100..600 terms quick, ..2000 thorough; literal / IRI / owned quoted-triple / language-tagged keys); for I6 the index-full patterns (fill until refused, refused again twice, known term still answered, Debug, clone of a full index, refusals on the clone, drops in both orders; with owned-string input through clone_from / swap / take / Box; refusal in the MIDDLE of a quad); plus `F <kind> 16`: a real 16-bit index at exactly 65535 terms (TI, LG, FD quick; all five thorough); plus random histories (6..32 ops quick, ..60 thorough; a third fed through owned-string accessors) over ins/rem/ens/fill/clone/clone_from/drop/swap/mv/box/take/all/dbg/esc/resc/desc/via/gt (get_term with a raw index, in and out of range; per bare-index width a scripted out-of-range history) with terms from small colliding alphabets (empty strings, nested quoted triples, case-variant tags); after EVERY op, for EVERY live store: audit vector (hook) and content digest (only stores safe to read) vs. the model, content vs. a value-semantics specification, and for every kept term whether it points into released memory; counters reach.* in the evidence say how often index-full (first term / mid-quad / in fill), clones of full indexes and drops after esc are reached; distinct = distinct histories",
    "trusted_base": ["ownership model of std / mownstr (lean/SophiaModel/Model/Heap.lean header)",
                     "tools/extractors/c10.py (exact-text recognition, fail-closed)",
                     "hook SimpleTermIndex::verif_audit (notes/hooks/C10-audit.diff): pointer-range comparison",
                     "harness/props/c10/src/quarantine.rs: released blocks are not reused within a history; `released(addr, len)` decides whether a kept term dangles"],
    "assumptions": ["HashMap lookups are by key content (Term::eq + consistent hash: property C02)",
                    "moving a HashMap / Vec / BTreeSet / Box<str> owner (table growth, rehash, Vec reallocation, move, Box, swap, take) never moves or frees the str buffer (std guarantee): these operations are the identity on the model's heap BY DEFINITION, only the differential (audit after growth histories) supports them"],
    "exec_timeout": 1500,
    # a broken tie here is a source-shape change (extractor) or a model/impl disagreement on a whole history:
    # more random histories add little, and thorough ones are expensive
    "search_rounds": 1,
    "search_time": 90,
}


def _ops(request):
    toks = request.split()
    if not toks or toks[0] != "H":
        return None
    ops, cur = [], []
    for t in toks[1:]:
        if t == ";":
            if cur:
                ops.append(cur)
            cur = []
        else:
            cur.append(t)
    if cur:
        ops.append(cur)
    return ops


def _lineage(ops, results, upto):
    """value identities per name after op `upto` (inclusive): name -> (id, deps); live ids.
    Ops the implementation answered with `bad` had no effect."""
    names, live, nxt = {}, set(), [0]

    def fresh():
        nxt[0] += 1
        live.add(nxt[0])
        return nxt[0]
    for k, op in enumerate(ops[:upto + 1]):
        if results.get("%d.r" % k) in ("bad", None):
            continue
        o = op[0]
        if o == "new":
            i = fresh()
            names[op[1]] = (i, {i})
        elif o == "clone":
            i = fresh()
            names[op[2]] = (i, set(names[op[1]][1]) | {i})
        elif o == "cfrom":
            live.discard(names[op[2]][0])
            i = fresh()
            names[op[2]] = (i, set(names[op[1]][1]) | {i})
        elif o == "drop":
            live.discard(names.pop(op[1])[0])
        elif o == "swap":
            names[op[1]], names[op[2]] = names[op[2]], names[op[1]]
        elif o == "mv":
            names[op[2]] = names.pop(op[1])
        elif o == "take":
            names[op[2]] = names[op[1]]
            i = fresh()
            names[op[1]] = (i, {i})
    return names, live


@predicate
def c10_clone_borrows_original(failure):
    """`FAIL.dangling.<k>.<y>` where, in the history up to step k, the value named y descends through
    `clone` / `clone_from` from another value (detail `freed`: one of those ancestors has been dropped or
    overwritten since; `latent`: they are all still alive), AND the model — which follows the Clone the
    source defines — predicts exactly that (`k.D.y=1`): under the derived clone the i2t of a clone points
    into its ancestors' keys, nothing else makes a store not self-contained."""
    m = re.fullmatch(r"FAIL\.dangling\.(\d+)\.(\w+)", failure.get("field", ""))
    if not m:
        return False
    k, y = int(m.group(1)), m.group(2)
    ops = _ops(failure["request"])
    if ops is None or k >= len(ops):
        return False
    I, M = kv(failure["impl"]), kv(failure["model"])
    if M.get("%d.D.%s" % (k, y)) != "1":
        return False
    try:
        names, live = _lineage(ops, I, k)
    except (KeyError, IndexError):
        return False
    if y not in names:
        return False
    ident, deps = names[y]
    ancestors = deps - {ident}
    if not ancestors:
        return False
    detail = failure.get("detail")
    if detail == "freed":
        # an ancestor it can point into is gone
        return any(a not in live for a in ancestors)
    # `latent`: everything it was SEEN to point into is still alive (without the hook only sharing that is
    # visible through the public API is seen, so other ancestors may be gone already)
    return detail == "latent"


@predicate
def c10_lent_term_outlives_store(failure):
    """`FAIL.escape.<k>.<x>`: after step k the term <x> — a clone of a term LENT by a store (`esc`), kept by
    safe code — has a borrowed string inside a block the allocator has released since.  Matched only when
    (1) the history really made <x> with `esc <store> <x> …` answered `escaped` at an earlier step and has
    not dropped it (`desc`) since, and (2) the model — which clones the lent `i2t` entry with the derived
    `Clone` of `SimpleTerm` exactly when the extractor found `type Term = SimpleTerm<'static>` — predicts
    the same (`k.E.x=1`).  Any other way a kept term could dangle (model says `E=0`) is not masked."""
    m = re.fullmatch(r"FAIL\.escape\.(\d+)\.(\w+)", failure.get("field", ""))
    if not m or failure.get("detail") != "freed":
        return False
    k, x = int(m.group(1)), m.group(2)
    ops = _ops(failure["request"])
    if ops is None or k >= len(ops):
        return False
    I, M = kv(failure["impl"]), kv(failure["model"])
    if M.get("%d.E.%s" % (k, x)) != "1" or I.get("%d.E.%s" % (k, x)) != "1":
        return False
    made = None
    for j, op in enumerate(ops[:k + 1]):
        if op[0] == "esc" and len(op) >= 3 and op[2] == x and I.get("%d.r" % j) == "escaped" and M.get("%d.r" % j) == "escaped":
            made = j
        elif op[0] == "desc" and len(op) == 2 and op[1] == x and I.get("%d.r" % j) == "ok":
            made = None
    return made is not None and made < k
