"""C10 configuration and the known-finding predicate."""
import re
from props import predicate, kv


CONFIG = {
    "design_ref": "4.10",
    "technique": "Lean 4 proof over an ownership model (heap of allocations, owning / borrowing string fields, term index, stores, clone/drop/move/swap/take) whose `clone` is the one the source defines (regenerated from inmem/src/index.rs); cfg-guarded pointer-provenance audit hook + differential over histories on all ten store types",
    "level_text": "Proof (all histories, any number of stores, all terms incl. owned quoted triples, every index width) ABOUT THE OWNERSHIP MODEL lean/SophiaModel/Model/Heap.lean (allocations never reused; MownStr = owning or borrowing pointer; SimpleTermIndex = keys owning their buffers + i2t entries borrowing from them via the transmute of ensure_index; growth/moves/swap/take = identity on buffers): with the manual `impl Clone` (clone t2i, rebuild i2t from the NEW keys) every operation preserves `every borrowed string of a store's i2t points into a buffer owned by a key of the same store` together with unique ownership and liveness of owned buffers, hence after ANY history interleaving insert / remove / clone / clone_from / drop (original or clone first) / swap / move / Box / mem::take / growth no read of a live store touches released memory and nothing is released twice (no_dangling); a clone reads Term::eq-equal to its original at clone time, element by element, and afterwards no operation that does not name a store changes what that store returns (clone_independent); `unwrap_unchecked` in inmem/src/dataset/_iter.rs only sees `Some` (corollary of C01's invariant I3); `ensure_owned`'s transmute returns a string that owns a fresh buffer. For `#[derive(Clone)]` — what the tree has until notes/fixes/C10-manual-clone.diff is applied — the same statement is REFUTED in Lean by a kernel-checked 3-step history (derive_clone_dangles). Which of the two the source has is regenerated on every run (Gen/CloneKind.lean, fail-closed on any other shape of index.rs / _simple.rs). What is NOT proof: that rustc/std/mownstr behave as the ownership model says, and undefined behaviour in general is outside any model; the tie is the differential: the hook `verif_audit` (pointer ranges of every i2t string vs. the key's own buffers) and the full content of every safely readable store are compared with the model after every operation of every history.",
    "level_note": "Trusted: the ownership model's reading of std (HashMap/Vec/BTreeSet moves never move Box<str> buffers; derive(Clone) is field-wise) and of mownstr 0.3.1 (Clone of a borrowed MownStr copies the pointer); allocation ids are never reused in the model (a real allocator may reuse an address; a pointer into released memory is dangling all the same); tools/extractors/c10.py (exact-text recognition of ensure_index, the two Clone shapes, from_term_ref, ensure_owned; anything else fails closed); the hook's pointer arithmetic. While /repo lacks the hook (notes/hooks/C10-audit.diff not yet committed; replies say audit=unavailable and the evidence counter oracle.audit_hook_ABSENT__… is set) the Rust side can only observe buffer sharing between two live stores through the public API and skips every store that has a dropped clone-ancestor: the defect is then established by the kernel-checked witness + that aliasing observation, and a repaired tree is exercised less. A store whose audit reports an outside pointer is never read by the checker (no UB inside the check): there the evidence is the model's prediction + the audit vector. Lookups in the model compare key CONTENT (Term::eq), hashing is abstracted. clone_independent states content equality modulo Term::eq (language-tag case), exact equality would need key uniqueness (C01's I2) carried through the heap model. 16-bit index-full is modelled (key dropped again) but exercised only by C01. Miri/ASan are not part of the verdict. No native_decide. Known finding while unrepaired: C10-derive-clone-borrows-original.",
    "tables": ["clone_kind"],
    "lean_targets": ["SophiaProofs.Props.C10", "SophiaProofs.Audit.C10"],
    "theorems": ["winv_init", "sc_preserved", "winv_self_contained", "audit_clean_self_contained", "no_dangling", "read_after_history", "clone_same_content", "clone_same_quads", "clone_independent", "clone_independent_run", "derive_clone_dangles", "derive_not_safe", "no_dangling_partial", "c10_holds", "c10_verdict", "unwrap_unchecked_safe", "unwrap_unchecked_safe_gen", "ensure_owned_sound"],
    "native_ok": [],
    "trivial_re": r"^$",
    "rule": "one request = one self-contained history over up to six named stores: the kernel-checked 3-step witness; per store type (Light/Fast x dataset/graph x u32/u16, bare SimpleTermIndex u32/u16) scripted patterns (insert 100, clone, drop original, read clone; clone dropped first; swap then drop either side; clone_from over a non-empty target; mem::take / Box / move / chains of clones losing their links one by one) and growth histories crossing the hash table's 2^k thresholds before and after cloning on original and clone (100..600 terms quick, ..2000 thorough; literal / IRI / owned quoted-triple / language-tagged keys); plus random histories (6..32 ops quick, ..60 thorough) over ins/rem/ens/fill/clone/clone_from/drop/swap/mv/box/take/all with terms from small colliding alphabets (empty strings, nested quoted triples, case-variant tags); after EVERY op, for EVERY live store: audit vector (hook) and content digest (only stores safe to read) vs. the model, content vs. a value-semantics specification; distinct = distinct histories",
    "trusted_base": ["ownership model of std / mownstr (lean/SophiaModel/Model/Heap.lean header)",
                     "tools/extractors/c10.py (exact-text recognition, fail-closed)",
                     "hook SimpleTermIndex::verif_audit (notes/hooks/C10-audit.diff): pointer-range comparison"],
    "assumptions": ["HashMap lookups are by key content (Term::eq + consistent hash: property C02)",
                    "moving a HashMap / Vec / BTreeSet / Box<str> owner never moves or frees the str buffer (std guarantee)"],
    "exec_timeout": 1500,
    # a broken tie here is a source-shape change (extractor) or a model/impl disagreement on a whole history:
    # more random histories add little, and thorough ones are expensive
    "search_rounds": 1,
    "search_time": 90,
}


def _ops(request):
    toks = request.split()
    if not toks or toks[0] != "H":
        return None
    ops, cur = [], []
    for t in toks[1:]:
        if t == ";":
            if cur:
                ops.append(cur)
            cur = []
        else:
            cur.append(t)
    if cur:
        ops.append(cur)
    return ops


def _lineage(ops, results, upto):
    """value identities per name after op `upto` (inclusive): name -> (id, deps); live ids.
    Ops the implementation answered with `bad` had no effect."""
    names, live, nxt = {}, set(), [0]

    def fresh():
        nxt[0] += 1
        live.add(nxt[0])
        return nxt[0]
    for k, op in enumerate(ops[:upto + 1]):
        if results.get("%d.r" % k) in ("bad", None):
            continue
        o = op[0]
        if o == "new":
            i = fresh()
            names[op[1]] = (i, {i})
        elif o == "clone":
            i = fresh()
            names[op[2]] = (i, set(names[op[1]][1]) | {i})
        elif o == "cfrom":
            live.discard(names[op[2]][0])
            i = fresh()
            names[op[2]] = (i, set(names[op[1]][1]) | {i})
        elif o == "drop":
            live.discard(names.pop(op[1])[0])
        elif o == "swap":
            names[op[1]], names[op[2]] = names[op[2]], names[op[1]]
        elif o == "mv":
            names[op[2]] = names.pop(op[1])
        elif o == "take":
            names[op[2]] = names[op[1]]
            i = fresh()
            names[op[1]] = (i, {i})
    return names, live


@predicate
def c10_clone_borrows_original(failure):
    """`FAIL.dangling.<k>.<y>` where, in the history up to step k, the value named y descends through
    `clone` / `clone_from` from another value (detail `freed`: one of those ancestors has been dropped or
    overwritten since; `latent`: they are all still alive), AND the model — which follows the Clone the
    source defines — predicts exactly that (`k.D.y=1`): under the derived clone the i2t of a clone points
    into its ancestors' keys, nothing else makes a store not self-contained."""
    m = re.fullmatch(r"FAIL\.dangling\.(\d+)\.(\w+)", failure.get("field", ""))
    if not m:
        return False
    k, y = int(m.group(1)), m.group(2)
    ops = _ops(failure["request"])
    if ops is None or k >= len(ops):
        return False
    I, M = kv(failure["impl"]), kv(failure["model"])
    if M.get("%d.D.%s" % (k, y)) != "1":
        return False
    try:
        names, live = _lineage(ops, I, k)
    except (KeyError, IndexError):
        return False
    if y not in names:
        return False
    ident, deps = names[y]
    ancestors = deps - {ident}
    if not ancestors:
        return False
    detail = failure.get("detail")
    if detail == "freed":
        # an ancestor it can point into is gone
        return any(a not in live for a in ancestors)
    # `latent`: everything it was SEEN to point into is still alive (without the hook only sharing that is
    # visible through the public API is seen, so other ancestors may be gone already)
    return detail == "latent"
