"""C12 configuration and known-finding predicates (one per defect class of the JSON-LD serializer)."""
from props import predicate, kv, unhex

RDF = "http://www.w3.org/1999/02/22-rdf-syntax-ns#"

CONFIG = {
    "design_ref": "4.12",
    "technique": "Lean 4 executable model of jsonld/src/serializer/engine.rs (process_quads, mark_list_node, jsonify, "
                 "convert_rdf_object, populate_list; maps keyed as in the source; HashMap indexing as explicit panic outcome) "
                 "plus a reader for the documents it emits; kernel-checked theorems about that model; JSON-level and "
                 "round-trip-level differential against the real JsonLdSerializer / JsonLdParser",
    "level_text": "Proof on the Lean model (for all datasets with absolute IRIs; modes 1.0/1.1 x use_rdf_type): "
                  "(1) roundtrip_nolist: every dataset without rdf:first/rest/nil - default and named graphs, blank graph names, "
                  "blank nodes shared between graphs, all literal kinds incl. rdf:JSON, rdf:type with IRI / blank / literal objects - "
                  "round-trips exactly (none dropped, none invented, labels unchanged) under EVERY rdf_direction setting that is lossless "
                  "for it (DirOk: unset; i18n-datatype with well-formed `i18n#lang_dir` datatypes; compound-literal without rdf:direction "
                  "quads); DirOk is necessary: roundtrip_refuted_i18n / _compound (kernel-checked witnesses = the two known findings). "
                  "(2) no_panic: on EVERY dataset, with every option setting, no panicking expression of the serializer is reached "
                  "(unique_parent lookup, `&id[..2]`, populate_list's `map[RDF_FIRST][0]` / `map[RDF_REST][0]`, `node[RDF_VALUE][0]`, "
                  "`unreachable!()`); the IRI hypothesis is necessary (no_panic_needs_absolute_iris, replayed: relative_iri cases). "
                  "no_panic_partial: the marking phase also TERMINATES (walk up the rdf:rest parents passes each slot once). "
                  "(3) suppressed_only_list_cells (the property's mechanism clause): a label is put into list_node - hence suppressed by "
                  "jsonify - only if in one graph g it is a blank node of list shape whose unique parent (the ONLY slot and key where the "
                  "label occurs as an object: OInv) lies in g too and whose single rdf:rest value is rdf:nil or again such a cell of g. "
                  "(4) dropped_iff_not_jsonld + isJsonLd_spec: the document depends only on the quads is_jsonld keeps = the property's "
                  "'expressible'. (5) unique_parent_lookup_is_get and constants_as_in_source pin the regenerated table (lookup form, the 10 "
                  "string constants, the size bounds of is_list_node / is_compound_literal) to the model. "
                  "(6) kernel-checked counterexamples to the full statements with lists: roundtrip_refuted_cross_graph / _self_list / "
                  "_typed_list, hence suppressed_compensated_refuted and roundtrip_all_refuted; every witness is a corpus case replayed on "
                  "the implementation. "
                  "The tie model = code is differential: canonical JSON of the model's document vs the real serializer's text, and the "
                  "model's predicted round-trip verdict vs JsonLdParser on the real output (exact blank-node isomorphism in the harness), "
                  "on the list-shape generator plus exhaustive small scopes. Independent of the model, the harness checks the real code "
                  "alone: serializer error / panic / hang on an in-domain dataset, round trip through the real parser, and the second "
                  "QuadSerializer (Jsonifier, reused after another dataset) against the stringifier.",
    "level_note": "Not proved (def NoPanic / SuppressedCompensated, missing obligations in the doc comments): termination of the RENDERING of "
                  "marked lists (populate_list loop / nested convert: the model's fuel; never exhausted in 200 k cases) and the positive round "
                  "trip of datasets WITH well-formed lists (needs the reader's fresh-label renaming as a blank-node bijection): lists are "
                  "covered by Marked / no_panic, kernel-checked examples and the differential. Observed only: json-ld 0.15.1 (parser; the "
                  "model's reader mirrors it), JSON text printing (re-parsed by the harness). Excluded by the property: use_native_types. "
                  "rdf:JSON lexical forms are opaque text in the model (35 canonical forms exercised). Known findings (5 open + 1 fixed): "
                  "list_node keyed by label only; self-containing lists dropped; rdf:type rdf:List of compacted cells dropped (as in the W3C "
                  "algorithm); i18n datatype without language misread by json-ld; compound literals never survive; (fixed 949b852) panic "
                  "on unreferenced list heads.",
    "tables": ["jsonldflags"],
    "lean_targets": ["SophiaProofs.Props.C12", "SophiaProofs.Audit.C12"],
    "theorems": ["unique_parent_lookup_is_get", "constants_as_in_source", "no_panic", "no_panic_partial", "no_panic_nolist",
                 "no_panic_needs_absolute_iris", "suppressed_only_list_cells", "dropped_iff_not_jsonld", "isJsonLd_spec",
                 "roundtrip_nolist", "roundtrip_nolist_closed", "roundtrip_nolist_partial", "node_object_roundtrip",
                 "roundtrip_refuted_cross_graph", "roundtrip_refuted_self_list", "roundtrip_refuted_typed_list",
                 "roundtrip_refuted_i18n", "roundtrip_refuted_compound",
                 "suppressed_compensated_refuted", "roundtrip_all_refuted"],
    "native_ok": [],
    "panic_is_reply": True,
    "trivial_re": r"kept=0( |$)",
    "rule": "list-shape generator of the property's quantifier (harness/props/c12/src/generator.rs): a well-formed rdf:first/rest "
            "chain (0-3 items, 1 in 10: 4-8, thorough also 9-40; items: IRIs incl. odd absolute ones, blank nodes, literals incl. 35 canonical "
            "rdf:JSON forms / control characters / U+2028 / non-BMP / 300+ characters / 7 language tags, rdf:nil, nested lists to depth 2) in "
            "the default or a named graph (IRI, blank, or an IRI that is also a subject), then one of 21 deformations (shared head, "
            "branching, cyclic through rest / first, rdf:List-typed, split across graphs, reference from another graph, unreferenced head, "
            "same label described in two graphs, cell as graph name, extra property, mid-chain reference, head below rdf:first/rest, "
            "duplicate quads, literal rdf:rest, head referenced by ONE subject through TWO predicates, cell that is both rdf:first and "
            "rdf:rest of its parent, IRI cell, same subject from two graphs); lists sharing a tail; a nested list in front of a cell that is "
            "not a list node; an IRI that is graph name and node; rdf:type with IRI / blank / literal objects; random strict quads; "
            "inexpressible quads (literal subject, blank or literal predicate, quoted triples, variables, literal graph); relative IRIs "
            "(differential only); i18n / compound-literal shapes; x modes 1.0/1.1 x use_rdf_type x rdf_direction x indentation 0/1/2/4/8/300; "
            "quad order shuffled; plus the exhaustive scopes. distinct = distinct request lines; non-trivial = at least one expressible quad",
    "trusted_base": ["json-ld 0.15 / json-syntax crates (expansion, toRdf, JSON parsing): observed through the differential only",
                     "harness isomorphism test (brute force over signature-compatible bijections, harness/props/c12/src/main.rs)"],
    "assumptions": ["rdf:JSON literals carry valid JSON in canonical form (the serializer re-parses and re-prints them; the harness "
                    "treats a request with an unparsable rdf:JSON literal as out of domain)",
                    "IRIs are absolute (relative IRIs are exercised differentially only: `&id[..2]` panics on 1-byte ids)",
                    "HashMap iteration order is irrelevant (object keys and set-valued arrays are sorted before comparison)"],
    # per-request hangs are detected by the harness itself (watched child process, 60 s per request); this outer limit only
    # guards against the harness process itself stalling, and is far above the ~1-3 min a thorough run takes per side
    "exec_timeout": 3600,
    "search_rounds": 3,
    "search_time": 240,
}


# ------------------------------------------------------------------ request decoding

def _term(t, i):
    k = t[i]
    if k in ("i", "b", "v"):
        return (k, t[i + 1]), i + 2
    if k in ("l", "g"):
        return (k, t[i + 1], t[i + 2]), i + 3
    if k == "t":
        a, i = _term(t, i + 1)
        b, i = _term(t, i)
        c, i = _term(t, i)
        return ("t", a, b, c), i
    raise ValueError(k)


def _render(x):
    if x is None:
        return "-"
    if x[0] == "t":
        return "t " + " ".join(_render(y) for y in x[1:])
    return " ".join(x)


def _mask(x):
    if x is None:
        return "-"
    if x[0] == "b":
        return "b *"
    return _render(x)


def _decode(req):
    t = req.split()
    opts = {"mode": t[1], "urt": t[2], "dir": t[3]}
    n = int(t[5])
    i = 6
    qs = []
    for _ in range(n):
        s, i = _term(t, i)
        p, i = _term(t, i)
        o, i = _term(t, i)
        if t[i] == "-":
            g = None
            i += 1
        else:
            g, i = _term(t, i)
        qs.append((s, p, o, g))
    return opts, qs


def _expressible(q):
    s, p, o, g = q
    return s[0] in "ib" and p[0] == "i" and o[0] in "iblg" and (g is None or g[0] in "ib")


def _iri(name):
    return ("i", (RDF + name).encode().hex())


FIRST, REST, NIL, TYPE, LIST = (_iri(x) for x in ("first", "rest", "nil", "type", "List"))
VALUE, DIRECTION, LANGUAGE = (_iri(x) for x in ("value", "direction", "language"))
I18N = "https://www.w3.org/ns/i18n#"


def _compoundshaped(qs, b, g):
    """`is_compound_literal` on the description of blank node b in graph g"""
    mine = [q for q in qs if q[0] == b and q[3] == g]
    keys = {q[1] for q in mine}
    if not ({VALUE, DIRECTION} <= keys <= {VALUE, DIRECTION, LANGUAGE}):
        return False
    if g is None and any(q[3] == b for q in qs):
        return False            # the slot also carries an "@graph" key
    for k in keys:
        vals = {q[2] for q in mine if q[1] == k}
        if len(vals) != 1 or next(iter(vals))[0] not in "lg":
            return False
    return True


def _cancel_i18n(lost, extra):
    """remove pairs lost `… "x"^^i18n#_dir` / extra `… "x"^^i18n#dir`; -> (lost, extra, number of pairs)"""
    lost, extra, n = list(lost), list(extra), 0
    for sig in list(lost):
        for d in ("ltr", "rtl"):
            a, b = (I18N + "_" + d).encode().hex(), (I18N + d).encode().hex()
            toks = sig.split()
            if a in toks:
                twin = " ".join(b if t == a else t for t in toks)
                if twin in extra:
                    lost.remove(sig)
                    extra.remove(twin)
                    n += 1
                    break
    return lost, extra, n


def _listshaped(qs, b, g):
    """exactly one rdf:first value and one non-literal rdf:rest value for blank node b in graph g"""
    f = {q[2] for q in qs if q[0] == b and q[3] == g and q[1] == FIRST}
    r = {q[2] for q in qs if q[0] == b and q[3] == g and q[1] == REST}
    return len(f) == 1 and len(r) == 1 and next(iter(r))[0] in "ib"


def _graphs(qs):
    return {q[3] for q in qs}


def _edges(qs, g):
    edges = {}
    for s, p, o, gg in qs:
        if gg == g and s[0] == "b" and o[0] == "b" and p in (FIRST, REST):
            edges.setdefault(s, set()).add((o, p == FIRST))
    return edges


def _reach(edges, src):
    seen, todo = set(), [src]
    while todo:
        x = todo.pop()
        for (y, _) in edges.get(x, ()):
            if y not in seen:
                seen.add(y)
                todo.append(y)
    return seen


def _cross_suppressed(qs, g, graphs):
    """blank nodes whose description in graph g is suppressed because the label is a list cell in another
    graph, and the list cells hanging below them in g (their only parent is not rendered)"""
    roots = {q[0] for q in qs if q[3] == g and q[0][0] == "b" and any(g2 != g and _listshaped(qs, q[0], g2) for g2 in graphs)}
    edges = _edges(qs, g)
    out = set(roots)
    for r in roots:
        out |= _reach(edges, r)
    return out


def _first_cycle_reach(qs, g):
    """blank nodes of graph g reachable (through rdf:first / rdf:rest edges between blank nodes) from a
    directed cycle of such edges that contains at least one rdf:first edge"""
    edges = _edges(qs, g)

    def reach(src):
        return _reach(edges, src)
    oncycle = set()
    for s in edges:
        for (o, isfirst) in edges[s]:
            if isfirst and (o == s or s in reach(o)):
                oncycle.add(s)
    out = set(oncycle)
    for s in oncycle:
        out |= reach(s)
    return out


def _parse_lostextra(impl):
    d = kv(impl).get("FAIL.roundtrip", "")
    if not d.startswith("L") or ".X" not in d:
        return None
    l, x = d[1:].split(".X", 1)
    lost = [s for s in unhex(l).split(";") if s]
    extra = [s for s in unhex(x).split(";") if s]
    return lost, extra


def _explain(req, impl):
    """-> set of classes explaining ALL lost quads, or None when something is unexplained"""
    opts, qs = _decode(req)
    le = _parse_lostextra(impl)
    if le is None:
        return None
    lost, extra = le
    # the harness lists at most 400 lost quads (a 40-cell list with typed cells has < 200): a truncated list cannot be
    # checked quad by quad, so it is never accepted
    if len(lost) >= 400:
        return None
    classes = set()
    if opts["dir"] == "i":
        lost, extra, n = _cancel_i18n(lost, extra)
        if n:
            classes.add("i18n")
    if extra or not (lost or classes):
        return None
    qs = [q for q in qs if _expressible(q)]
    graphs = _graphs(qs)
    cyc = {g: _first_cycle_reach(qs, g) for g in graphs} if opts["mode"] == "11" else {}
    cross = {g: _cross_suppressed(qs, g, graphs) for g in graphs}
    def reasons(q):
        s, p, o, g = q
        why = set()
        # (a) rdf:type rdf:List of a compacted cell
        if opts["urt"] == "0" and s[0] == "b" and p == TYPE and o == LIST and _listshaped(qs, s, g):
            why.add("typed")
        # (b) the label is a list cell in another graph: this description is suppressed
        if s[0] == "b" and s in cross[g]:
            why.add("cross")
        # (b') the graph is named by a label that is a list cell in a named graph
        if g is not None and g[0] == "b" and any(g2 is not None and _listshaped(qs, g, g2) for g2 in graphs):
            why.add("cross")
        # (c) list cells hanging below a cycle through rdf:first: never reached from a rendered node
        if s[0] == "b" and p in (FIRST, REST, TYPE) and s in cyc.get(g, ()):
            why.add("cycle")
        # (d) rdf_direction = compound-literal: the description of a compound literal node
        if opts["dir"] == "c" and s[0] == "b" and p in (VALUE, DIRECTION, LANGUAGE) and _compoundshaped(qs, s, g):
            why.add("compound")
        return why

    distinct = sorted(set(qs), key=repr)
    for sig in sorted(set(lost)):
        why, n = set(), 0
        for q in distinct:
            if " ".join(_mask(x) for x in q) != sig:
                continue
            w = reasons(q)
            if w:
                n += 1
                why |= w
        # every lost quad needs an input quad OF ITS OWN (same masked signature) that has a reason to be lost
        if not why or lost.count(sig) > n:
            return None
        classes |= why
    return classes


def _rt_failure(failure, cls):
    if failure.get("field") not in ("rt", "FAIL.roundtrip"):
        return False
    I = kv(failure["impl"])
    if I.get("rt") != "0" or I.get("dom") != "1":
        return False
    # the model reproduces the defect: same document, same verdict (no `rt` = the model's isomorphism search gave
    # up: more than 16 blank nodes or budget exhausted)
    M = kv(failure["model"])
    if M.get("rt", "0") != "0" or M.get("json") != I.get("json"):
        return False
    ex = _explain(failure["request"], failure["impl"])
    return ex is not None and cls in ex


@predicate
def c12_unreferenced_list_head(failure):
    """panic `no entry found for key` in mark_list_node: a blank node that is the subject of rdf:rest is the
    object of no quad"""
    if failure.get("field") != "FAIL.panic":
        return False
    I, M = kv(failure["impl"]), kv(failure["model"])
    if I.get("panic") != "1" or M.get("panic") != "1":
        return False
    if "no entry found for key" not in unhex(I.get("FAIL.panic", "")):
        return False
    _, qs = _decode(failure["request"])
    qs = [q for q in qs if _expressible(q)]
    objects = {q[2] for q in qs}
    return any(q[0][0] == "b" and q[1] == REST and q[0] not in objects for q in qs)


@predicate
def c12_cross_graph_suppression(failure):
    """list_node keyed by label only: a blank node compacted as a list cell in one graph has its description in
    another graph (or the graph it names) dropped"""
    return _rt_failure(failure, "cross")


@predicate
def c12_self_containing_list(failure):
    """mode 1.1: list cells on / below a cycle through rdf:first are all suppressed and rendered nowhere"""
    return _rt_failure(failure, "cycle")


@predicate
def c12_typed_list_type_dropped(failure):
    """rdf:type rdf:List of a compacted list cell is not rendered (same in the W3C algorithm)"""
    return _rt_failure(failure, "typed")


@predicate
def c12_i18n_datatype_without_language(failure):
    """rdf_direction = i18n-datatype: `"x"^^i18n:_rtl` is written {"@value":"x","@direction":"rtl"} and read back by
    json-ld 0.15.1 as `"x"^^i18n:rtl` (no underscore, unlike the specification)"""
    return _rt_failure(failure, "i18n")


@predicate
def c12_compound_literal_lost(failure):
    """rdf_direction = compound-literal: the serializer replaces the node by a value object (whatever its parents)
    and json-ld 0.15.1 reads a value object with @direction back as a bare blank node without
    rdf:value / rdf:direction / rdf:language triples"""
    return _rt_failure(failure, "compound")
