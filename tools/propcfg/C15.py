"""C15 configuration: streams deliver exactly the prefix before a failure and blame the right side."""
from props import predicate, kv  # noqa: F401


CONFIG = {
    "design_ref": "4.15",
    "technique": "Lean 4 proof over an executable model of sophia_api::source (Source/TripleSource/QuadSource provided "
                 "methods, filter/map/filter_map/convert adapters as callback wrappers, iterator-of-Result and Rio batch "
                 "sources, the buffering iterators MapSource/FilterMapSource::into_iter used as sources again, "
                 "insert_all/remove_all, collectors, NT/NQ serializer closure); fault-injection differential "
                 "(real pipeline vs compiled model vs specification) over every fault position",
    "level_text": "Proof (unbounded: every item list / every script of parser steps, every adapter chain of any depth, "
                  "every callback with any captured state, every fault position): a run of try_for_each_item over "
                  "adapters(source) equals the specification 'feed the consumer chain(items before the fault) in order "
                  "until it fails; sink failure => SinkError(its error), else source failure => SourceError(its error), "
                  "else Ok' (run_spec), with corollaries prefix_exact, nothing_after, blame_source/blame_sink, "
                  "stepwise_eq_whole (for every Source), no_fault_all, for_each_item, insert_all/remove_all counts = "
                  "size change of the set store; and for MapSource/FilterMapSource::into_iter over any batch script "
                  "(fault in the middle of a batch included): next() pops exactly the pending results, the iterator "
                  "yields Ok(chain(items before the fault)) then the error (into_iter_yields/_prefix_exact), and used "
                  "as a Source under further adapters it is transparent (into_iter_transparent), so all the above carry "
                  "over; source side: the script is left exactly behind the step of the fault (run_state_spec, "
                  "no_read_ahead_*); HashSet/BTreeSet collectors and the streaming Turtle/TriG/RDF-XML serializers "
                  "(constructor / format call j / finish failing) as instances (collectSet_spec, serializeRio_spec); "
                  "run_spec_generic: the same for ANY item type and ANY pure closures in the adapters (the protocol's "
                  "closed family is an instance, family_is_generic); the model's fuel never runs out for iterator, batch "
                  "and into_iter sources (fuel_suffices*), into_iter from any iterator state; multi-index (Fast) "
                  "stores: after any insert_all run, faulted anywhere, every index holds the same statements "
                  "(fast_insert_all_coherent), the primary index evolving as the one-list store of the count theorems "
                  "(fast_insert_sim), with a kernel-checked witness that a derive-indexes-afterwards bulk variant is "
                  "incoherent after a fault; GraphAsDataset: a named-graph quad is the sink fault, exactly the items before "
                  "it are stored (gad_named_graph_is_sink_fault). Tie to the text: tools/extractors/c15.py regenerates the normalised text of the 41 "
                  "Rust function bodies the model mirrors and the list of overrides of provided stream methods; "
                  "transcribed_text_is_current / no_bulk_override are obligations on them. The theorems are about the Lean model; that the model is the Rust code "
                  "is checked differentially on every run (call log, result, error side and payload, counts, final "
                  "store, bytes written), exhaustively in the fault position.",
    "level_note": "Differential, not proof: correspondence model<->/repo; Rio's behaviour inside one parse_step (batch "
                  "boundaries are observed with the third-party parser alone and given to the model as a script); the "
                  "store model only tracks the object literal's index slot (subject/predicate/graph names are interned "
                  "beforehand in every generated scenario); beyond the first adapter the harness type-erases the "
                  "pipeline between adapters (sink errors travel boxed through the real adapters); at most one "
                  ".into_iter() per chain. Where a sink failure position depends on bytes or index slots (NT/NQ writer, "
                  "streaming Turtle/TriG/RDF-XML formatters of rio, 16-bit term index) the model's prediction is compared "
                  "as a model field only; the property itself is evaluated on the Rust side from what the writer was "
                  "observed to refuse (no byte-exact demand) resp. from slot arithmetic that is calibrated by probing "
                  "the real index at run time. The number of Ok(true) rounds (info.steps) is informational. The pretty "
                  "Turtle/TriG serializers (which collect before writing), the JSON-LD and RDF/XML parser sources are "
                  "not driven. No native_decide.",
    "tables": ["sourceshapes"],
    "lean_targets": ["SophiaProofs.Props.C15", "SophiaProofs.Audit.C15"],
    "theorems": ["run_spec", "run_spec_iter", "fuel_suffices", "specSource_spec",
                 "prefix_exact_source_fault_any_sink", "prefix_exact_source_fault",
                 "prefix_exact_sink_fault", "prefix_exact_sink_fault_iter",
                 "nothing_after_source_fault", "nothing_after_sink_fault", "nothing_after_iter",
                 "blame_source", "blame_sink", "stepwise_eq_whole", "no_fault_all", "no_fault_all_log",
                 "forEach_spec", "counts_insert_all", "counts_remove_all",
                 "into_iter_next_spec", "into_iter_yields", "into_iter_prefix_exact", "into_iter_run_spec",
                 "into_iter_transparent", "into_iter_prefix_exact_source_fault", "into_iter_prefix_exact_sink_fault",
                 "into_iter_nothing_after_source_fault", "into_iter_blame_source", "into_iter_blame_sink",
                 "run_state_spec", "no_read_ahead_source_fault", "no_read_ahead_sink_fault",
                 "collectSet_spec", "serializeRio_spec",
                 "run_spec_generic", "family_is_generic", "fuel_suffices_iter", "into_iter_run_spec_any_state",
                 "fuel_suffices_into_iter", "fast_insert_coherent", "fast_insert_all_coherent", "fast_insert_sim",
                 "bulk_insert_all_incoherent_witness", "transcribed_text_is_current", "no_bulk_override",
                 "gad_named_graph_is_sink_fault"],
    "native_ok": [],
    "trivial_re": r"^log=_ ret=ok",
    "rule": "item sequences (len 0..20, values colliding mod the filter moduli) x well-typed adapter chains (depth 0..3 "
            "quick, 0..5 thorough; filter/map/filter_map in their _items/_triples/_quads flavours, to_quads, to_triples, "
            "type-changing maps) x consumers (recording closure through try_for_each_item and step-wise "
            "try_for_some_item, for_each_item, collect into Vec / Light / Fast graph|dataset, add_to_graph, insert_all, "
            "remove_all on pre-filled stores, insert_all into a 16-bit-index LightGraph with 0..n free slots, NT/NQ "
            "serializer over a writer failing after n bytes) x EVERY fault position (source Err at each k in 0..=len; "
            "sink failure on each delivered item; writer limit at each item boundary +-1; index full after each number "
            "of new terms; both kinds together); plus real Rio N-Triples/Turtle/N-Quads/TriG/generalized parsers on "
            "documents with a syntax error at each statement k (Turtle/TriG statements emitting several triples, steps "
            "that emit and then fail); .into_iter() after map_items/map_triples/map_quads/filter_map_* at a random "
            "position of the chain, in particular over a synthetic chunked Source (chunk sizes 0..3, source fault at "
            "EVERY item position, i.e. also in the middle of a chunk) and over the real Turtle parser with a syntax "
            "error at EVERY position of an object list / predicate list; corpus/C15 holds two minimal such inputs. "
            "A case is non-trivial when something was delivered or an error was reported; "
            "distinct = distinct request lines.",
    "trusted_base": ["lean/SophiaModel/Model/Source.lean is a faithful transcription of api/src/source.rs, "
                     "source/{filter,map,filter_map,convert,_triple,_quad}.rs, rio/src/parser.rs, insert_all/remove_all "
                     "(checked differentially on every run, exhaustively in the fault position)",
                     "rio_turtle / rio_api 0.8.6 (third party): batch structure and error messages are observed, not modelled"],
    "assumptions": ["closures passed to adapters are the pure functions of the generated family (value mod m != r, +k, "
                    "kind conversions); a panicking or stateful user closure is outside the statement"],
    "exec_timeout": 1500,
}
