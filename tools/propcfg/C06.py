"""C06 configuration (output equals W3C RDFC-1.0), known-finding predicates."""
from props import predicate, kv, unhex  # noqa: F401


CONFIG = {
    "design_ref": "4.6",
    "technique": "Lean 4: two executable models - the implementation (Rdfc10.lean, tied to rdfc10.rs by a byte-exact differential) and an "
                 "independent transcription of the W3C Recommendation (Rdfc10Spec.lean, one definition per numbered step) - run on the "
                 "same requests as the real normalize*/relabel*; the implementation's bytes are compared with the SPECIFICATION model's on every case; "
                 "kernel-checked theorems about errors, limits, the skip rule and the escape table; native_decide regression facts on the former witness",
    "level_text": "Proof (all inputs, all hashes/limits, kernel-checked): (impl_eq_spec_partial) on RDF datasets without self-referencing quads whose "
                  "first-degree hashes are pairwise distinct - where Hash N-Degree Quads is never entered - the model of the implementation and the "
                  "transcription of the Recommendation (4.4.3 steps 1-6, 4.5, 4.6, canonical N-Quads) produce the same bytes; (hash_related_as_specified) Hash Related Blank Node 4.7.3 hashes exactly the specified input for every position incl. g; "
                  "(skip_rule_monotone) testing the skip rule once after the loop is equivalent to testing it after every related node; (escapes_as_specified) the "
                  "escape table regenerated from _cnq.rs is the canonical N-Quads rule for every character; (unsupported_iff) Unsupported is returned "
                  "exactly for rejected predicates / quoted triples / variables; (limits_only_fail) the non-standard safeguards only ever turn a result "
                  "into an error, never change one; (skip_rule_as_specified) the pruning test of the repaired smaller_path is the skip rule of 5.4.4.3/5.4.5.5 "
                  "for all paths; (flag_smaller_path_is_spec_rule, flag_predicate_must_be_iri) the two flags regenerated from rdfc10.rs have the repaired "
                  "values - a regression flips a flag and fails these obligations. (fails_only_explicitly) normalize_with ends in a result, Unsupported or ToxicGraph(depth|permutations) - no unwrap can fail, "
                  "the recursion is bounded by the number of blank nodes. (never_fails_within_limits) if step 2 accepts the dataset and it is statically within the limits (Rdfc10.withinLimits: no "
                  "related list can exceed the permutation limit, the depth guard cannot trip up to depth = #blank nodes) the result is Ok - the same "
                  "predicate drives the differential oracle o.st=ok is demanded whenever the transcription succeeds and the dataset is statically within "
                  "the configured limits (no related list can exceed the permutation limit, the depth guard cannot trip at depth = #blank nodes). Conformance beyond that fragment (4.7, 4.8: Hash Related / Hash N-Degree) is NOT a theorem (ImplEqSpec is open for the "
                  "repaired code; its refutation for the former length-first rule is kept as a non-audited guard lemma): the former "
                  "24-quad witness and its family now agree with the transcription (C06_witness_agrees, C06_family_agrees, native_decide) and the rest is "
                  "established differentially - implementation vs transcription on exhaustive "
                  "small datasets (<= 2 quads quick, <= 3 thorough, over 3 blank nodes / IRI / literal / 3 graph names), the symmetric families, the "
                  "shipped examples and random graphs.",
    "level_note": "Where the transcription itself is ambiguous (ties between non-automorphic blank nodes, see finding C05-rdfc10-ambiguous-tie; x.spec=ambiguous) "
                  "no specification oracle is emitted. Trusted: my offline transcription of the Recommendation of 21 May 2024 (4.4.3, 4.5-4.8). Demanded LESS where unsure: canonical N-Quads "
                  "escaping is shared with the implementation model (only the table regenerated from _cnq.rs is used; XML-Char clause for U+FFFE/FFFF not "
                  "demanded); step 2.1: where the two readings (one reference per blank node of a quad - my reading - or one per occurrence - what the "
                  "code does, text-pinned by the extractor as Gen.refsPerOccurrence) give different documents, i.e. on some datasets with a quad mentioning "
                  "one blank node twice, NO specification oracle is emitted (implementation vs its model only; x.reading reports which reading the model "
                  "follows; generator counter shape.self_ref_quad); the id map is not compared at all (determined only up to automorphism; the harness "
                  "checks that it is a bijection onto c14n0..n-1 mapping the input onto the returned quads). Both former findings (smaller_path pruning on length alone; unwrap panic on a literal predicate) are repaired in /repo "
                  "(33fee4b, ae95823); the model follows the source through the regenerated flags Gen.smallerPathLengthFirst / Gen.predicateMustBeIri, so a "
                  "regression flips the flags, makes C06_witness/not_implEqSpec non-vacuous again and re-opens the differential failure on corpus/C06/witness.req.",
    "tables": ["cnq_escapes", "rdfc10_smaller_path"],
    "lean_targets": ["SophiaProofs.Props.C06", "SophiaProofs.Audit.C06"],
    "theorems": ["impl_eq_spec_partial", "hash_related_as_specified", "skip_rule_monotone", "fails_only_explicitly", "never_fails_within_limits", "flag_smaller_path_is_spec_rule", "flag_predicate_must_be_iri", "skip_rule_as_specified",
                 "unsupported_iff", "unsupported_iff_now", "normalize_unsupported_iff", "limits_only_fail", "normalize_limits_only_fail",
                 "escapes_as_specified", "C06_witness_agrees", "C06_family_agrees"],
    "native_ok": ["C06_witness_agrees", "C06_family_agrees"],
    "trivial_re": r"^st=unsupported|^h=",
    "rule": "corpus: the 24-quad former witness; multi-edge near-twin family under 5-7 enumeration orders; hubs with 3-6 pairwise distinguishable "
            "same-hash siblings (distance-2 twists, twin / near-twin copies); >= 10 temporary ids (three variants of the witness family); >= 11 canonical "
            "ids before an ambiguous near-twin pair; empty and blank-node-free datasets; literal graph name; shipped examples (both hashes); smaller_path family (chain length 7-11 x copies x extras, relabelled); symmetric "
            "families as C05; cross-group recursion; literals with every C0 control/DEL/quote/backslash/U+FFFE; unsupported and generalized input; "
            "limits grid; ALL datasets with <= 2 (thorough 3) quads over {3 blank nodes, IRI} x {3 blank nodes, IRI, literal} x {default, IRI, blank graph}; "
            "random graphs <= 6 blank nodes; non-trivial = not Unsupported",
    "trusted_base": ["transcription of W3C RDFC-1.0 lean/SophiaModel/Model/Rdfc10Spec.lean", "model lean/SophiaModel/Model/Rdfc10.lean (differentially tied)",
                     "sha2 0.10 (validated per digest)"],
    "assumptions": ["Rust str order = code-point order", "the Recommendation fixes no permutation order and no iteration order of the blank node map: any is an instance"],
    "exec_timeout": 3000,
}


def _terms(toks, i):
    """parse one term in prefix notation starting at toks[i]; return (kind, next index)"""
    k = toks[i]
    if k in ("i", "b", "v"):
        return k, i + 2
    if k in ("l", "g"):
        return k, i + 3
    if k == "t":
        j = i + 1
        for _ in range(3):
            _, j = _terms(toks, j)
        return "t", j
    raise ValueError(k)


def _quads(request):
    """[(kinds of s, p, o, g)] of an `n` request"""
    toks = request.split()
    if not toks or toks[0] != "n":
        return []
    rest = toks[6:]
    out, cur = [], []
    for t in rest + ["|"]:
        if t == "|":
            if cur:
                kinds, i = [], 0
                while i < len(cur):
                    if cur[i] == "-":
                        kinds.append("-")
                        i += 1
                    else:
                        k, i = _terms(cur, i)
                        kinds.append(k)
                out.append(kinds)
            cur = []
        else:
            cur.append(t)
    return out


@predicate
def c06_smaller_path(failure):
    """implementation == implementation-model, != transcription of the Recommendation, and the transcription given ONLY the
    implementation's skip rule (length first) reproduces the implementation (x.len=1, computed by the driver)"""
    if failure.get("field") != "out":
        return False
    I, M = kv(failure["impl"]), kv(failure["model"])
    return ("out" in I and I["out"] == M.get("out") and M.get("o.out") not in (None, M.get("out"))
            and M.get("x.len") == "1")


@predicate
def c06_literal_predicate_panic(failure):
    """panic (Option::unwrap on None in hash_related_bnode) reproduced by the model as st=panic, on a dataset with a literal predicate"""
    if failure.get("field") not in ("FAIL.panic", "panic"):
        return False
    I, M = kv(failure["impl"]), kv(failure["model"])
    if I.get("st") != "panic" or M.get("st") != "panic":
        return False
    try:
        return any(len(q) >= 2 and q[1] in ("l", "g") for q in _quads(failure["request"]))
    except Exception:
        return False
