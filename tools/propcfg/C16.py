"""C16 configuration and known-finding predicates (one per harness site group = per function of /repo)."""
from props import predicate, kv


CONFIG = {
    "design_ref": "4.16",
    "technique": "Lean 4 proof of a cost semantics (call depth of the program text) for every anchored recursion of /repo - "
                 "both the self-recursive and the looped formulation of the data loops, an instrumented model of every "
                 "function that recurses on nesting - over a recursion table regenerated from /repo's source text; the "
                 "frame-per-call assumption is validated by child processes running the real operations on a 2 MiB stack "
                 "(stack overflow / completion; stack high-water mark measured by stack painting at three sizes)",
    "level_text": "Proof of the cost model, for all inputs: (1) a site whose text calls itself on the rest of the data "
                  "(`return self.next()` in the five inmem matching iterators and DedupIterator, quoted_string, graph_rec, "
                  "populate_list, mark_list_node) has call depth = rows skipped / escaped characters / graph names / list "
                  "cells (next_rec_depth_exact, ..._depth_linear) - which refutes the property's bound for exactly the sites "
                  "the regenerated table classifies selfRecursiveOnData (none today: table_all_bounded is decided on the "
                  "table of every run); the looped formulation has depth 1 and the same results (..._rec_eq_..._loop). "
                  "(2) every function that recurses on nesting has an instrumented model whose depth is bounded by the "
                  "nesting alone, for strings / row sets / node sets / graph-name sets / lists of ANY size: Term::cmp/eq/hash "
                  "(equal to C02's termCmp/termEq/termHash), c14n nq, N-Triples write_term~write_triple, cmp_bindings_with "
                  "under any sort (order_by_depth_bounded), bgp_rec, jsonify (<= 2), populate_list~convert_rdf_object, "
                  "select~operators~check_exists (query operators, expressions and EXISTS patterns) for any number of named graphs, find_subject (log2), and the prettifier "
                  "(pretty_depth_bounded: <= 1 + 6 * nesting of quoted triples, collections, annotations AND anonymous "
                  "blank nodes). (2b) the CALL GRAPH of the anchored files (114 functions, 155 calls, regenerated from the "
                  "source text on every run, each call flagged descending = transcribed as passing a strict sub-structure): "
                  "chain_depth_bounded - for every graph whose non-descending edges carry a strictly decreasing rank, every "
                  "chain of nested calls has length <= nesting * (maxRank + 1) + rank, whatever data the functions loop "
                  "over; call_graph_well_ranked decides that hypothesis on the regenerated graph (a self call on the rest "
                  "of the data anywhere in the anchored files fails it: this replaces the assumedLinear convention as "
                  "the verdict on unknown recursions), call_graph_chain_bounded is the resulting statement for today's "
                  "/repo, chain_unbounded_without_rank shows the hypothesis is necessary. (3) table_verdict / table_status / all_bounded lift this to the harness families of every "
                  "size through those general theorems. The prettifier without a cap on [ ] nesting is NOT bounded by the "
                  "nesting of the data (pretty_full_refuted: a chain of n blank nodes = n plain statements needs 5n+1 nested "
                  "calls - the defect fixed in /repo da7f8f8); the repaired text walks the cut tree: "
                  "pretty_repaired_depth_bounded (<= 1 + 6 * (data nesting + cap) for every tree), pretty_repaired_deferred_bounded "
                  "(the own tree of every deferred blank node, same bound), pretty_cap_present "
                  "(decided on the constant regenerated from _pretty.rs on every run), pretty_chain_bounded. "
                  "Differential (not proof): that one active call costs one stack frame - 63 sites run the real operations "
                  "in child processes on std::thread::Builder::stack_size(2 MiB) at 2*10^5 (quick) / 10^3..10^6 (thorough) "
                  "elements, dev profile (release additionally in the thorough tier); the stack high-water mark at 100, 400 "
                  "and 1600 elements must show the model's growth (constant vs >= 16 bytes per element over both increments).",
    "level_note": "Assumed, validated empirically: frame-per-call in unoptimised builds (>= 16 bytes per call); optimiser "
                  "behaviour in release is observed, not modelled. The models are simplified copies (iterator = staged "
                  "matcher caches over index rows; select/convert_rdf_object/ORDER BY evaluation abstracted as functions; the "
                  "prettifier sees the tree its classification passes produce). A self call that the extractor does not "
                  "know is modelled as one call per element (assumedLinear) - only reachable through a "
                  "selfRecursiveOnData row, which table_all_bounded and call_graph_well_ranked both exclude on the "
                  "regenerated tables. Trusted in the call graph: the text -> edge reading, that a call flagged "
                  "descending really passes a strict sub-structure (the Chain hypothesis), and that calls across files "
                  "/ through trait objects / closures stored in iterators are not edges (observed by the harness only: "
                  "ArcExpression::eval -> select for EXISTS is driven by the sparql_exists site). The recursion table is read off the source text by tools/extractors/c16.py "
                  "(fail-closed on any self or mutual recursion in the anchored files that is not transcribed, and on a "
                  "self-calling `fn next` in any workspace crate, UFCS spellings included). Operations with quadratic running "
                  "time (pretty Turtle/TriG, multi-constant matchers, JSON-LD named-graph/list-seed bookkeeping, json-ld "
                  "parsing) are capped in size (1500..40000 quick); growth probe and escalation still apply to them. "
                  "Recursion inside third-party crates (rio, json-ld, json-syntax, spargebra, quick-xml) is only observed "
                  "through the child processes. A child that exceeds its CPU-time limit or dies of anything but a stack "
                  "overflow is a model/implementation difference (`completed`), never a failing input. Not covered: RDFC-1.0 "
                  "hash_n_degree_quads on long blank node chains (depth limit scales with the dataset: overflows at ~430 "
                  "links in dev; not an anchored file, C05/C06 own the algorithm), sophia_resource, SPARQL query nesting.",
    "tables": ["recursion_sites"],
    "lean_targets": ["SophiaProofs.Props.C16", "SophiaProofs.Audit.C16"],
    "theorems": [
        "next_rec_eq_next_loop", "next_loop_depth_bounded", "next_rec_depth_exact", "next_rec_depth_linear",
        "quoted_rec_eq_loop", "quoted_rec_depth_linear", "graph_rec_eq_graph_loop", "graph_rec_depth_exact",
        "graph_rec_depth_linear", "populate_rec_eq_loop", "populate_rec_depth_exact",
        "populate_rec_depth_linear", "mark_rec_eq_loop", "mark_rec_depth_linear", "dedup_rec_eq_loop",
        "dedup_loop_depth_bounded", "dedup_rec_depth_linear", "term_cmp_fst", "term_cmp_depth_bounded",
        "term_eq_fst", "term_eq_depth_bounded", "term_hash_fst", "term_hash_depth_bounded", "nq_depth_bounded",
        "nt_write_term_depth_bounded", "find_subject_depth_bounded", "bgp_rec_depth_bounded",
        "cmp_bindings_depth_bounded", "order_by_depth_bounded", "jsonify_depth_bounded",
        "into_json_depth_bounded", "populate_convert_depth_bounded", "select_depth_bounded", "check_exists_depth_bounded",
        "pretty_depth_bounded", "pretty_full_refuted", "pretty_depth_bounded_partial", "pretty_chain_status",
        "pretty_repaired_depth_bounded", "pretty_repaired_props_bounded", "pretty_repaired_full", "cut_chain",
        "pretty_cap_present", "pretty_chain_bounded", "pretty_repaired_deferred_bounded",
        "chain_depth_bounded", "call_graph_well_ranked", "call_graph_ids", "call_graph_chain_bounded",
        "chain_unbounded_without_rank", "graph_rec_depth_le", "populate_rec_depth_le",
        "table_names_known", "table_all_bounded", "table_verdict", "table_refuted", "table_status",
        "all_bounded",
    ],
    "native_ok": [],
    "trivial_re": r"^site=\S+$",
    "rule": "one request per (site, size, profile): 63 sites = every matching iterator of inmem with the closure matcher on "
            "every non-constant position (first / middle / last / graph name), the Fast* index orders, std Filter, "
            "n-constant slice matchers, remove_matching / retain_matching, N-Triples / N-Quads / Turtle / TriG / RDF-XML / "
            "JSON-LD serialisation (streaming and pretty; literals with n escapes; n statements / objects / subjects / "
            "named graphs / list items / lists / chained blank nodes), RDFC-1.0, SPARQL (GRAPH ?g, BGP, ORDER BY, FILTER, "
            "UNION+BIND+DISTINCT+OFFSET), parsing + insertion for N-Triples / N-Quads / Turtle / TriG / RDF-XML / JSON-LD; "
            "sizes 2*10^5 (quick), 10^3..10^6 (thorough, + release profile at 2*10^5 and 10^6); each request = 1 child at "
            "the full size + 3 probe children (100, 400, 1600; cached per site and profile) + 1 escalation child when "
            "the probes grow linearly; non-trivial = a `run` request (the `site` requests are answered by the model "
            "only); distinct = distinct request lines",
    "trusted_base": ["tools/extractors/c16.py: call-graph reading of Rust source text (self calls `self.f(`, `Self::f(`, "
                     "`Term::f(`, bare `f(`, `Iterator::f(self`, `<.. as ..>::f(self`, `(*self).f(`, `self.by_ref().f(`; "
                     "transcribed call expressions)",
                     "stack painting (memset of the unused stack, scan for the lowest overwritten word); process exit "
                     "status + Rust's stack-overflow message for abort detection; RLIMIT_CPU for the time limit"],
    "assumptions": ["one active call = one machine stack frame of >= 16 bytes in unoptimised (dev) builds "
                    "(validated per site: predicted abort / linear growth must be observed)",
                    "the simplified models' recursion variable is the one of the Rust function "
                    "(validated per site through class -> growth)"],
    # the harness bounds its own running time (CPU limits per child, VH_C16_DEADLINE); this is only a backstop
    "exec_timeout": 6 * 3600,
    "search_rounds": 1,
}


def _site_of(failure):
    toks = failure["request"].split()
    if len(toks) != 4 or toks[0] != "run":
        return None
    return toks[1]


def _overflow_at(failure, prefixes, fn=None, not_fn=None):
    """the child process of that very site died of a stack overflow, or its stack grows per element; `fn` (a
    function name of the generated table) must be among the data-recursive functions the model lists for the site
    (`rec=`), `not_fn` must not"""
    site = _site_of(failure)
    if site is None or not any(site == p or site.startswith(p + "_") for p in prefixes):
        return False
    impl = kv(failure["impl"])
    if impl.get("FAIL.stack_overflow") != site and impl.get("FAIL.stack_growth") != site:
        return False
    rec = kv(failure["model"]).get("rec", "").split(",")
    if fn is not None and fn not in rec:
        return False
    if not_fn is not None and not_fn in rec:
        return False
    return failure.get("field") in ("FAIL.stack_overflow", "FAIL.stack_growth", "outcome")


@predicate
def c16_iter_gspo(failure):
    """GspoMatchingIterator::next: `return self.next()` per skipped row"""
    # also what is left of `GRAPH ?g` once graph_rec is repaired: `graph` scans with the empty graph matcher
    return (_overflow_at(failure, ["iter_gspo"], fn="GspoMatchingIterator::next")
            or _overflow_at(failure, ["sparql_graph"], fn="GspoMatchingIterator::next", not_fn="exec::graph_rec"))


@predicate
def c16_iter_bcd(failure):
    """BcdMatchingIterator::next"""
    return _overflow_at(failure, ["iter_bcd"], fn="BcdMatchingIterator::next")


@predicate
def c16_iter_cd(failure):
    """CdMatchingIterator::next"""
    return _overflow_at(failure, ["iter_cd"], fn="CdMatchingIterator::next")


@predicate
def c16_iter_spo(failure):
    """SpoMatchingIterator::next"""
    return _overflow_at(failure, ["iter_spo"], fn="SpoMatchingIterator::next")


@predicate
def c16_iter_bc(failure):
    """BcMatchingIterator::next"""
    return _overflow_at(failure, ["iter_bc"], fn="BcMatchingIterator::next")


@predicate
def c16_quoted_string(failure):
    """nt.rs quoted_string recurses per escaped character"""
    return _overflow_at(failure, ["nt_literal"], fn="nt::quoted_string")


@predicate
def c16_graph_rec(failure):
    """exec.rs graph_rec recurses per graph name"""
    return _overflow_at(failure, ["sparql_graph"], fn="exec::graph_rec")


@predicate
def c16_jsonld_list(failure):
    """engine.rs mark_list_node / populate_list recurse per list cell"""
    return (_overflow_at(failure, ["jsonld_list"], fn="engine::mark_list_node")
            or _overflow_at(failure, ["jsonld_list"], fn="engine::populate_list"))
