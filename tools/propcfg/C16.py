"""C16 configuration and known-finding predicates (one per harness site group = per function of /repo)."""
from props import predicate, kv


CONFIG = {
    "design_ref": "4.16",
    "technique": "Lean 4 proof of a cost semantics (call depth of the program text, both the self-recursive and the looped "
                 "formulation of every anchored site) over a recursion table regenerated from /repo's source text; the "
                 "frame-per-call assumption is validated by child processes running the real operations on a 2 MiB stack "
                 "(abort / completion, stack high-water mark at two sizes)",
    "level_text": "Proof of the cost model, for all inputs: a site whose text calls itself on the rest of the data "
                  "(`return self.next()` in the five inmem matching iterators, quoted_string, graph_rec, populate_list, "
                  "mark_list_node) has call depth = rows skipped / escaped characters / graph names / list cells "
                  "(next_rec_depth_exact, ..._depth_linear) - which refutes the property's bound for exactly the sites the "
                  "regenerated table classifies selfRecursiveOnData; the looped formulation has depth 1 and the same results "
                  "(..._rec_eq_..._loop); sites recursing only on nesting are bounded by nesting / log2 / number of query "
                  "patterns (term_depth_bounded, nq_depth_bounded, find_subject_depth_bounded, bgp_rec_depth_bounded); "
                  "table_verdict / table_refuted / table_status lift this to the table regenerated from /repo on every run. "
                  "Differential (not proof): that one active call costs one stack frame - every site is run for real in a "
                  "child process on std::thread::Builder::stack_size(2 MiB) at 2*10^5 (quick) / up to 10^6 (thorough) elements, "
                  "dev profile (release additionally in the thorough tier), and the measured stack growth between 100 and "
                  "1000 elements must equal the model's (constant vs linear).",
    "level_note": "Assumed, validated empirically: frame-per-call in unoptimised builds (>= 16 bytes per call); optimiser "
                  "behaviour in release is observed, not modelled. The models are simplified copies (iterator = staged "
                  "matcher caches over index rows; select/convert_rdf_object abstracted as functions). The recursion table "
                  "is read off the source text by tools/extractors/c16.py (fail-closed on any self or mutual recursion in "
                  "the anchored files that is not transcribed). Pretty Turtle is quadratic in time, so its sizes are capped "
                  "at 1500 (quick) / 4000 (thorough). Recursion inside third-party crates (rio, json-syntax, spargebra) is "
                  "only observed through the child processes. Known findings: 8 (five iterators, quoted_string, graph_rec, "
                  "populate_list+mark_list_node).",
    "tables": ["recursion_sites"],
    "lean_targets": ["SophiaProofs.Props.C16", "SophiaProofs.Audit.C16"],
    "theorems": [
        "next_rec_eq_next_loop", "next_loop_depth_bounded", "next_rec_depth_exact", "next_rec_depth_linear",
        "quoted_rec_eq_loop", "quoted_loop_depth_bounded", "quoted_rec_depth_linear",
        "graph_rec_eq_graph_loop", "graph_loop_depth_bounded", "graph_rec_depth_exact", "graph_rec_depth_linear",
        "populate_rec_eq_loop", "populate_loop_depth_bounded", "populate_rec_depth_exact", "populate_rec_depth_linear",
        "mark_rec_eq_loop", "mark_loop_depth_bounded", "mark_rec_depth_linear",
        "term_depth_bounded", "nq_depth_bounded", "find_subject_depth_bounded", "bgp_rec_depth_bounded",
        "table_names_known", "table_verdict", "table_refuted", "table_status",
    ],
    "native_ok": [],
    "trivial_re": r"^site=\S+$",
    "rule": "one request per (site, size, profile): 19 sites (each of the five matching iterators with the closure matcher "
            "on the first and on the last non-constant position, N-Triples literal, RDFC-1.0 literal, GRAPH ?g, two-pattern "
            "BGP, JSON-LD list, pretty-Turtle list / subjects, N-Triples / Turtle parsing + insertion); sizes 2*10^5 (quick), "
            "10^3..10^6 (thorough, + release profile at 2*10^5 and 10^6); each request = 3 child processes (full size; probe "
            "sizes 100 and 1000); non-trivial = a `run` request (the `site` requests are answered by the model only); "
            "distinct = distinct request lines",
    "trusted_base": ["tools/extractors/c16.py: call-graph reading of Rust source text (self calls `self.f(`, `Self::f(`, "
                     "`Term::f(`, bare `f(`; transcribed call expressions)",
                     "Linux mincore(2)/madvise(2) for the stack high-water mark; process exit status for abort detection"],
    "assumptions": ["one active call = one machine stack frame of >= 16 bytes in unoptimised (dev) builds "
                    "(validated per site: predicted abort / linear growth must be observed)",
                    "the simplified models' recursion variable is the one of the Rust function "
                    "(validated per site through class -> growth)"],
    "exec_timeout": 3400,
    "search_rounds": 1,
}


def _abort_at(failure, prefixes, fn=None, not_fn=None):
    """the child process of that very site died of a stack overflow; `fn` (a function name of the
    generated table) must be among the data-recursive functions the model lists for the site (`rec=`),
    `not_fn` must not"""
    toks = failure["request"].split()
    if len(toks) != 4 or toks[0] != "run":
        return False
    site = toks[1]
    if not any(site == p or site.startswith(p + "_") for p in prefixes):
        return False
    impl = kv(failure["impl"])
    # only the stack overflow of that very site: the child died (SIGSEGV/SIGABRT), nothing else
    if impl.get("outcome") != "abort" or impl.get("FAIL.stack_overflow") != site:
        return False
    rec = kv(failure["model"]).get("rec", "").split(",")
    if fn is not None and fn not in rec:
        return False
    if not_fn is not None and not_fn in rec:
        return False
    return failure.get("field") in ("FAIL.stack_overflow", "outcome")


@predicate
def c16_iter_gspo(failure):
    """GspoMatchingIterator::next: `return self.next()` per skipped row"""
    # also what is left of `GRAPH ?g` once graph_rec is repaired: `graph` scans with the empty graph matcher
    return (_abort_at(failure, ["iter_gspo"], fn="GspoMatchingIterator::next")
            or _abort_at(failure, ["sparql_graph"], fn="GspoMatchingIterator::next", not_fn="exec::graph_rec"))


@predicate
def c16_iter_bcd(failure):
    """BcdMatchingIterator::next"""
    return _abort_at(failure, ["iter_bcd"], fn="BcdMatchingIterator::next")


@predicate
def c16_iter_cd(failure):
    """CdMatchingIterator::next"""
    return _abort_at(failure, ["iter_cd"], fn="CdMatchingIterator::next")


@predicate
def c16_iter_spo(failure):
    """SpoMatchingIterator::next"""
    return _abort_at(failure, ["iter_spo"], fn="SpoMatchingIterator::next")


@predicate
def c16_iter_bc(failure):
    """BcMatchingIterator::next"""
    return _abort_at(failure, ["iter_bc"], fn="BcMatchingIterator::next")


@predicate
def c16_quoted_string(failure):
    """nt.rs quoted_string recurses per escaped character"""
    return _abort_at(failure, ["nt_literal"], fn="nt::quoted_string")


@predicate
def c16_graph_rec(failure):
    """exec.rs graph_rec recurses per graph name"""
    return _abort_at(failure, ["sparql_graph"], fn="exec::graph_rec")


@predicate
def c16_jsonld_list(failure):
    """engine.rs mark_list_node / populate_list recurse per list cell"""
    return (_abort_at(failure, ["jsonld_list"], fn="engine::mark_list_node")
            or _abort_at(failure, ["jsonld_list"], fn="engine::populate_list"))
