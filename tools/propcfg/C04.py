"""C04 configuration and known-finding predicates.

Every predicate requires that the implementation's text equals the model's text for the failing request
(`out` fields equal): the failure is then a property of the *modelled* behaviour, and the model's own
diagnostics (ghost counters of the writer, state left over at the end, profiles of `build_labelled`) say which
mechanism produced it.  A failure on an input where implementation and model disagree is never "known".
"""
import re
from props import predicate, kv, unhex


CONFIG = {
    "design_ref": "4.4",
    "technique": "Lean 4 proof: executable model of turtle/src/serializer/_pretty.rs (build_labelled, build_subject_types, "
                 "build_lists/list_item, write_*) and of TurtleConfig::with_indentation, with kernel-checked theorems on token safety "
                 "(verified regex inclusion on regexes regenerated from /repo), quoted literals (C03's reader), prefix choice, "
                 "indentation, dataset collection, subject classification, list and labelling analyses; tie = byte-exact differential "
                 "of the model's text against TurtleSerializer/TrigSerializer (both entry points: graph/dataset and streaming source; "
                 "own and borrowed prefix map) plus a semantic round-trip oracle (real serializer -> the format's own Rio-based parser "
                 "-> own exact blank-node isomorphism test by colour refinement, statements counted with multiplicity)",
    "level_text": "Proof (all inputs) for the listed theorems about the model: the branch switches regenerated from /repo are the "
                  "repaired ones (repo_flags: a regression fails this obligation); shorthand tests for xsd:integer/decimal/double/boolean, "
                  "PN_LOCAL, PN_PREFIX, blank node labels, BCP47-shaped language tags are included in the W3C Turtle tokens (verified "
                  "decision procedure, native_decide per regex), hence bare_literal_sound for every datatype and lexical form; a quoted "
                  "literal decodes to its lexical form; get_checked_prefixed_pair returns a map entry with ns ++ suffix = iri, longest "
                  "acceptable namespace; mkDataset neither drops nor invents a quad; build_subject_types has an entry for every "
                  "(graph, subject); the writers never change which subject a table entry stands for and, for any input stream, no Root "
                  "subject of any graph is left unwritten at the end of serialize (roots_all_written_partial, incl. that the loop over the "
                  "named graphs never meets a None graph name); blank nodes deferred at the nesting cap (MAX_BNODE_NESTING, regenerated "
                  "from /repo) are each described by a write_tree of their own and nothing stays deferred (deferred_all_written, "
                  "nothing_left_deferred: unconditional, the loop bound is proved sufficient); streaming mode hands exactly the strict "
                  "RDF-star statements to the formatter, in order, and is the identity on strict datasets (stream_keeps_exactly_strict, "
                  "stream_strict_identity); every collection found by build_lists is a well-formed rdf:first/rest chain with one rdf:rest per "
                  "cell; labelling lemmas incl. every blank-node cycle has a labelled node. IndentSafe (accepted indentations are Turtle "
                  "white space) holds on the checked tree (indent_safe_holds; it was refuted before /repo d9e6461, finding C04-indent-unicode-ws). "
                  "The end-to-end statement (parse(render(D)) isomorphic to D) and 'every SubTree/Annotation subject is written, nothing twice' are NOT "
                  "proved: they are checked by the round-trip differential on generated shapes.",
    "level_note": "Trusted: W3C Turtle grammar transcription (Model/TurtleTokens.lean) and C03's STRING_LITERAL_QUOTE reader (Model/NT.lean); "
                  "extract.py regex translator and tools/extractors/c04.py (recognises shipped/fixed text of five branches incl. the nesting cap and its constant, fails closed); "
                  "native_decide for the regex obligations; Rio's Turtle/TriG parsers and formatters (third party, only observed); the "
                  "harness's isomorphism test. Streaming (non-pretty) mode: the Sophia glue (convert_triple, rio_format_*) is modelled "
                  "(Model/StreamSer.lean; compared through the driver as o.kept and by the round trip against exactly the strict statements, "
                  "also on generalized input); the text Rio's formatters write is third party: round-trip differential only. Generalized "
                  "RDF (blank-node / literal predicates, variables) is outside the property: model differential only, no oracle.",
    "tables": ["regexes", "prettyflags"],
    "lean_targets": ["SophiaProofs.Props.C04", "SophiaProofs.Audit.C04"],
    "theorems": [
        "repo_flags",
        "integer_safe", "boolean_safe", "decimal_safe", "double_safe", "pn_local_safe", "pn_prefix_safe", "bnode_label_safe",
        "langtag_wf_safe",
        "turtle_integer_decimal_disjoint", "turtle_integer_double_disjoint", "turtle_decimal_double_disjoint",
        "iri_no_backslash",
        "prefix_pick_sound", "prefix_pick_unique", "prefix_pick_longest", "prefixed_name_sound",
        "bare_literal_sound", "bare_literal_written", "quoted_literal_reads_back", "lang_literal_reads_back", "quoted_string_roundtrip",
        "indent_safe_partial", "indent_safe_holds", "indent_safe_refuted", "indent_safe_iff", "indent_turtle_ws_accepted", "indent_unindent",
        "list_item_spec", "list_sound", "list_cell_unique_pred", "list_cell_one_rest", "list_cell_one_rest_holds", "multi_rest_witness",
        "unlabelled_sound_partial", "unlabelled_in_arcs", "unlabelled_one_graph",
        "cycle_tail_witness", "cycle_has_labelled", "cycle_has_labelled_holds", "cycle_has_labelled_refuted", "cycle_has_labelled_iff",
        "dataset_no_invention", "dataset_no_loss", "dataset_no_loss_wf", "every_subject_classified", "subject_types_no_invention",
        "write_graph_roots_done", "roots_all_written_partial", "deferred_all_written", "nothing_left_deferred", "subtree_reached_written_partial",
        "stream_keeps_exactly_strict", "stream_order", "stream_strict_identity", "stream_triples_strict_identity",
    ],
    "native_ok": [
        "integer_safe", "boolean_safe", "decimal_safe", "double_safe", "pn_local_safe", "pn_prefix_safe", "bnode_label_safe",
        "langtag_wf_safe",
        "turtle_integer_decimal_disjoint", "turtle_integer_double_disjoint", "turtle_decimal_double_disjoint",
        "iri_no_backslash", "prefixed_name_sound", "bare_literal_sound",
        "cycle_tail_witness", "cycle_has_labelled_refuted", "cycle_has_labelled_iff", "multi_rest_witness",
    ],
    "trivial_re": r"^n=0 |^bad-|cfg=rejected",
    "rule": "datasets assembled from shape fragments (blank-node trees, shared / unreferenced nodes, cycles with and without tails, "
            "well-formed and 16 kinds of malformed rdf:first/rest structures, quoted triples asserted / not / elsewhere / nested three "
            "deep, nested annotations, blank nodes spanning graphs and as graph names, rdf:nil in every position) x Turtle/TriG x "
            "pretty/streaming x both API entry points x 8 Turtle-white-space indentations + 16 other ones (Unicode white space, "
            "non-white-space: must be rejected) x 8 prefix maps, in shuffled stream order; large datasets (up to ~70 subjects in one "
            "graph, 60-item collections, 14 named graphs, 250 blank nodes, 60-deep nesting, 30-cycles); blank-node chains around the "
            "nesting cap of the pretty printer (60-70 and 126-140 links: plain, with side branches, ending in a collection, below a "
            "collection item, two chains sharing the deep end, several chains in one tree / under an annotation; default and named "
            "graph); long literals assembled from "
            "quotes / escapes / syntax delimiters, 13 language tags; all 1- and 2-triple datasets over {_:a,_:b,x:i,rdf:nil,1} x "
            "{x:p,rdf:first,rdf:rest} and sampled 3-5-triple ones; every datatype x lexical form (12 x 54) as single literals; IRIs built "
            "from namespace + local-name atoms x random prefix maps with distinct prefixes; generalized RDF through the pretty TriG writer "
            "(model differential only). Distinct = distinct request lines; non-trivial = at least one quad serialised by an accepted "
            "configuration.",
    "trusted_base": ["W3C Turtle 1.1 grammar terminals, transcribed in lean/SophiaModel/Model/TurtleTokens.lean",
                     "rio_turtle 0.8.6 parsers/formatters (observed through the round trip only)",
                     "harness/props/c04/src/iso.rs (exact blank-node isomorphism: colour refinement + individualisation)"],
    "assumptions": ["str::cmp = code point order (DESIGN 3.1)", "language tags are compared case-insensitively (RDF 1.1)",
                    "prefix maps have pairwise distinct prefixes; language tags are BCP47-shaped (rio's parser validates them: "
                    "LanguageTag::new also accepts 'a' or 'A0', which do not read back - documented as 'more permissive than BCP47')"],
    "exec_timeout": 3000,
}


def _agree(f):
    I, M = kv(f["impl"]), kv(f["model"])
    if "out" in I or "out" in M:
        return I.get("out") == M.get("out") and I.get("out") is not None
    return False


def _n(M, k):
    try:
        return int(M.get(k, "0"))
    except ValueError:
        return 0


def _field(f, *names):
    fld = f.get("field", "")
    return any(fld == "FAIL." + n or fld.startswith("FAIL." + n + "_") for n in names)


@predicate
def c04_numeric_dot(f):
    """a literal written bare whose text is not the Turtle token of its datatype (model ghost counter bare_bad > 0)"""
    M = kv(f["model"])
    return _agree(f) and _n(M, "bare_bad") > 0 and _field(f, "parse_error", "not_isomorphic")


@predicate
def c04_nil_position(f):
    """`()` written as predicate / graph name / datatype / inside a quoted triple (model ghost counter nil_bad > 0)"""
    M = kv(f["model"])
    if not (_agree(f) and _n(M, "nil_bad") > 0 and _field(f, "parse_error")):
        return False
    msg = unhex(f.get("detail", ""))
    return "'('" in msg or _n(M, "bare_bad") > 0


@predicate
def c04_cycle_tail(f):
    """build_labelled leaves a blank-node cycle without any labelled node (computed from the model's profiles);
    its nodes, and what hangs under them, are never written"""
    M = kv(f["model"])
    if not (_agree(f) and M.get("unlabelled_cycle") == "1" and _field(f, "not_isomorphic")):
        return False
    m = re.match(r"m(\d+),x(\d+)", f.get("detail", ""))
    # pure loss: statements are missing, none is invented (unless another known mechanism is present too)
    return bool(m) and int(m.group(1)) > 0 and (int(m.group(2)) == 0 or _n(M, "bare_bad") > 0)


@predicate
def c04_multi_rest(f):
    """a node with several rdf:rest arcs is swallowed by a collection (model: such a cell was removed from subject_types)"""
    M = kv(f["model"])
    if not (_agree(f) and _n(M, "multi_rest") > 0 and _field(f, "not_isomorphic")):
        return False
    m = re.match(r"m(\d+),x(\d+)", f.get("detail", ""))
    return bool(m) and int(m.group(1)) > 0 and (int(m.group(2)) == 0 or _n(M, "bare_bad") > 0)


@predicate
def c04_indent_ws(f):
    """`with_indentation` accepted an indentation containing Unicode white space that is not Turtle white space
    (WS ::= #x20 | #x9 | #xD | #xA): the pretty printer puts it between tokens.  Narrow: the model's ghost flag says
    the indentation has such a character (a function of the request alone), and the harness observed that the very
    same request, through the very same implementation, round-trips once exactly those characters of the indentation
    are replaced by spaces (`x.reindent=ok`) - so the indentation is the only cause.  Does not require the model's
    text to agree: the evidence is on the implementation's side, and an unrelated model/impl difference must not turn
    this finding into the "failing input" of something else."""
    I, M = kv(f["impl"]), kv(f["model"])
    return (M.get("indent_bad") == "1" and I.get("cfg") == "ok" and I.get("x.reindent") == "ok"
            and _field(f, "parse_error", "not_isomorphic"))


@predicate
def c04_lists_diverge(f):
    """build_lists' walk from a seed follows a cycle of rdf:rest predecessors for ever (model: fuel = |preds|+1 exhausted)"""
    I, M = kv(f["impl"]), kv(f["model"])
    return M.get("diverges") == "1" and "out" not in I and _field(f, "no_termination")


def _witness_requests(lines):
    """driver reply to `witness`: one `lit` request per refuted numeric inclusion (the word as lexical form of the
    datatype concerned) and their neighbours"""
    dts = {"integer": "integer", "decimal": "decimal", "double": "double", "boolean": "boolean"}
    reqs = []
    for l in lines:
        for k, v in kv(l).items():
            if v and v != "none" and k in dts:
                dt = ("http://www.w3.org/2001/XMLSchema#" + dts[k]).encode().hex()
                w = unhex(v)
                for cand in {w, w.replace("\x00", "x"), "1" + w.replace("\x00", "x")}:
                    if "\n" in cand:
                        continue
                    reqs.append("lit l %s %s" % (cand.encode().hex() or "_", dt))
    return reqs


CONFIG["model_search"] = {"ask": ["witness"], "to_requests": _witness_requests}
