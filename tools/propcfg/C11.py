"""C11 configuration, model search, shrinking (history -> one self-contained `hist` line)."""
import os

# The three witnesses of the two repaired defects (union_enum_atoms_defect, as_dataset_mut_remove_defect,
# as_dataset_mut_remove_refuted) are hypotheses-false for the current source: they stay in Props/C11.lean and
# Audit/C11.lean but are NOT counted as obligations.
THEOREMS = ["store_types_lawful", "union_view", "partial_union_view", "dataset_graph_view", "dataset_graph_absent",
            "view_query", "view_contains", "graph_as_dataset_view", "union_enum_spo", "union_enum_atoms",
            "union_enum_verdict", "view_insert", "view_insert_flag", "view_remove", "view_remove_flag",
            "as_dataset_mut_insert", "as_dataset_mut_insert_flag", "as_dataset_mut_remove",
            "as_dataset_mut_remove_verdict", "run_coherent", "forwarding_flags_now", "as_dataset_mut_remove_now",
            "union_enum_now", "union_enum_coherent_now", "run_coherent_now", "view_insert_now", "view_insert_flag_now",
            "view_remove_now", "view_remove_flag_now", "as_dataset_mut_insert_now", "as_dataset_mut_insert_flag_now",
            "view_remove_all", "view_remove_all_count", "view_remove_matching", "view_remove_matching_count",
            "view_retain_matching", "view_insert_all", "view_insert_all_count", "as_dataset_mut_remove_all",
            "as_dataset_mut_remove_all_count", "as_dataset_mut_insert_all", "as_dataset_mut_insert_all_named",
            "step_views", "run_views_coherent", "run_views_coherent_store_types", "vec_gspo_lawful_read",
            "view_query_store", "as_dataset_query_store", "step_views_ok", "run_views_ok", "run_views_coherent_set", "run_views_ok_necessary", "ref_forwarding_identity", "default_bulk_transcribed", "vec_types_lawful_bag", "view_mut_bag"]

CONFIG = {
    "design_ref": "4.11",
    "technique": "Lean 4 proof: the adapters of api/src/{graph,dataset}/adapter.rs transcribed as forwarding to the methods of ANY wrapped dataset/graph implementation, and the default bulk methods of MutableGraph/MutableDataset (insert_all, remove_all, remove_matching, retain_matching) as loops over the VIEW's own methods; theorems for every lawful implementation, instantiated by C01's refinement for the indexed stores (every Good = reachable state) and directly for std sets/vectors; which underlying method each mutating adapter method calls is regenerated from the source (fail-closed shape check of every adapter body, incl. that no adapter overrides a bulk method); differential over interleaved direct/view histories on all 17 shipped mutable store types, through borrowed, mutably borrowed and owning views",
    "level_text": "Proof (all states of every lawful store implementation, all graph names and matchers, unbounded histories): union_graph() shows exactly the image of the quads as a MULTISET (a triple in two graphs shows twice); partial_union_graph(m) and graph(g)/graph_mut(g) show exactly the triples of the quads whose graph name m matches / equals g (nothing for an absent name), also in triples(); pattern queries and contains through each view equal filtering / membership of the view; as_dataset() shows exactly the graph's triples in the default graph, answers pattern queries as filters, contains as membership (never for a named graph), has no graph names; insert/remove through graph_mut(g) have the state, result and flag of the dataset's insert/remove(s,p,o,g), leave every quad with another graph name and every other graph view untouched; the DEFAULT bulk methods called on graph_mut(g) (view_remove_all, view_remove_matching, view_retain_matching, view_insert_all, with counts for set stores) remove / keep / add exactly the quads of graph g they select and leave every other graph untouched (retain_matching through a view does NOT filter the whole store), on as_dataset_mut() (as_dataset_mut_remove_all, _insert_all, _insert_all_named) likewise with quads of named graphs ignored resp. refused; insert through as_dataset_mut() refuses named graphs without change and is the graph's insert otherwise; pattern queries through every view are stated directly as filters of the UNDERLYING store (view_query_store, as_dataset_query_store); on vectors (Vec<Spog>, Vec<[T;3]>, Vec<Gspo>: lawful BAGS, vec_types_lawful_bag) a mutation through graph_mut(g) has the state and result of the direct one, every other quad - in particular every quad of another graph - keeps ALL its copies, an insertion loses no copy and leaves one, a removal of a present quad loses at least one (view_mut_bag: multiset strength, both shipped remove behaviours); histories mixing direct and view mutations refine C01's plain-set specification: run_coherent (indexed stores, single view mutations, index-full errors included) and run_views_coherent (EVERY lawful set implementation - indexed stores and std sets -, single and bulk mutations through graph_mut(g)); its only hypothesis (no store error) is discharged for std sets (run_views_ok, run_views_coherent_set: unconditional over all histories) and shown necessary for the indexed stores by a kernel-checked witness (run_views_ok_necessary: full term index). What the model treats as given is now generated and decided on every run: ref_forwarding_identity (each of the 58 methods of the `&T` / `&mut T` forwarding impls of Dataset/Graph/MutableDataset/MutableGraph calls the same method of T with its own parameters: Gen/ViewGlue.lean) and default_bulk_transcribed (the twelve default bodies of the Mutable* traits that Adapter.Defaults transcribes are unchanged). removal through as_dataset_mut() removes exactly the triple with the right flag (as_dataset_mut_remove_now) and every enumeration of union_graph() is that of its own triples (union_enum_now). The theorems are stated over flags REGENERATED from adapter.rs on every run (which underlying method DatasetGraph::insert/remove and GraphAsDataset::insert/remove call; whether UnionGraph forwards the atom enumerations); forwarding_flags_now decides that the current source has the good values and the *_now / bulk / run_views theorems are unconditional for it, so a regression of a flag breaks forwarding_flags_now and with it every obligation built on it, and is located by the differential. The tie of the model to the Rust code is differential (interleaved histories on every store type, 3-way: implementation / adapter model / plain-list specification, plus Rust-side oracles recomputed from the underlying store's quads() before each operation and from the SAME operation applied directly to a second store of the same type rebuilt from the same quads) and the extractor's fail-closed check that every adapter body has the transcribed shape.",
    "level_note": "Trusted: tools/extractors/c11.py (text-shape check of each adapter body; comments, whitespace and trailing commas are normalised); `&T`/`&mut T` forwarding impls are the identity in the model (now an obligation on a generated table, ref_forwarding_identity, and observed by the differential: every read is also made through graph_mut(g) / as_dataset_mut()); std collections modelled as lists (C02 laws) - for them the Lawful laws are near-definitional, the content is in the indexed stores (C01) and in the composition through the views; Vec<Gspo<T>> (remove drops only the first match) is not a Lawful collection: the read theorems (LawfulRead) and the bag theorems (view_mut_bag) apply to it, the SameSet ones do not; bulk mutations through views of vectors are compared by the differential only; C01's model of the indexed stores (tied by C01's own differential). For vectors the oracle demands only what the property states (other quads keep their copies, same result as the direct operation on a twin store); for views a triple may show fewer times than there are quads behind it without being reported as a violation (model/implementation disagreement only). Enumerations through PartialUnionGraph/DatasetGraph/GraphAsDataset other than graph_names are images of the view by definition and only compared by the differential; quoted_triples through borrowed graph views is not exercised on the Rust side (HRTB limitation) except for UnionGraph and GraphAsDataset. remove_matching/retain_matching can not be called on a GraphAsDataset (its MutationError is not From<Error>): not covered. Remaining differential only: the Lean transcription of each adapter body and of the default bulk loops (tied by the text-shape checks and the 3-way differential), the std collections' own insert/remove (vecImpl, vecFirstImpl, setImpl), enumerations through the wrapped store. Nested views (a view of a view), read errors of the wrapped store and index-full errors inside a bulk operation beyond view_insert_all's prefix statement are not modelled. The three kernel-checked witnesses of the two repaired defects (12da6cd, f7b1ae1) are hypotheses-false for the current source and not counted as obligations; their minimal histories stay in corpus/C11/known.req and no known-finding predicate remains. No native_decide.",
    "tables": ["index_tables", "adapter_flags", "view_glue"],
    "lean_targets": ["SophiaProofs.Props.C11", "SophiaProofs.Audit.C11"],
    "theorems": THEOREMS,
    "native_ok": [],
    "trivial_re": r"^(ok=1|n=0 quads=_( |$)|r=0$|terms=_$|bad-op)",
    "rule": "interleaved histories (10..40 operations quick, ..90 thorough; 24 per store type quick, 150 thorough) on each of LightDataset, FastDataset, small::{Light,Fast}Dataset, HashSet/BTreeSet/Vec of Spog quads, HashSet/BTreeSet/Vec of Gspo quads and LightGraph, FastGraph, small::{Light,Fast}Graph, HashSet/BTreeSet/Vec of triples: direct insert/remove/insert_all/remove_matching/queries; single mutations AND the default bulk methods (insert_all, remove_all, remove_matching, retain_matching) through graph_mut(g) resp. (insert_all, remove_all) as_dataset_mut(), 2 in 3 aimed at a graph / triple inserted earlier; all/pattern query/contains/enumerations through union_graph(), into_union_graph(), partial_union_graph(m), graph(g), graph_mut(g), as_dataset(), as_dataset_mut(), into_dataset(); graph names: default, two IRIs, a blank node, in generalized histories also a literal, a quoted triple and a variable, and three never inserted directly (an IRI, a blank node, a literal); triples re-used across graphs on purpose (3 in 5), repeated elements in bulk arguments, case-variant language tags; selectors from the whole GraphNameMatcher algebra over the names in use (matching 0 / 1 / several graphs); each history ends by observing the store and every view of it (also through the mutable and owning adapters); a case is trivial when its reply is an empty result / false flag",
    "trusted_base": ["tools/extractors/c11.py: fail-closed text-shape check of every adapter method body (cross-checked by the differential)",
                     "C01's store model and its tie to sophia_inmem; std HashSet/BTreeSet/Vec modelled as lists"],
    "assumptions": ["SimpleTerm's Eq/Hash/Ord (CmpTerm) agree with Term::eq (C02)"],
    "exec_timeout": 900,
}


# no known-finding predicates: both defects this check found are fixed in /repo (findings/C11.json `fixed`)


# ------------------------------------------------------------------ model search

CONFIG["model_search"] = {"ask": ["search"], "to_requests": lambda lines: [l for l in lines if l.startswith("hist ")]}


# ------------------------------------------------------------------ shrinking: make the failing case self-contained

def _histories_of(request, impl_line, model_line=None):
    """candidate histories: for every line of the last run with this request and these replies, the request
    lines from the preceding `new` up to it (a frequent request such as `v union all` occurs in many
    histories: the caller keeps the first candidate that reproduces the failure)"""
    here = os.path.dirname(os.path.dirname(os.path.abspath(__file__)))
    rundir = os.path.join(os.path.dirname(here), ".cache", "run", "C11")
    out = []
    for tag in ("main", "search", "witness"):
        try:
            reqs = [l.rstrip("\n") for l in open(os.path.join(rundir, tag + ".req"))]
            impl = [l.rstrip("\n") for l in open(os.path.join(rundir, tag + ".impl"))]
            model = [l.rstrip("\n") for l in open(os.path.join(rundir, tag + ".model"))]
        except OSError:
            continue
        for i, r in enumerate(reqs):
            if r != request or i >= len(impl) or impl[i] != impl_line:
                continue
            if model_line is not None and i < len(model) and model[i] != model_line:
                continue
            j = i
            while j >= 0 and not reqs[j].startswith("new "):
                j -= 1
            if j >= 0:
                out.append(reqs[j:i + 1])
            if len(out) >= 40:
                return out
    return out


def _shrink(failure, run):
    """turn a failing line of a stateful history into ONE self-contained `hist` request and drop the
    operations that are not needed for the same field to fail"""
    if failure["request"].startswith("hist "):
        return failure

    def attempt(lines):
        req = "hist " + " ; ".join(lines)
        o, d, _ = run([req])
        for f in o + d:
            if f.get("field") == failure.get("field") and f.get("kind") == failure.get("kind"):
                return f
        return None

    hist, best = None, None
    for cand in _histories_of(failure["request"], failure["impl"], failure.get("model")):
        best = attempt(cand)
        if best is not None:
            hist = cand
            break
    if best is None:
        return failure
    body = hist[1:-1]
    k = 0
    while k < len(body) and len(body) <= 100:
        trial = body[:k] + body[k + 1:]
        f = attempt([hist[0]] + trial + [hist[-1]])
        if f is not None:
            body, best = trial, f
        else:
            k += 1
    return best


CONFIG["shrink"] = _shrink
