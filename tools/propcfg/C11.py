"""C11 configuration, model search, shrinking (history -> one self-contained `hist` line)."""
import os

THEOREMS = ["store_types_lawful", "union_view", "partial_union_view", "dataset_graph_view", "dataset_graph_absent",
            "view_query", "view_contains", "graph_as_dataset_view", "union_enum_spo", "union_enum_atoms",
            "union_enum_atoms_defect", "union_enum_verdict", "view_insert", "view_insert_flag", "view_remove",
            "view_remove_flag", "as_dataset_mut_insert", "as_dataset_mut_insert_flag", "as_dataset_mut_remove",
            "as_dataset_mut_remove_defect", "as_dataset_mut_remove_refuted", "as_dataset_mut_remove_verdict",
            "run_coherent", "forwarding_flags_now", "as_dataset_mut_remove_now", "union_enum_now",
            "union_enum_coherent_now", "run_coherent_now"]

CONFIG = {
    "design_ref": "4.11",
    "technique": "Lean 4 proof: the adapters of api/src/{graph,dataset}/adapter.rs transcribed as forwarding to the methods of ANY wrapped dataset/graph implementation, theorems for every lawful implementation, instantiated by C01's refinement for the indexed stores (every Good = reachable state) and directly for std sets/vectors; which underlying method each mutating adapter method calls is regenerated from the source (fail-closed shape check of every adapter body); differential over interleaved direct/view histories on all 14 shipped store types",
    "level_text": "Proof (all states of every lawful store implementation, all graph names and matchers, unbounded histories): union_graph() shows exactly the image of the quads as a MULTISET (a triple in two graphs shows twice); partial_union_graph(m) and graph(g)/graph_mut(g) show exactly the triples of the quads whose graph name m matches / equals g (nothing for an absent name), also in triples(); pattern queries and contains through each view equal filtering / membership of the view; as_dataset() shows exactly the graph's triples in the default graph, answers pattern queries as filters, contains as membership (never for a named graph), has no graph names; insert/remove through graph_mut(g) have the state, result and flag of the dataset's insert/remove(s,p,o,g), leave every quad with another graph name and every other graph view untouched; insert through as_dataset_mut() refuses named graphs without change and is the graph's insert otherwise; histories mixing direct and view mutations refine C01's plain-set specification (run_coherent). removal through as_dataset_mut() removes exactly the triple with the right flag (as_dataset_mut_remove_now) and every enumeration of union_graph() is that of its own triples (union_enum_now). The theorems are stated over flags REGENERATED from adapter.rs on every run (which underlying method DatasetGraph::insert/remove and GraphAsDataset::insert/remove call; whether UnionGraph forwards the atom enumerations); forwarding_flags_now decides that the current source has the good values and the *_now theorems are unconditional for it; the conditional forms, kernel-checked witnesses of the two repaired defects (under the old flag values) and verdict theorems are kept, so a regression breaks a proof and is located by the differential. The tie of the model to the Rust code is differential (interleaved histories on every store type, 3-way: implementation / adapter model / plain-list specification, plus a Rust-side oracle recomputed from the underlying store's quads() before each operation) and the extractor's fail-closed check that every adapter body has the transcribed shape.",
    "level_note": "Trusted: tools/extractors/c11.py (text-shape check of each adapter body); `&T`/`&mut T` forwarding impls (shape-checked for insert/remove, otherwise observed by the differential); std collections modelled as lists (C02 laws); C01's model of the indexed stores (tied by C01's own differential). Enumerations through PartialUnionGraph/DatasetGraph/GraphAsDataset other than graph_names are images of the view by definition and only compared by the differential; quoted_triples through borrowed views is not exercised on the Rust side (HRTB limitation) except for UnionGraph. No native_decide. Two defects found by this check are fixed in /repo (12da6cd, f7b1ae1); their minimal histories stay in corpus/C11/known.req and no known-finding predicate remains.",
    "tables": ["index_tables", "adapter_flags"],
    "lean_targets": ["SophiaProofs.Props.C11", "SophiaProofs.Audit.C11"],
    "theorems": THEOREMS,
    "native_ok": [],
    "trivial_re": r"^(ok=1|n=0 quads=_( |$)|r=0$|terms=_$|bad-op)",
    "rule": "interleaved histories (10..40 operations quick, ..90 thorough; 8 per store type quick, 50 thorough) on each of LightDataset, FastDataset, small::{Light,Fast}Dataset, HashSet/BTreeSet/Vec of quads and LightGraph, FastGraph, small::{Light,Fast}Graph, HashSet/BTreeSet/Vec of triples: direct insert/remove/remove_matching/queries, mutations through graph_mut(g) resp. as_dataset_mut(), and all/pattern query/contains/enumerations through union_graph(), partial_union_graph(m), graph(g), as_dataset(); graph names: default, two IRIs, a blank node, a literal (generalized histories), and one never inserted directly; triples re-used across graphs on purpose (3 in 5), case-variant language tags; selectors from the whole GraphNameMatcher algebra over the names in use (matching 0 / 1 / several graphs); each history ends by observing the store and every view of it; a case is trivial when its reply is an empty result / false flag",
    "trusted_base": ["tools/extractors/c11.py: fail-closed text-shape check of every adapter method body (cross-checked by the differential)",
                     "C01's store model and its tie to sophia_inmem; std HashSet/BTreeSet/Vec modelled as lists"],
    "assumptions": ["SimpleTerm's Eq/Hash/Ord (CmpTerm) agree with Term::eq (C02)"],
    "exec_timeout": 900,
}


# no known-finding predicates: both defects this check found are fixed in /repo (findings/C11.json `fixed`)


# ------------------------------------------------------------------ model search

CONFIG["model_search"] = {"ask": ["search"], "to_requests": lambda lines: [l for l in lines if l.startswith("hist ")]}


# ------------------------------------------------------------------ shrinking: make the failing case self-contained

def _history_of(request, impl_line):
    """the request lines from the preceding `new` up to the failing line, from the last run's files"""
    here = os.path.dirname(os.path.dirname(os.path.abspath(__file__)))
    rundir = os.path.join(os.path.dirname(here), ".cache", "run", "C11")
    for tag in ("main", "search", "witness"):
        try:
            reqs = [l.rstrip("\n") for l in open(os.path.join(rundir, tag + ".req"))]
            impl = [l.rstrip("\n") for l in open(os.path.join(rundir, tag + ".impl"))]
        except OSError:
            continue
        for i, r in enumerate(reqs):
            if r == request and i < len(impl) and impl[i] == impl_line:
                j = i
                while j >= 0 and not reqs[j].startswith("new "):
                    j -= 1
                if j >= 0:
                    return reqs[j:i + 1]
    return None


def _shrink(failure, run):
    """turn a failing line of a stateful history into ONE self-contained `hist` request and drop the
    operations that are not needed for the same field to fail"""
    if failure["request"].startswith("hist "):
        return failure
    hist = _history_of(failure["request"], failure["impl"])
    if not hist:
        return failure

    def attempt(lines):
        req = "hist " + " ; ".join(lines)
        o, d, _ = run([req])
        for f in o + d:
            if f.get("field") == failure.get("field") and f.get("kind") == failure.get("kind"):
                return f
        return None

    best = attempt(hist)
    if best is None:
        return failure
    body = hist[1:-1]
    k = 0
    while k < len(body) and len(body) <= 60:
        trial = body[:k] + body[k + 1:]
        f = attempt([hist[0]] + trial + [hist[-1]])
        if f is not None:
            body, best = trial, f
        else:
            k += 1
    return best


CONFIG["shrink"] = _shrink
