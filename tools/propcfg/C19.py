"""C19 configuration and known-finding predicates (one per escape mechanism)."""
from props import predicate, kv, unhex

PH = "{B}"

CONFIG = {
    "design_ref": "4.19",
    "technique": "Lean 4 proof over an executable model of LocalLoader::{check,new,ctype,get} + abstract POSIX file system "
                 "(retry list / ctype table / presence of the confinement guard regenerated from resource/src/loader/_local.rs; "
                 "every file-system call site of the crate regenerated from resource/src) + model of get_resource / "
                 "Resource::get_neighbour / the JSON-LD context loader of get_graph; differential vs the real LocalLoader::get, "
                 "every link-following entry point of Resource (Turtle, N-Triples documents) and remote JSON-LD contexts on a "
                 "real sandbox directory tree",
    "level_text": "Proof (all configurations, file systems, IRIs, recursion depths; lexical path semantics, symlinks excluded): "
                  "the full confinement statement holds for the code now in /repo (confined_current / confined_files: bytes "
                  "returned are the content of a file below the directory of a pair whose namespace prefixes the IRI), closed "
                  "over the regenerated guard flag (guard_present fails if the guard disappears from /repo), in every reachable "
                  "loader state (Default/new/add: reachable_cfgOk discharges the CfgOk hypothesis, cfgOk_necessary shows by "
                  "witness that it is needed; confined_reachable); the same for IRIs followed from loaded data: link_confined "
                  "(get_neighbour) and resource_reads_confined (model of Resource over an arbitrary graph: get_resource, "
                  "get_any_resource, get_all_resources, pred_*, get_resource_items with the lazy-iterator effects; every read is "
                  "confined w.r.t. an IRI occurring in the graph) and remote JSON-LD contexts (ctx_confined); the 'no symbolic "
                  "links' assumption is exact (getCurL_no_links: the model with links restricted to link-free file systems IS "
                  "the model, any path, fuel > PATH_MAX) and necessary (symlink_assumption_necessary, replayed on the real "
                  "code by the y requests); "
                  "reads_only_in_get pins the regenerated list of file-system call sites of the crate to the one read in get; "
                  "the statement is REFUTED for the unguarded text by kernel-checked witnesses (ns+'../secret.ttl', "
                  "ns+'/abs/path'); confinement under the decidable side condition 'remainder has no .. component and does not "
                  "start with /' incl. the extension retry loop for any guard setting; percent-escapes are literal names; "
                  "depth-1 recursion = unbounded recursion. "
                  "Differential (not proof): model = real LocalLoader::get on every generated (configuration, IRI) over a sandbox; "
                  "the driver parses the N-Triples link documents and runs the model's Resource entry points (get_term, "
                  "get_resource incl. the multiple/no value errors, get_any_resource, get_all_resources, get_resource_items, "
                  "pred_resource) against the real ones; loaders are built with new or Default+add on both sides; the model "
                  "with symbolic links predicts the 11 symlink probes (what is read, from where); links in Turtle documents and remote "
                  "JSON-LD contexts (string/array/@import/scoped) are checked against the oracle and against get on the same IRI.",
    "level_note": "Trusted: the abstract file system (open walks components, ENOENT/ENOTDIR/EISDIR/ENAMETOOLONG, no symlinks, no "
                  "permissions) and PathBuf::join unix semantics as transcribed in Model/Loader.lean, both exercised by the "
                  "differential on ext4; tools/extractors/c19.py. Invalid IRIs (backslash, space) hit debug assertions of "
                  "Iri::new_unchecked inside get on its error paths: only their successful reads are compared. Which IRIs the "
                  "JSON-LD processor requests for a context reference is observed (recording wrapper), not modelled; so are the "
                  "Turtle/JSON-LD/RDF-XML parsers (what graph a document yields). Symbolic links are outside the property: the "
                  "y requests compare the model with links to the OS and report escapes through links without judging them, "
                  "except links that stay inside the directory. PathBuf::join, Path::components and the kernel's path walk are "
                  "hand transcriptions tied by the differential only. "
                  "Fixed finding (3c4bf6e): two escape mechanisms ('..' component, absolute remainder).",
    "tables": ["loader_exts", "loader_sites"],
    "lean_targets": ["SophiaProofs.Props.C19", "SophiaProofs.Audit.C19"],
    "theorems": ["read_reads_resolved", "new_ok_cfg", "getG_opened", "confined_partial", "retry_confined",
                 "confined_repaired", "confined_of_guard", "guard_present", "confined_current", "current_status",
                 "unguarded_refuted", "confined_files", "check_ok", "reachable_cfgOk", "cfgOk_necessary",
                 "confined_reachable", "link_confined", "ctx_confined", "neighbour_confined", "performed_subset",
                 "resource_reads_confined", "getStepR_osRead", "walkL_no_links", "osReadL_no_links",
                 "getCurL_no_links", "symlink_assumption_necessary", "reads_only_in_get",
                 "escape_dotdot", "escape_absolute", "escape_retry",
                 "confined_refuted", "repaired_rejects_witnesses", "pct_not_decoded", "fuel_irrelevant"],
    "native_ok": [],
    # trivial = nothing was read: configuration rejected, no namespace matched, nothing found, debug-assert panic
    "trivial_re": r"^new=(slash|abs|dir)|res=unsupported|res=notfound|res=novalue|dbgpanic=1|doc=(unsupported|notfound|io|parse|cantguess)|link=none|sym=(unsupported|notfound)",
    "rule": "configurations = 0-5 (namespace, directory) pairs drawn from a pool with nested/overlapping namespaces, nested, "
            "non-normalised and trailing-slash directories, invalid pairs; IRIs = fixed corpus of the quantifier's shapes, "
            "'directed' shapes (for every sandbox file, served or secret, and every configured pair: the lexical relative path "
            "from the directory to the file and 19 rewritings: no extension, fragment, ./, //, %2e%2e, %2E%2E, %2f, backslash, "
            "absolute via the sandbox path, via absent/file components, 40x../ to the root, trailing / and /., query), random "
            "namespace+segments over an alphabet of existing names, dot segments, escapes, long names, with fragments/extensions "
            "added or stripped; links = Turtle documents with 64 such IRIs/relative references loaded through the loader and "
            "followed with Resource::get_resource. Non-trivial = something was read or an I/O error other than NotFound; "
            "distinct = distinct request lines",
    "trusted_base": ["abstract POSIX file system + PathBuf::join semantics in lean/SophiaModel/Model/Loader.lean (symlinks, "
                     "permissions, non-UTF-8 names excluded)",
                     "tools/extractors/c19.py (retry list, ctype table, structural guard recognition, file-system call sites "
                     "of resource/src; fail-closed)",
                     "harness oracle: bytes->file by unique content (marker triple / marker JSON-LD context term), "
                     "std::fs::canonicalize of the configured directories; recording Loader wrapper for the IRIs requested by "
                     "the JSON-LD processor"],
    "assumptions": ["no symbolic links under or above the configured directories (lexical resolution = OS resolution)",
                    "unix path semantics (Component::Prefix never occurs)",
                    "sophia_resource built with features jsonld+xml (checked per case through the content type)"],
}


def _parts(failure):
    """-> (cfg [(ns, dir)], iri) of the IRI that was actually fetched, or None"""
    toks = failure["request"].split()
    if not toks or toks[0] not in ("g", "l"):
        return None
    cfg = []
    if toks[1] != "-":
        for e in toks[1].split(","):
            a, b = e.split(":")
            cfg.append((unhex(a), unhex(b)))
    I = kv(failure["impl"])
    if toks[0] == "g":
        iri = unhex(toks[3]).replace(PH, "/B")      # the sandbox base is an absolute, normalised path
    else:
        if "link" not in I or I["link"] in ("none", "notiri"):
            return None
        iri = unhex(I["link"])      # the IRI found in the loaded data (sandbox path already substituted)
    return cfg, iri, I


def _remainder(cfg, iri):
    iri = iri.split("#")[0]
    for ns, _ in cfg:
        if iri.startswith(ns):
            return iri[len(ns):]
    return None


def _is_escape(failure, I):
    return (failure.get("field") in ("escaped", "FAIL.escape") and I.get("escaped") == "1"
            and I.get("read") not in (None, "none"))


@predicate
def c19_escape_dotdot(failure):
    """bytes from outside the matched directory; the remainder after the first matching namespace is relative and has a
    '..' component"""
    x = _parts(failure)
    if not x:
        return False
    cfg, iri, I = x
    rem = _remainder(cfg, iri)
    return (_is_escape(failure, I) and rem is not None and not rem.startswith("/")
            and ".." in rem.split("/"))


@predicate
def c19_escape_absolute(failure):
    """bytes from outside the matched directory; the remainder after the first matching namespace starts with '/'
    (PathBuf::join replaces the directory)"""
    x = _parts(failure)
    if not x:
        return False
    cfg, iri, I = x
    rem = _remainder(cfg, iri)
    return _is_escape(failure, I) and rem is not None and rem.startswith("/")
