"""C17 configuration and known-finding predicates (relativize is the inverse of resolve)."""
import re
from props import predicate, kv


CONFIG = {
    "design_ref": "4.17",
    "technique": "Lean 4 proof about an executable octet-level model of iri/src/relativize.rs (same branches, same index "
                 "arithmetic, panics explicit) against the RFC 3986 5.2 resolution model; model tied to the code by a "
                 "differential on Relativizer fields (Debug output) and relativize outputs (all instantiations / entry points)",
    "level_text": "Proof (all octet strings base/IRI, all parent limits; kernel-checked, axioms propext/Classical.choice/"
                  "Quot.sound only, no native_decide) about the MODEL of relativize.rs: (1) the full statements RelInverse, "
                  "RelIsRef, RelParents, RelBoundaries (also restricted to UTF-8-shaped inputs: RelBoundariesUtf8) are REFUTED by "
                  "ten kernel-checked witnesses on IRIs that sophia's own validator accepts (findings); (2) rel_partial_all / "
                  "rel_inverse_partial / rel_is_ref_partial / rel_parents_partial: inside the decidable region `cleanCase` "
                  "(query or fragment tails after the complete common path; path branches and directory extension for "
                  "dot-free base paths, rooted or rootless, cut strictly inside the path, under CleanTail; absolute-path "
                  "tails for empty base paths) RFC 3986 5.2 resolution of the result gives back the IRI, the result has "
                  "neither scheme nor authority, and its leading '..' segments are exactly the inserted ones; (3) for every "
                  "input: at most `parents` '../' are inserted (rel_parents_inserted), None is answered only when the common "
                  "prefix stops before `pseudoroot` (rel_none_only_outside); (4) for every input that has the SHAPE of UTF-8 "
                  "(utf8Shaped: a superset of Rust's str, evaluated by the driver on every case): relativize never panics "
                  "unless the base is scheme://authority with the authority ending in a multi-byte character and an empty "
                  "path (rel_boundaries_utf8_partial - the divergence point may be inside a 2-, 3- or 4-octet character; the "
                  "excluded shape is exactly the witness of rel_boundaries_utf8_refuted), an IRI with the scheme, authority "
                  "and path of the base is ALWAYS answered with a reference, without exception (rel_same_doc_some = the "
                  "full clause RelSameDoc), and so is every IRI sharing the base up to pseudoroot (rel_some_inside); the UTF-8-shape "
                  "hypothesis is DISCHARGED for every string (utf8_shape_of_every_string: utf8Shaped 0 (ofUtf8 x) for all "
                  "x : String, from core's description of String.utf8EncodeChar) and shown necessary "
                  "(rel_boundaries_needs_utf8_shape); (5) the WHOLE property (`Correct`: a reference is returned, RFC 3986 "
                  "resolution gives back the IRI, no scheme/authority, at most `parents` leading '..') under hypotheses on "
                  "base, limit and IRI ONLY - rel_input_partial over inputCase = S (same document: same query, or base "
                  "without query, or IRI query not extending the base's) | P (dot-free base path with pseudoroot inside it - "
                  "every rooted path, rel_pseudoroot_inside_rooted -, common prefix ending inside the path at/after "
                  "pseudoroot, plain remaining IRI path: cleanSuffixes) | X (query-less directory base extended by a clean "
                  "path) | E (empty base path, absolute-path continuation); 83% of the cleanCase cases of a quick run "
                  "(m.inreg; the rest: '../'-prefixed tails starting with an empty or ':' segment), never excused; each "
                  "hypothesis is shown necessary by a kernel-checked counterexample that is also replayed on the "
                  "implementation (rel_input_needs_dotfree_base / _pseudoroot_inside / _inside_pseudoroot / "
                  "_query_condition). The model "
                  "is the code by correspondence only: differential on Relativizer::new fields (public Debug output) and on "
                  "relativize outputs incl. panic kinds, over grammar-generated pairs and the closed family of DESIGN 4.17; "
                  "`cleanCase` itself is evaluated by the driver (m.clean; 43% of the returned references in a quick run, "
                  "30% in a thorough run) and no failure inside it is ever excused.",
    "level_note": "Strings are octet strings (List Char, one Char per UTF-8 octet); RFC 3986 resolution is applied to octet "
                  "strings (all delimiters are ASCII; that resolution commutes with UTF-8 encoding is not proved). BaseIri "
                  "accessors are modelled by the Appendix-B split. Outside cleanCase (bases with dot segments, '../' to the top "
                  "of a rootless base, slash-less rootless bases, authority-only differences) the code is right or wrong case by case: differential + ten "
                  "findings. The real resolver (oxiri) deviates from RFC 3986 on bases with dot segments / rootless bases "
                  "(C09 findings): reported on the separate field `res`, not blamed on relativize, and excused ONLY where the real "
                  "answer equals a transcription of oxiri 0.2's parse_relative/parse_path/remove_last_segment "
                  "(_oxiri_resolve, exact on all 245k thorough cases), so a new resolver defect in the same region is a "
                  "violation. Panic kinds are recognised by comparing with panics the harness provokes itself through the "
                  "same library calls (no message wording). Other entry points: Relativizer<String>, clone, base() "
                  "(gen_same), resolve(IriRef) and resolve_into (res_same; FAIL.* when the round trip holds through "
                  "resolve(&str) only). Release builds (new_unchecked not validating) are not executed. Fix patch: "
                  "notes/fixes/C17-relativize-side-conditions.diff.",
    "tables": [],
    "lean_targets": ["SophiaProofs.Props.C17", "SophiaProofs.Audit.C17"],
    "theorems": [],          # filled in below
    "native_ok": [],
    "trivial_re": r"^skip",
    "rule": "(base, IRI, parents) triples: a base from the IRI grammar (schemes x authorities incl. empty/multi-byte/port/"
            "userinfo/IP-literal x rooted/rootless/empty paths of 0-12 segments over a segment alphabet with '', '.', '..', "
            "'x:y', ':', 2-, 3- and 4-octet characters with siblings sharing 1, 2 and 3 leading octets x query (incl. '/', "
            "'?', multi-byte) x fragment) and an IRI derived from it (same document, sibling under every common directory, "
            "extension of the base string, truncation, authority/scheme with shared prefix, single-character edit, a "
            "multi-byte character replaced by a sibling - preferably the last character of a component - with the rest "
            "kept/dropped/replaced, independent), plus the class 'authority ending in a multi-byte character, empty path, "
            "query' with IRIs continuing after the authority; both accepted by Iri::new and BaseIri::new; parents in "
            "{0..7,9,12,254,255}; plus the closed family (<=3 segments from {b,c,'',.,..,x:y,e-acute} on both sides of a "
            "common prefix: sampled in quick, all 160k pairs in thorough) and a fixed corpus; `n` requests compare the "
            "fields of Relativizer::new. Counters: pair.* (derivation), shape.* (where the common prefix ends: inside a "
            "k-octet character, last character of path/query, deep bases, '/' in the query), limit.*, outcome.* (branch of "
            "the real relativize taken). Non-trivial = not skipped; distinct = distinct request lines",
    "exec_timeout": 3600,
    "trusted_base": ["RFC 3986 5.2 transcription lean/SophiaModel/Model/Resolve3986.lean",
                     "octet view of strings (one Char per UTF-8 octet) in lean/SophiaModel/Model/Relativize.lean",
                     "BaseIri accessors = Appendix-B split on accepted bases (checked by the `n` differential)"],
    "assumptions": ["harness built with debug assertions (as `cargo test`): IriRef::new_unchecked = IriRef::new(..).unwrap(); "
                    "the driver mirrors that wrapper, the theorems are about the string returned in release builds"],
}

CONFIG["theorems"] = [
    "rel_inverse_refuted_colon", "rel_inverse_refuted_empty_segment", "rel_inverse_refuted_extension",
    "rel_inverse_refuted_query_dropped", "rel_inverse_refuted_dot_segment", "rel_is_ref_refuted",
    "rel_is_ref_refuted_authority", "rel_parents_refuted", "rel_boundaries_refuted",
    "rel_parents_inserted", "rel_same_doc", "rel_boundaries_partial", "rel_partial_all",
    "rel_inverse_partial", "rel_is_ref_partial", "rel_parents_partial",
    "rel_boundaries_utf8_refuted", "rel_boundaries_utf8_partial", "rel_same_doc_some",
    "rel_none_only_outside", "rel_some_inside", "rel_same_doc_inverse_partial", "rel_path_input_partial",
    "utf8_shape_of_every_string", "rel_pseudoroot_inside_rooted", "rel_extension_input_partial",
    "rel_empty_path_input_partial", "rel_input_partial", "rel_input_needs_dotfree_base",
    "rel_input_needs_pseudoroot_inside", "rel_input_needs_inside_pseudoroot", "rel_input_needs_query_condition",
    "rel_boundaries_needs_utf8_shape",
]


def _unhex_bytes(h):
    if h == "_":
        return b""
    return bytes.fromhex(h)


_APPB = re.compile(rb"^(([^:/?#]+):)?(//([^/?#]*))?([^?#]*)(\?([^#]*))?(#(.*))?$", re.S)


def _split(s):
    m = _APPB.match(s)
    return {"scheme": m.group(2), "authority": m.group(4), "path": m.group(5), "query": m.group(7),
            "fragment": m.group(9)}


def _c17(failure):
    toks = failure["request"].split()
    if len(toks) != 4 or toks[0] != "z":
        return None
    try:
        base, n, iri = _unhex_bytes(toks[1]), int(toks[2]), _unhex_bytes(toks[3])
    except ValueError:
        return None
    I, M = kv(failure["impl"]), kv(failure["model"])
    if M.get("m.clean") == "1" or M.get("m.inpath") == "1" or M.get("m.inreg") == "1":
        return None          # nothing inside the proved regions is ever excused
    boundary = I.get("rel") == "panic" and I.get("pk") == "boundary" and M.get("pk") == "boundary"
    if ("m.tail" not in M or "m.ins" not in M) and not boundary:
        return None
    x = {"base": base, "n": n, "iri": iri, "I": I, "M": M, "b": _split(base), "i": _split(iri),
         "tail": _unhex_bytes(M.get("m.tail", "_")), "ins": M.get("m.ins", ""), "field": failure.get("field")}
    b = x["b"]
    pb = len(b["scheme"] or b"") + 1 + (len(b["authority"]) + 2 if b["authority"] is not None else 0)
    x["path_begin"] = pb
    x["path_end"] = pb + len(b["path"])
    x["query_end"] = x["path_end"] + (len(b["query"]) + 1 if b["query"] is not None else 0)
    x["tailpath"] = re.split(rb"[?#]", x["tail"])[0]
    # the failure must be a failure of the *implementation's* result, identical to the model's
    if I.get("rel") == "panic":
        x["invalid_panic"] = I.get("pk") == "invalid" and M.get("pk") == "invalid"
        x["boundary_panic"] = I.get("pk") == "boundary" and M.get("pk") == "boundary"
    else:
        x["invalid_panic"] = x["boundary_panic"] = False
        if I.get("rel") != M.get("rel"):
            return None
    return x


_UNKNOWN, _ERR = object(), object()


def _oxiri_remove_last_segment(out, authority_end, scheme_end):
    i = out[authority_end:].rfind(b"/")
    if i >= 0:
        return out[:authority_end + i] + b"/"
    out = out[:authority_end]
    return out + b"/" if authority_end > scheme_end else out


def _oxiri_resolve(base, ref):
    """what oxiri 0.2 (the resolver behind BaseIri::resolve) answers for `ref` against `base`, transcribed from
    IriParser::parse_relative / parse_path::<true> / remove_last_segment for references WITHOUT scheme and authority
    whose characters are legal where they stand (true of what relativize emits: slices of a valid IRI behind './' or
    '../'); _UNKNOWN for scheme / network-path references, _ERR for PathStartingWithTwoSlashes.
    It differs from RFC 3986 5.2 exactly in the two ways of the C09 findings: dot segments of the BASE path stay, and
    '..' at the top of a rootless authority-less path leaves a rootless path."""
    b = _split(base)
    scheme_end = len(b["scheme"]) + 1
    authority_end = scheme_end + (len(b["authority"]) + 2 if b["authority"] is not None else 0)
    path_end = authority_end + len(b["path"])
    query_end = path_end + (len(b["query"]) + 1 if b["query"] is not None else 0)
    if ref == b"":
        return base[:query_end]
    if b":" in re.split(rb"[/?#]", ref)[0] or ref.startswith(b"//"):
        return _UNKNOWN
    c = ref[:1]
    if c == b"?":
        return base[:path_end] + ref
    if c == b"#":
        return base[:query_end] + ref
    if c == b"/":
        out, inp = base[:authority_end] + b"/", ref[1:]
    else:
        out, inp = _oxiri_remove_last_segment(base[:path_end], authority_end, scheme_end), ref
    i = 0
    while True:
        c = inp[i:i + 1] if i < len(inp) else None
        i += 1
        if c is None or c in (b"/", b"?", b"#"):
            path = out[authority_end:]
            if path.endswith(b"/.."):
                out = _oxiri_remove_last_segment(out[:-3], authority_end, scheme_end)
            elif path.endswith(b"/.") or path == b".":
                out = out[:-1]
            elif path == b"..":
                out = out[:-2]
            elif c == b"/":
                out += b"/"
                continue
            if out[authority_end:].startswith(b"//") and authority_end == scheme_end:
                return _ERR
            if c is None:
                return out
            if c in (b"?", b"#"):
                return out + c + inp[i:]
        else:
            out += c


def _res_is_oxiri(x):
    """field `res`: the implementation's resolution is what the UNCHANGED resolver is known to answer (so that a new
    resolver defect in the same region is not excused)"""
    got = x["I"].get("res")
    rel = x["I"].get("rel")
    if got in (None, "panic") or rel in (None, "none", "panic"):
        return False
    want = _oxiri_resolve(x["base"], _unhex_bytes(rel))
    if want is _UNKNOWN:
        return True
    if want is _ERR:
        return got == "err"
    return got != "err" and _unhex_bytes(got) == want


def _field_ok(x, fields):
    """the failing field is one of `fields`; `nopanic` only counts as the debug assertion on an invalid reference;
    `res` (real resolver vs RFC 3986 on the same reference) only as the known deviation of the resolver"""
    f = x["field"]
    if f == "nopanic":
        return "nopanic" in fields and x["invalid_panic"]
    if f == "res":
        return "res" in fields and x["I"].get("rel") != "panic" and _res_is_oxiri(x)
    return f in fields and x["I"].get("rel") != "panic"


def _has_dot_segment(path):
    return any(s in (b".", b"..") for s in path.split(b"/"))


@predicate
def c17_colon_first_segment(failure):
    """nothing inserted and the first segment of the emitted tail contains ':' -> the reference has a scheme
    (or is no IRI reference at all: debug assertion)"""
    x = _c17(failure)
    if not x or x["ins"] != "none" or not x["tail"]:
        return False
    first = re.split(rb"[/?#]", x["tail"])[0]
    return b":" in first and _field_ok(x, ("resolves", "isref", "nopanic", "res"))


@predicate
def c17_empty_first_segment(failure):
    """nothing inserted and the emitted tail starts with an empty segment ('/' right after the '/' it was cut at):
    the reference is an absolute-path or network-path reference"""
    x = _c17(failure)
    if not x or x["ins"] != "none" or not x["tail"].startswith(b"/"):
        return False
    cut = len(x["iri"]) - len(x["tail"])
    after_slash = cut >= 1 and x["iri"][cut - 1:cut] == b"/" and x["b"]["path"] != b""
    # base with authority and empty path: the tail is legitimately an absolute path, unless it starts with '//'
    network = x["tail"].startswith(b"//") and x["b"]["authority"] is not None
    if not (after_slash or network):
        return False
    return _field_ok(x, ("resolves", "isref", "nopanic", "res"))


@predicate
def c17_authority_mismatch(failure):
    """the IRI's authority differs from the base's (base without authority and IRI with one, or the IRI's
    authority extends an empty-path base's): relativize compares bytes only and treats it as path"""
    x = _c17(failure)
    if not x or x["i"]["authority"] == x["b"]["authority"]:
        return False
    return _field_ok(x, ("resolves", "isref", "nopanic", "res", "parents_ok"))


@predicate
def c17_extension(failure):
    """first branch taken (lcp >= query_end) although the IRI merely *extends* the base's query, or its last path
    segment, with more characters: the extra characters are returned as if they were a fragment"""
    x = _c17(failure)
    if not x or x["ins"] != "none":
        return False
    qe, pe = x["query_end"], x["path_end"]
    base, iri = x["base"], x["iri"]
    if iri[:qe] != base[:qe] or len(iri) <= qe or x["tail"] != iri[qe:]:
        return False
    t0 = iri[qe:qe + 1]
    if t0 == b"#":
        return False
    has_query = pe < qe
    p = x["b"]["path"]
    if not (has_query or (t0 != b"?" and p and not p.endswith(b"/"))):
        return False
    return _field_ok(x, ("resolves", "isref", "nopanic", "parents_ok", "res"))


@predicate
def c17_dot_segment_in_tail(failure):
    """the emitted tail contains a '.' or '..' segment, which resolution removes (and which may look like
    additional parent steps)"""
    x = _c17(failure)
    if not x or not _has_dot_segment(x["tailpath"]):
        return False
    return _field_ok(x, ("resolves", "parents_ok", "res"))


@predicate
def c17_query_dropped(failure):
    """same path, the base has a query and the IRI has none: '' or '#f' is returned, which keeps the base's query"""
    x = _c17(failure)
    if not x or x["ins"] != "none":
        return False
    b, i = x["b"], x["i"]
    same = (b["scheme"], b["authority"], b["path"]) == (i["scheme"], i["authority"], i["path"])
    if not (same and b["query"] is not None and i["query"] is None):
        return False
    return x["tail"][:1] in (b"", b"#") and _field_ok(x, ("resolves",))


@predicate
def c17_rootless_base_empty_path_iri(failure):
    """authority-less base with a rootless path and an IRI with an empty path ('x:ab' / 'x:' or 'x:?q'):
    the empty path cannot be expressed, '' / '?q' / '#f' keep the base's path"""
    x = _c17(failure)
    if not x or x["ins"] != "none":
        return False
    b, i = x["b"], x["i"]
    if b["authority"] is not None or not b["path"] or b["path"].startswith(b"/"):
        return False
    if i["path"] != b"" or i["authority"] is not None or x["tailpath"] != b"":
        return False
    return _field_ok(x, ("resolves", "res"))


@predicate
def c17_boundary_panic(failure):
    """base = authority ending in a multi-byte character, empty path, query; IRI diverging right after the authority:
    `iri[pseudoroot - 1..]` slices inside the multi-byte character"""
    x = _c17(failure)
    if not x or x["field"] != "nopanic" or not x["boundary_panic"]:
        return False
    b = x["b"]
    if not b["authority"] or b["authority"][-1] < 0x80 or b["path"] != b"" or b["query"] is None:
        return False
    pe = x["path_end"]
    return x["iri"][:pe] == x["base"][:pe]


# ---- field `res`: the real resolver (oxiri) vs RFC 3986 on the reference relativize returned; relativize's own
# round trip (`resolves`) is fine or judged separately


@predicate
def c17_res_base_dot_segments(failure):
    """C09-base-dot-segments seen through relativize: dot segments in the *base* path are not removed by oxiri"""
    if failure.get("field") != "res":
        return False
    x = _c17(failure)
    if not x or x["I"].get("res") in (None, "err", "panic"):
        return False
    return _has_dot_segment(x["b"]["path"]) and _res_is_oxiri(x)


@predicate
def c17_res_rootless_climb(failure):
    """C09-oxiri-rootpop seen through relativize: authority-less base, '../' up to the top of a rootless path:
    RFC 3986 5.2.4 yields a rooted path ('x:/c'), oxiri a rootless one ('x:c')"""
    if failure.get("field") != "res":
        return False
    x = _c17(failure)
    if not x or x["I"].get("res") in (None, "err", "panic") or not x["ins"].startswith("up"):
        return False
    b = x["b"]
    if b["authority"] is not None or b["path"].startswith(b"/"):
        return False
    real, rfc = _unhex_bytes(x["I"]["res"]), _unhex_bytes(x["M"].get("o.res", "_"))
    k = len(b["scheme"]) + 1
    return rfc == real[:k] + b"/" + real[k:]
