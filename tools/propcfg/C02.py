"""C02 configuration."""
CONFIG = {
    "design_ref": "4.2",
    "technique": "Lean 4 proof: Term::eq/cmp/hash transcribed (pattern-matching form proved equal to the accessor-style text of the Rust default methods); laws proved via an order-preserving injective encoding into List Nat (core TransOrd/LawfulEqOrd); conversions modelled as rebuild-from-accessors and proved to be the identity; source-shape table regenerated from /repo; differential over all ordered pairs of shipped Term representations, every std PartialEq/PartialOrd/Ord/Hash impl, every conversion path",
    "level_text": "Proof (unbounded, all terms incl. arbitrarily nested quoted triples): for the transcription of Term::eq / Term::cmp / Term::hash and LanguageTag's folded Eq/Ord/Hash: eq is an equivalence, equal terms produce the same Hasher input sequence, cmp is a reflexive total order (swap, transitivity) that is Equal exactly for equal terms (under the RDF well-formedness guard: untagged literals never have datatype rdf:langString) and orders kinds blank < IRI < literal < triple < variable (both directions); language tags (and the literals carrying them: eq, hash, cmp) are insensitive to any ASCII case change; NsTerm's hand-written eq equals the default; from_term / from_term_ref / copy_term (rebuild from kind() + accessors) return the same term (hence an equal one, same hash, cmp Equal), GenericLiteral::try_from_term succeeds exactly on literals with the same literal; graph_name_eq is an equivalence; the wrap!-generated std impls agree with term equality of IRIs / blank nodes / variables. Over the table regenerated from /repo on every run (Gen/TermKind.lean): Kind.rank = the TermKind discriminants and Ord/Hash are derived; every transcribed statement of the default eq/cmp/hash is still in the source; LanguageTag still folds; NsTerm::eq still has the modelled shape; CmpTerm / IsoTerm / ResultTerm / &T / C14nTerm forward every accessor to the wrapped term; all 21 std PartialEq/PartialOrd/Ord/Hash impls of term types are one-line calls of Term::eq/cmp/hash. The tie to every shipped Term implementation (SimpleTerm owned/borrowed/&, CmpTerm<T>, ArcTerm, RcTerm, stash copies, ResultTerm, IriRef/Iri/BnodeId/VarName over str/String/Box/Arc, GenericLiteral, native str,i32,isize,usize,bool,f64, NsTerm, str*NsTerm, str*LanguageTag, Rio Trusted<NamedNode|BlankNode|Variable|Literal|GraphName|Term|GeneralizedTerm> incl. nested quoted triples, JSON-LD RdfTerm and ArcBnode) and to the conversion paths is differential: all ordered pairs of representations must give the model's eq/cmp/hash-equality; all std trait impls (same-type and cross-type) likewise; 3x3 law matrices over all representation pairs; eq symmetric / cmp antisymmetric on every ordered pair of representations; every representation is also hashed with a recording Hasher and an Fx-style word-at-a-time Hasher: representations of equal terms must feed the SAME call sequence (the harness-side observation of eq_hash / eq_hash_any_hasher), and the sequence must be the model's termHash rendered call by call (`hashseq`, model-vs-implementation field). Round 3, also proved: (a) implementation independence: for ANY implementations (arbitrary carrier + accessor functions) whose values expose terms t,u, the default eq/cmp/hash run on them return termEq t u / termCmp t u / termHash t (impl_independent), whatever the fuel above the nesting depth (fuel_irrelevant), the laws hold on values held by three different implementations (laws_across_impls), and from_term run on any such implementation returns t itself (fromImpl_views, conv_any); NsTerm, bool, str, Rio Literal (Simple = xsd:string, tagged = rdf:langString) and every accessor-forwarding wrapper (CmpTerm, IsoTerm, ResultTerm, &T, C14nTerm::Other: views_wrapped) are such implementations; (b) hypotheses: antisymmetry (cmp_swap_all) and 'equal => cmp Equal' (cmp_eq_of_eq) hold for ALL terms without the WF guard; the guard of cmp_trans / cmp_eq_iff is necessary (cmp_trans_needs_wf, witness replayed on the implementation from the corpus: same cmp=eq eq=0 there); (c) equal terms give the same result for any Hasher state machine (eq_hash_any_hasher); (d) a tag (string) that is a proper prefix of another compares Less, never Equal (tagCmp_prefix_lt, lang_prefix_lt); (e) UTF-8 byte order = code point order is now a theorem over Lean core's String.utf8EncodeChar (str_cmp_is_bytewise), no longer an assumption.",
    "level_note": "Remains differential (not proof): that each shipped type's accessors expose the intended term (the harness's `view` check per representation: this is the `Views` hypothesis of impl_independent, proved only for the modelled NsTerm / Rio Literal / forwarding wrappers), the native Rust values' lexical forms, ArcStrStash string sharing, and that the transcription matches term.rs beyond the statements the generated table pins. Trusted: Rust's str is UTF-8 as Lean core's encoder defines it (the order theorem is over that encoder); std DefaultHasher only through 'same write sequence => same hash' (proved for any hasher state machine); ASCII case folding hand-transcribed (to_ascii_lowercase). C14nTerm and IsoTerm live in private modules: they are covered by the generated delegation table (source shape), not by the differential. IsoTerm's std PartialEq/Ord are blank-node-agnostic by design and not part of this property. Native TryFromTerm (i32, f64, ...) is value conversion, checked by C20. No native_decide.",
    "tables": ["term_kind"],
    "lean_targets": ["SophiaProofs.Props.C02", "SophiaProofs.Audit.C02"],
    "theorems": ["termEq_refl", "termEq_symm", "termEq_trans", "eq_hash", "cmp_eq_iff", "cmp_swap", "cmp_trans",
                 "cmp_trans_lt", "cmp_kind", "cmp_kind_gt", "cmp_refl", "eq_kind", "nsterm_eq",
                 "eqA_eq", "cmpA_eq", "hashA_eq", "tagCmp_eq_iff", "tag_case_insensitive", "lang_case_insensitive",
                 "fromTerm_id", "conv_eq", "accessors_total", "genericLiteral_spec", "gn_refl", "gn_symm", "gn_trans",
                 "wrap_laws",
                 "eqI_eq", "cmpI_eq", "hashI_eq", "impl_independent", "views_self", "views_ns",
                 "strCmp_swap", "cmp_swap_all", "cmp_eq_of_eq", "cmp_trans_needs_wf", "fuel_irrelevant",
                 "fromImpl_views", "conv_any", "eq_hash_any_hasher", "strCmp_prefix_lt", "tagCmp_prefix_lt",
                 "lang_prefix_lt", "views_rio", "views_wrapped", "str_cmp_is_bytewise", "cmp_iri_bytewise", "views_native", "laws_across_impls",
                 "gen_kind_disc", "gen_default_shape", "gen_tag_folds", "gen_nsterm_shape", "gen_delegation",
                 "gen_std_impls"],
    "native_ok": [],
    "trivial_re": r"^eq=0 cmp=(lt|gt) heq=0 hfx=0 hseq=0 cmpeq=0 xk=(lt|gt) sym=1 swap=1 pairs=\d+ ",
    "rule": "pairs (A,B) of abstract terms from small colliding alphabets (all kinds, nesting <= 3, strict and generalized quoted triples, case-variant and multi-subtag language tags, strings at UTF-8 length boundaries, 300-char strings, native-compatible literals, the same string used as IRI / label / variable name / lexical form); 10% identical, 10% equal up to the case of every tag, 40% differing in exactly one component at any depth; each pair is evaluated over ALL ordered pairs of representations of A and B (`pairs`), plus all std trait impls same-type and cross-type (`spairs`); conversion-path requests (c), 3x3 law matrices (t), NsTerm split points incl. prefix+suffix-match-but-longer and empty suffix (ns), string wrappers (w), optional graph names (g); non-trivial = not a plain cross-kind pair; a request with a component outside its wrapper's grammar is answered skip= and carries no oracle",
    "trusted_base": ["Term::eq/cmp/hash transcription lean/SophiaModel/Basic/TermOrder.lean + accessor-style text lean/SophiaModel/Model/TermImpls.lean (proved equal)",
                     "tools/extractors/c02.py (source-shape recogniser, fail-closed)"],
    "assumptions": ["Rust str is UTF-8 as defined by Lean core's String.utf8EncodeChar (byte order = code point order is proved over it)",
                    "derived Ord/Hash of a field-less enum go by discriminant (Rust reference)"],
    # the exec side is CPU bound (~15 s quick, ~2 min thorough when idle): generous for a loaded machine
    "exec_timeout": 3600,
    "gen_timeout": 1800,
}


# ---------------------------------------------------------------- shrinking of a failing request
def _parse(toks, i):
    """prefix notation of T::render -> (tree, next index); tree = ('t', s, p, o) | (tag, hex...)"""
    k = toks[i]
    if k in ("i", "b", "v"):
        return (k, toks[i + 1]), i + 2
    if k in ("l", "g"):
        return (k, toks[i + 1], toks[i + 2]), i + 3
    if k == "t":
        s, j = _parse(toks, i + 1)
        p, j = _parse(toks, j)
        o, j = _parse(toks, j)
        return ("t", s, p, o), j
    raise ValueError(k)


def _render(t):
    if t[0] == "t":
        return "t " + " ".join(_render(x) for x in t[1:])
    return " ".join(t)


def _size(t):
    return 1 + sum(_size(x) for x in t[1:]) if t[0] == "t" else 1


def _variants(t):
    """t with one quoted-triple node (at any depth) replaced by one of its components"""
    if t[0] != "t":
        return
    for c in t[1:]:
        yield c
    for idx in (1, 2, 3):
        for v in _variants(t[idx]):
            yield t[:idx] + (v,) + t[idx + 1:]


def _shrink(failure, run):
    req = failure["request"]
    op, _, rest = req.partition(" ")
    if op not in ("p", "t", "c"):
        return failure
    best = failure
    for _round in range(12):
        terms = []
        for part in best["request"].partition(" ")[2].split("|"):
            toks = part.split()
            t, j = _parse(toks, 0)
            if j != len(toks):
                return best
            terms.append(t)
        cands = []
        # all sides descend into the same component (keeps "equal up to ..." relations between the sides)
        if all(t[0] == "t" for t in terms):
            for idx in (1, 2, 3):
                cands.append([t[idx] for t in terms])
        for k, t in enumerate(terms):
            for v in _variants(t):
                cands.append(terms[:k] + [v] + terms[k + 1:])
        cands.sort(key=lambda ts: sum(_size(t) for t in ts))
        reqs = []
        for ts in cands[:200]:
            r = op + " " + " | ".join(_render(t) for t in ts)
            if r not in reqs:
                reqs.append(r)
        # a long string replaced everywhere it occurs by "a" (keeps equalities between the sides)
        cur = best["request"]
        for tok in sorted(set(cur.split()), key=len, reverse=True):
            if len(tok) > 16 and all(c in "0123456789abcdef" for c in tok):
                r = " ".join("61" if x == tok else x for x in cur.split())
                if r not in reqs:
                    reqs.append(r)
        if not reqs:
            break
        ofail, _dis, _errs = run(reqs)
        failing = [f for f in ofail if f.get("field") == best.get("field")] or ofail
        if not failing:
            break
        order = {r: n for n, r in enumerate(reqs)}
        failing.sort(key=lambda f: order.get(f["request"], 1 << 30))
        best = failing[0]
    return best


CONFIG["shrink"] = _shrink
