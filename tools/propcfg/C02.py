"""C02 configuration."""
CONFIG = {
    "design_ref": "4.2",
    "technique": "Lean 4 proof: Term::eq/cmp/hash transcribed; laws proved via an order-preserving injective encoding into List Nat (core TransOrd/LawfulEqOrd); differential over all ordered pairs of shipped Term representations",
    "level_text": "Proof (unbounded, all terms incl. arbitrarily nested quoted triples): for the transcription of Term::eq / Term::cmp / Term::hash and LanguageTag's folded Eq/Ord/Hash: eq is an equivalence, equal terms produce the same Hasher input sequence, cmp is a total order (swap, transitivity) that is Equal exactly for equal terms (under the RDF well-formedness guard: untagged literals never have datatype rdf:langString) and orders kinds blank < IRI < literal < triple < variable; NsTerm's hand-written eq equals the default. The tie to every shipped Term implementation (SimpleTerm owned/borrowed, CmpTerm, ArcTerm, RcTerm, stash copies, ResultTerm, IriRef/Iri/BnodeId/VarName/GenericLiteral/native str,i32,isize,usize,bool, NsTerm, Rio Trusted<...>) and to the conversion paths is differential: all ordered pairs of representations must give the model's eq/cmp/hash-equality.",
    "level_note": "Trusted: UTF-8 byte order = code point order (str::cmp modelled on code points, exercised at every UTF-8 length boundary); std DefaultHasher only through 'same input sequence => same hash'; JSON-LD RdfTerm, C14nTerm and IsoTerm are not in the representation matrix (private modules). No native_decide.",
    "tables": [],
    "lean_targets": ["SophiaProofs.Props.C02", "SophiaProofs.Audit.C02"],
    "theorems": ["termEq_refl", "termEq_symm", "termEq_trans", "eq_hash", "cmp_eq_iff", "cmp_swap", "cmp_trans",
                 "cmp_trans_lt", "cmp_kind", "nsterm_eq"],
    "native_ok": [],
    "trivial_re": r"^eq=0 cmp=(lt|gt) heq=0 pairs=(1|4|9)\b",
    "rule": "pairs (A,B) of abstract terms from small colliding alphabets (all kinds, nesting <= 2, case-variant tags, strings at UTF-8 length boundaries); 20% identical, 30% differing in exactly one component; each pair is evaluated over ALL ordered pairs of representations of A and B (the `pairs` field counts them); plus conversion-path requests, law triples and NsTerm split points; non-trivial = not a cross-kind pair with a single representation pair",
    "trusted_base": ["Term::eq/cmp/hash transcription lean/SophiaModel/Basic/TermOrder.lean"],
    "assumptions": ["UTF-8 byte order equals code point order"],
}
