"""C14 configuration and known-finding predicates."""
import re
from props import predicate, kv, unhex


CONFIG = {
    "design_ref": "4.14",
    "technique": "Lean 4 proof over an executable model of cmp_bindings_with / sparql_order_by / SparqlValue::partial_cmp "
                 "(exact integers, BigDecimal pairs, binary32/64 as integer multiples of 2^-1074 with concrete "
                 "round-to-nearest-even); differential of the model against real SELECT ... ORDER BY queries",
    "level_text": "Proof (all inputs, kernel-checked, no native_decide): for the comparator as written - kind_order "
                  "(unbound < blank < IRI < literal), desc_reverse, lexicographic_keys, respects_lt (every outcome of the "
                  "comparison behind FILTER '<' is kept), order_total_preorder_partial (total preorder on every operand set "
                  "inside one comparison class: term-ordered values / exact numbers / floats+doubles / pairwise comparable "
                  "dateTimes; order_total_preorder_partial_kinds: also with blank nodes and IRIs next to one class of literals), "
                  "bindings_total_preorder (multi-key rows), sorted_perm + sorted_respects_lt for ANY sort meeting "
                  "the std contract (a permutation, sorted when the comparator is a total preorder on the input), and for any key "
                  "list at sequence level sorted_first_key / sorted_kind_order / sorted_respects_lt_first_key (ASC or DESC) / "
                  "sorted_later_keys_break_ties. Panic clause: NeverPanics (no comparison of two key values panics) is stated in full; "
                  "never_panics_iff_flag proves it EQUIVALENT to the regenerated source fact 'naive_to_fixed does not say unreachable!()' "
                  "(true since fix c9027e0, pinned by datetime_flags_pinned, hence never_panics : NeverPanics for all inputs; a regression "
                  "of the source flips the flag, fails these obligations and range_end_panic_witness names the panicking inputs), "
                  "order_by_panics_iff characterises the panicking comparisons exactly, "
                  "never_panics_partial / bindings_never_panic_partial prove the clause for values 14 h away from the ends of chrono's "
                  "range; datetime_flags_pinned pins the three dateTime fixes (9f7e0fe, c9027e0). Permutation clause: stdSmallSort "
                  "is a transcription of std's insertion_sort_shift_left, which sort_unstable_by runs for len <= 20; stdSmallSort_perm / "
                  "order_by_small_perm prove a permutation for EVERY comparator (also the inconsistent ones), stdSmallSort_contract "
                  "discharges the SortContract hypothesis for it (order_by_small_sorted). order_refl_all / order_swap_all / "
                  "bindings_swap_all: reflexivity and antisymmetry hold on all well-formed terms and rows; "
                  "order_laws_except_transitivity: transitivity is the only law that fails. xsd_dispatch_pinned + "
                  "tryFromTyped_eq_generated: the datatype dispatch of try_from_literal, regenerated from sparql/src/value.rs, equals "
                  "the transcription the theorems use, for all inputs. The full "
                  "statement order_total_preorder is REFUTED for the code as written by kernel-checked witnesses "
                  "(order_not_transitive, order_not_transitive_welltyped, numeric_ties_not_transitive): recorded findings; the full "
                  "statement IS proved for a repaired comparator (repaired_total_preorder: class rank first, exact comparison "
                  "inside a class), which documents the fix. "
                  "The model is tied to /repo by the differential only (value parsing, numeric coercions, comparator outcome "
                  "matrices observed through two-row ORDER BY queries): that part is testing, not proof.",
    "level_note": "Trusted: transcription of exec.rs/expression.rs/value*.rs and of the third-party parsers/conversions "
                  "(std FromStr, num-bigint, bigdecimal, chrono) into lean/SophiaModel/Model/OrderBy.lean, checked per case by the "
                  "differential; a two-element sort_unstable_by swaps iff is_less(second, first); for more than 20 rows the sort algorithm (ipnsort) enters "
                  "the theorems only through its contract and its panic freedom is differential only; for at most 20 rows the model "
                  "of std's insertion sort is tied by Q requests (exact output order of real queries, any values). Reproducibility "
                  "(sorted arrangements agree up to ties) is not proved. Model scope: ORDER BY keys are variables (keys `?k + 0`, BIND(?k * 1 AS ?b), "
                  "STR(?k) are checked against an oracle computed by the model, not modelled step by step); decimals written with a "
                  "positive exponent next to floats are skipped; the whole year range of chrono (-262143..262142) is modelled including "
                  "the checked_sub_offset overflow at its ends. How XsdDateTime::new treats an i32-overflowing year, which digit class "
                  "its regex uses and whether naive_to_fixed treats an overflow as unreachable!() is regenerated from the source "
                  "(tools/extractors/c14.py -> Gen/DateTimeFlags.lean, fail-closed on any other shape of heterogeneous_cmp / "
                  "naive_to_fixed / PartialOrd for XsdDateTime).",
    "tables": ["datetime_flags", "xsd_dispatch"],
    "lean_targets": ["SophiaProofs.Props.C14", "SophiaProofs.Audit.C14"],
    "theorems": ["order_not_transitive", "order_not_transitive_welltyped", "numeric_ties_not_transitive",
                 "not_order_total_preorder", "order_total_preorder_partial", "respects_lt", "kind_order", "desc_reverse",
                 "lexicographic_keys", "bindings_total_preorder", "sorted_perm", "sorted_respects_lt", "refSort_contract",
                 "repaired_total_preorder", "repaired_respects_cmp_partial", "repaired_kind_order",
                 "order_total_preorder_partial_kinds", "sorted_first_key", "sorted_kind_order", "sorted_respects_lt_first_key",
                 "sorted_later_keys_break_ties", "order_by_panics_iff", "panics_symm", "never_panics_partial",
                 "bindings_never_panic_partial", "range_end_panic_witness", "never_panics_iff_flag", "datetime_flags_pinned", "never_panics", "bindings_never_panic",
                 "stdSmallSort_perm", "stdSmallSort_contract", "order_by_small_perm", "xsd_dispatch_pinned", "xsdKind_eq_find", "valueOfKind_eq_armSem", "tryFromTyped_eq_generated",
                 "order_swap_all", "order_refl_all", "order_laws_except_transitivity", "bindings_swap_all", "order_by_small_sorted"],
    "native_ok": [],
    "trivial_re": r"^bad-",
    "rule": "T requests: n values (class tables from a 300-value table covering every XSD numeric type incl. derived integer "
            "types, NaN, +-INF, -0.0, 30-digit decimals, values around 2^24/2^53, ill-typed literals, plain/tagged strings, "
            "booleans, dateTimes with/without timezone over the whole range of chrono incl. its first/last day and just beyond, "
            "unknown datatypes, IRIs, blank nodes, quoted triples; mixed tables; random dateTime tables; random triples): "
            "all n*n ordered pairs observed through two-row SELECT..ORDER BY ASC/DESC queries in a chosen input order (UNION "
            "branches), value probes through ResultTerm::value(), all triples checked for preorder laws, three-row sorts in all 6 "
            "input orders; K requests: two or three rows, 1-3 keys, random ASC/DESC flags, unbound cells; S requests: sorts of 21-200 values "
            "in store order (mixed, homogeneous, cycle-dense, dateTime range, and CLEAN ones inside one comparison class where no "
            "known finding can match) under catch_unwind with permutation / adjacent / sampled-pair checks; M requests: 21-90 rows, "
            "2-3 keys each inside one comparison class, unbound cells, ASC/DESC, LIMIT/OFFSET (permutation, sortedness, "
            "reproducibility, slice agrees with the full result up to ties); Q requests: 2-20 rows, 1-3 keys, ANY values, unbound cells: exact output order (given and flipped "
            "flags) against stdSmallSort with cmpBindingsWith; X requests: one key `?k + 0` / BIND(?k * 1 AS ?b) / "
            "STR(?k) against the order of the key values computed by the model (errors = unbound first, numbers by value, strings by "
            "code point). "
            "distinct = distinct request lines; non-trivial = every well-formed request",
    "trusted_base": ["std slice::sort_unstable_by on two elements swaps iff is_less(v[1], v[0]) (observable used to read the comparator)",
                     "UNION evaluates its branches left to right (exec.rs `union` = chain); checked per query by the permutation test",
                     "transcription of std/num-bigint/bigdecimal/chrono parsing and float conversion (differential per value)"],
    "assumptions": ["theorems: ORDER BY keys are variables bound to stored terms (EvalResult::Term); computed keys are differential only",
                    "str::cmp (bytewise UTF-8) coincides with code-point order (as in C02)"],
    "exec_timeout": 3000,
}


def _terms(request):
    """[(kind, lexical, datatype-or-tag)] of the literals in a request"""
    toks = request.split()
    out = []
    i = 0
    while i < len(toks):
        if toks[i] in ("l", "g") and i + 2 < len(toks):
            out.append((toks[i], unhex(toks[i + 1]), unhex(toks[i + 2])))
            i += 3
        else:
            i += 1
    return out


def _counts(failure):
    M = kv(failure["model"])
    try:
        return {k: int(M[k]) for k in ("cyc", "tr", "mixed", "numtie", "other")}
    except (KeyError, ValueError):
        return None


def _impl_count(failure):
    m = re.match(r"(\d+):", failure.get("detail", ""))
    return int(m.group(1)) if m else None


def _matrix_agrees(failure):
    I, M = kv(failure["impl"]), kv(failure["model"])
    return "m" in I and I.get("m") == M.get("m")


@predicate
def c14_mixed_order_not_transitive(failure):
    """the violating triples of this table are exactly those the model predicts, and every one of them mixes the two
    orders: at least one pair compared by value and at least one by the Term::cmp fallback"""
    if failure.get("field") not in ("FAIL.cycle", "FAIL.preorder") or not failure["request"].startswith("T "):
        return False
    c = _counts(failure)
    if not c or c["other"] != 0 or c["mixed"] == 0 or not _matrix_agrees(failure):
        return False
    want = c["cyc"] if failure["field"] == "FAIL.cycle" else c["tr"]
    if _impl_count(failure) != want:
        return False
    # a strict cycle is always of the mixed kind
    return failure["field"] == "FAIL.preorder" or c["cyc"] <= c["mixed"]


@predicate
def c14_numeric_promotion_ties(failure):
    """non-strict violations only, among three numbers all compared by value but not all of one exactness class
    (integer/decimal vs float/double): two distinct exact values tie with the same rounded float"""
    if failure.get("field") != "FAIL.preorder" or not failure["request"].startswith("T "):
        return False
    c = _counts(failure)
    if not c or c["other"] != 0 or c["mixed"] != 0 or c["numtie"] == 0 or not _matrix_agrees(failure):
        return False
    return _impl_count(failure) == c["tr"] and c["numtie"] == c["tr"] + c["cyc"]


@predicate
def c14_sort_output_misordered(failure):
    """a big sort whose input contains triples of the two known kinds (and no other violation) leaves some pair
    strictly out of order, both rows of the reported pair taking part in a triple the model predicts to be violating
    (`badix`); or std's sort detects the inconsistent comparator itself ("does not correctly implement a total order")"""
    if failure.get("field") not in ("FAIL.unsorted", "FAIL.misordered", "FAIL.panic_total_order"):
        return False
    if not failure["request"].startswith("S "):
        return False
    c = _counts(failure)
    if not c or c["other"] != 0 or (c["mixed"] + c["numtie"]) == 0:
        return False
    if failure["field"] == "FAIL.panic_total_order":
        return "total order" in unhex(failure.get("detail", ""))
    bad = kv(failure["model"]).get("badix", "")
    m = re.match(r"\d+:(\d+),(\d+)$", failure.get("detail", ""))
    if not m:
        return False
    i, j = int(m.group(1)), int(m.group(2))
    return i < len(bad) and j < len(bad) and bad[i] == "1" and bad[j] == "1"
