"""C05 configuration (canonical N-Quads is a complete isomorphism invariant)."""
from props import predicate, kv  # noqa: F401


CONFIG = {
    "design_ref": "4.5",
    "technique": "Lean 4 proof over a step-by-step executable model of c14n/src/rdfc10.rs (+_cnq, _c14n_term, _permutations; "
                 "hash function abstract) + byte-exact differential of normalize*/relabel* vs the compiled model (real SHA-256/384 "
                 "written in Lean) + Rust-side metamorphic oracle (relabel/reorder/container => same bytes; one-edit non-isomorphic "
                 "variant, judged by an independent backtracking isomorphism test => different bytes)",
    "level_text": "Proof, for every hash function, depth guard and permutation limit (kernel-checked, no native_decide): (complete) two well-formed "
                  "datasets canonicalised to the same bytes are isomorphic - and (validated_terms_wellformed, complete_validated; regex disjointness by the verified "
                  "decision procedure, native_decide) 'well-formed' is implied by the toolkit's own validators (regexes regenerated from /repo for IRI references, "
                  "blank node labels, language tags), so no hypothesis beyond validated terms remains; (issued_bij) the returned id map is injective with range exactly "
                  "c14n0..c14n(n-1); (relabel_applies) the returned quads are the input with that map applied; (issued_total, issued_dom_iff, step6_never_panics, relabel_outcomes_explicit) "
                  "the map's domain is exactly the blank nodes of the dataset, no unwrap of step 6 / hash_related_bnode / hash_n_degree_quads can fail, "
                  "the recursion depth is bounded by the number of blank nodes, so the only outcomes are a result, Unsupported, ToxicGraph(depth|perms); (sorted_is_line_order) the term-wise comparison of the "
                  "final sort is the code-point order of the N-Quads lines; (first_degree_invariant) first-degree hashes are invariant under "
                  "relabelling and reordering; (sound_distinct_partial) isomorphic datasets get identical bytes when all first-degree hashes are distinct. "
                  "The theorems are about the functions the driver executes; their tie to rdfc10.rs is the differential (out / id map / error kind / "
                  "digests agree on every generated case, both hashes, all limits). The unrestricted direction isomorphic => same bytes (SoundFull) is REFUTED "
                  "(soundFull_refuted, native_decide on a 5-quad dataset: finding C05-rdfc10-ambiguous-tie, a defect of the W3C algorithm which the "
                  "implementation follows); outside that class it is tested on the implementation by the metamorphic oracle (relabel / reorder / container => same bytes; one-edit "
                  "non-isomorphic variants => different bytes).",
    "level_note": "Known finding C05-rdfc10-ambiguous-tie: label-/order-dependent output exactly where the transcription of RDFC-1.0 is itself ambiguous "
                  "(driver field x.amb=1: the Recommendation evaluated on the dataset enumerated forwards and backwards gives two documents); on such datasets "
                  "the model's bytes are compared only for the order-preserving container. A one-off exhaustive search with the models (all 18473 datasets of <= 3 "
                  "quads over 4 blank nodes x 1 predicate x {default, 2 IRI graphs}; all 44679 datasets of <= 6 edges from {b0,b1} to {b2,b3} in 4 graph options "
                  "with 0-2 asymmetry quads) found 168 label-dependent datasets, every one flagged x.amb=1: no counterexample outside the ambiguous-tie class is known. "
                  "Trusted: the hand-written model (tied per case), sha2 crate (validated per digest), Rust str order = code-point "
                  "order. The unrestricted soundness direction needs collision-freeness of the hash and is stated, not proved "
                  "(SophiaProofs.C05.SoundFull). The id map itself is NOT compared with the model (which automorphic node gets which id depends on iteration "
                  "order / permutation enumeration / tie order of an unstable sort and is not part of the property): the harness checks that it is a bijection "
                  "onto c14n0..n-1 mapping the input onto the returned quads, and the canonical bytes are compared exactly.",
    "tables": ["cnq_escapes", "rdfc10_smaller_path", "regexes"],
    "lean_targets": ["SophiaProofs.Props.C05", "SophiaProofs.Audit.C05"],
    "theorems": ["issued_bij", "relabel_applies", "issued_total", "issued_dom_iff", "step6_never_panics", "relabel_outcomes_explicit",
                 "flag_predicate_must_be_iri", "first_degree_invariant",
                 "sorted_is_line_order", "output_lines_sorted", "complete", "complete_validated", "validated_terms_wellformed", "sound_distinct_partial", "soundFull_refuted"],
    "native_ok": ["soundFull_refuted", "validated_terms_wellformed", "complete_validated"],
    "trivial_re": r"^st=unsupported|^h=",
    "rule": "symmetric-structure generator (cycles 1-10(22), chains, cliques 2-5, stars, double stars, bipartite, disjoint isomorphic copies, "
            "blank graph names, same edges in several graphs, hubs with multi-edges across graphs to equal-hash siblings plus a non-automorphic near-twin "
            "component (each under 5-8 enumeration orders of the order-preserving container), self loops, the shipped examples, literals with every escaped character) x "
            "random label bijections (labels chosen to sort against the structure) x quad orders x 5 dataset implementations x 2 hashes; "
            "depth factor / permutation limit grid incl. 0, NaN, negative, infinity; random small graphs; each request is additionally the base of "
            "3 isomorphic variants, 7 enumeration orders of the same quads (duplicate edges adjacent / interleaved / reversed / shuffled, order-preserving "
            "SetDataset) and up to 3 one-edit variants executed on the implementation; non-trivial = canonicalisation reaches step 3",
    "trusted_base": ["model lean/SophiaModel/Model/{Rdfc10,Cnq,Sha2}.lean (differentially tied)", "sha2 0.10 (every digest compared with the Lean SHA-2)",
                     "harness-side backtracking isomorphism test (independent of sophia_isomorphism)"],
    "assumptions": ["Rust str/[u8;N] comparison = code-point / hex-string order (DESIGN 3.1)",
                    "ties of sort_unstable_by_key in step 5.3 only reorder automorphic nodes (the id map is not compared, only the bytes)"],
    "exec_timeout": 3000,
}


@predicate
def c05_rdfc10_ambiguous_tie(failure):
    """label- / order-dependent output on a dataset on which the transcription of RDFC-1.0 is itself ambiguous (the Lean driver
    evaluates the Recommendation on the dataset enumerated forwards and backwards and reports x.amb=1 when the two documents differ)"""
    if failure.get("field") not in ("FAIL.label_dependent", "FAIL.order_dependent"):
        return False
    M = kv(failure["model"])
    return M.get("x.amb") == "1" and M.get("st") == "ok"
