"""C08 configuration, known-finding predicates, model-search hook.

The proof part of C08 is the token-language CONTRACT between parser back-ends and toolkit
validators; totality of the third-party parsers on arbitrary bytes is explored, not proved."""
import ipaddress
import re
from props import predicate, kv, unhex


CONFIG = {
    "design_ref": "4.8",
    "technique": "Lean 4 proof: verified regex-inclusion decision procedure (Antimirov derivatives + checked "
                 "simulation certificate) deciding, per recogniser class, back-end token language (hand model of "
                 "rio_turtle / oxiri / oxilangtag / rio_xml / rdf-types recognisers) <= toolkit validator language "
                 "(regexes regenerated from /repo on every run), lifted to the function the driver executes per (syntax, "
                 "token kind); wiring of validators / accessors regenerated from /repo and pinned by a theorem; back-end "
                 "models tied to the real crates by a differential through minimal isolating documents; plus exploration "
                 "(mutation corpus, parser options, chunked reads, base resolution, deep nesting in child processes) of parser totality",
    "level_text": "PROVED for all strings (Lean 4, kernel-checked soundness of the regex decision procedure; per-regex obligations by "
                  "native_decide): (a) spec_contract / specOf_contract — for every (syntax, token kind) of the safe list (blank node labels "
                  "incl. the Turtle-family riog relabelling, variable names, language tags of the Rio back-ends and rio_xml, every IRI / IRI "
                  "reference checked by oxiri in subject, predicate, object, graph-name, quoted-triple and datatype position, RDF/XML "
                  "rdf:about / rdf:resource / rdf:datatype, JSON-LD blank node properties under produce_generalized_rdf since /repo ea054b4) "
                  "whatever the modelled back-end accepts is handed over as a string the validator regenerated from /repo accepts; "
                  "(b) the ACCESSOR LAYER in debug and release builds — access_safe_ok: reading such a term gives a valid value in both builds, "
                  "never a panic; safe_is_exact / unsafe_debug_panic_release_invalid: the safe list is exact, every class outside it has an "
                  "accepted token that panics when read in a debug build and is handed out invalid, silently, in a release build (the "
                  "property's WHY clause, with kernel-checked witnesses replayed on the implementation by the corpus); "
                  "release_panics_only_lang / lang_unchecked_panics_in_release: in release only LanguageTag::new_unchecked can panic, and it "
                  "does on every tag LANG_TAG rejects; the validator each accessor asserts is READ from /repo (generated table), "
                  "demanded_sub_asserted shows it is never narrower than what the property demands; "
                  "(c) wiring_as_modelled / jsonld_rejects_invalid_bnode_labels pin what ties the regexes to validity in /repo (X::new is "
                  "REGEX.is_match, new_unchecked validates under debug_assertions only — the single debug/release switch of the anchored "
                  "files —, LanguageTag::new_unchecked is assert!(LANG_TAG.is_match), the accessor -> validator map, the JSON-LD label check); "
                  "(d) the character classes of the hand models denote the same sets as the matches! arms of the third-party sources "
                  "cargo compiles (rio_turtle, oxiri, rio_xml, oxilangtag at the versions of /repo/Cargo.lock; 9 *_as_source theorems over a "
                  "generated table); (e) base_unwrap_safe: Iri::new => oxiri::Iri::parse(..).unwrap() cannot fail; "
                  "(f) rio/src/parser.rs error mapping, over a scripted back-end and a failing callback: for every script and every number of "
                  "calls the stream terminates (exactly script.length non-end answers, then Ok(false) for ever), never panics, and reports "
                  "every back-end error as SourceError where it happened (glue_run_terminates / glue_run_no_panic / glue_run_faithful); the same "
                  "for jsonld/src/parser/source.rs JsonLdQuadSource (json_run_quads: every quad once, a callback failure exactly where it "
                  "happened, then Ok(false) for ever; json_run_err: the error once as SourceError; json_run_no_panic). "
                  "REFUTED with kernel-checked witnesses and reported as findings: unvalidated prefixed names / GTriG IRIREFs / RDF-XML "
                  "qualified names, rdf:nodeID with trailing or double dots, Turtle-family object labels with a trailing dot "
                  "(spec_contract_full_refuted and the per-class …_refuted theorems). "
                  "DIFFERENTIAL ONLY (no proof): that the hand models' control structure (label / tag state machines, oxiri's component "
                  "order, IPv6) is what the crates do — `tok`/`trail`/`base` requests compare accepted / out / valid / acc with the real "
                  "parsers and accessors in every position; the three real rio Source wrappers (scripted rio_api parsers) and the real JsonLdQuadSource vs the glue models. "
                  "EXPLORATION ONLY: termination, panic-freedom and stack use of the third-party parsers (rio_turtle, rio_xml/quick-xml, "
                  "json-ld/json-syntax/iref) on arbitrary bytes — mutation corpus (every single-byte deletion / insertion / flip / truncation "
                  "of valid documents per syntax, invalid UTF-8, structural near-misses, cross-syntax input, random bytes, very long tokens, "
                  "invalid documents with long non-ASCII data in their error messages), each document also read through a 1..7-byte "
                  "BufReader, JSON-LD under nine non-default option sets, references resolved against configured / in-document bases "
                  "(oxiri / iref resolution has no model; the oracle is the toolkit's validators), nesting depths 16..10^5 in child "
                  "processes; every yielded term is read through all accessors and used as downstream code does (eq / cmp / hash / "
                  "into_term / constituents / to_spo(g), against terms of every kind) in a dev build.",
    "level_note": "Trusted: the control structure of the hand models of third-party recognisers (lean/SophiaModel/Model/Backend.lean; std's "
                  "Ipv6Addr::from_str modelled as the RFC 3986 IPv6address production), tied by the differential only; native_decide for the "
                  "inclusion / equivalence obligations; extract.py regex translator; the text patterns of tools/extractors/c08.py (a pattern "
                  "that stops matching yields false / \"?\" / an extractor error, never a silent pass). JSON-LD IRIs (iref) and language tags "
                  "(langtag crate) and every RESOLVED reference have no Lean model. Behaviour after the first stream error (calling "
                  "try_for_some_item again) is not explored. Release builds are modelled (access false …) and pinned statically "
                  "(uncheckedValidatesInDebugOnly, debugAssertionSites = 1, langUnchecked) but NOT run: the harness is a dev build and "
                  "re-validates every string itself, so a value release would hand out silently shows up as accessor_panic / invalid_term.",
    "tables": ["regexes", "parserwiring", "backendclasses"],
    "lean_targets": ["SophiaProofs.Props.C08", "SophiaProofs.Audit.C08"],
    "theorems": ["rio_bnode_sub_validator", "rio_var_sub_validator", "rio_lang_sub_validator",
                 "jsonld_bnode_sub_validator", "base_unwrap_safe",
                 "oxiri_abs_sub_validator", "oxiri_ref_sub_validator",
                 "gtrig_iri_sub_validator_refuted", "ttl_pname_sub_validator_refuted",
                 "xml_qname_sub_validator_refuted", "xml_nodeid_sub_validator_refuted",
                 "xml_nodeid_sub_validator_partial", "ttl_bnode_obj_sub_validator_refuted",
                 "glue_no_unwrap", "glue_source_error", "glue_end",
                 "riog_suffix_sub_validator", "ttl_bnode_disambiguated_sub_validator",
                 "glue_run_terminates", "glue_run_no_panic", "glue_run_faithful",
                 "specOf_contract", "spec_contract", "spec_contract_full_refuted", "wiring_as_modelled",
                 "jsonld_bnode_pred_sub_validator_refuted", "jsonld_bnode_pred_sub_validator_partial",
                 "jsonld_rejects_invalid_bnode_labels",
                 "demanded_sub_asserted", "access_safe_ok", "unsafe_debug_panic_release_invalid", "safe_is_exact",
                 "release_panics_only_lang", "lang_unchecked_panics_in_release",
                 "json_run_quads", "json_run_err", "json_run_no_panic",
                 "backend_versions_as_transcribed", "rio_pn_chars_base_as_source", "rio_pn_chars_u_as_source", "rio_pn_chars_as_source", 
                 "oxiri_ius_as_source", "oxiri_us_as_source", "oxiri_query_as_source", "xml_name_start_as_source", "xml_name_char_as_source", "grandfathered_as_source"],
    "native_ok": ["rio_bnode_sub_validator", "rio_var_sub_validator", "rio_lang_sub_validator",
                  "jsonld_bnode_sub_validator", "base_unwrap_safe", "oxiri_abs_sub_validator",
                  "oxiri_ref_sub_validator", "xml_nodeid_sub_validator_partial",
                  "riog_suffix_sub_validator", "ttl_bnode_disambiguated_sub_validator", "specOf_contract", "spec_contract",
                  "jsonld_bnode_pred_sub_validator_partial", "access_safe_ok", "safe_is_exact",
                  "rio_pn_chars_base_as_source", "rio_pn_chars_u_as_source", "rio_pn_chars_as_source", 
                  "oxiri_ius_as_source", "oxiri_us_as_source", "oxiri_query_as_source", "xml_name_start_as_source", "xml_name_char_as_source", "grandfathered_as_source"],
    "trivial_re": r"^accepted=0( emitted=none)?$|^new=0$|^skip|^bad-",
    "rule": "One private PRNG stream per request family (seeded up-front from the run seed), so that an edit of one regex of /repo "
            "cannot reshuffle the other families. "
            "tok: tokens sampled from the validator regexes of /repo (HIR of BNODE_ID, VARNAME, LANG_TAG, IRI_REGEX, "
            "IRELATIVE_REF_REGEX read from the working tree), from Rust-side grammars of the back-end languages (name "
            "alphabets with every class boundary +-1, BCP47 shapes incl. grandfathered/private-use/extensions, PN_LOCAL "
            "with escapes), single-character mutants of both, and fixed corpora (IPv6 / IPvFuture shapes, empty segments, "
            "percent escapes, non-ASCII labels and tags); each driven through the smallest document isolating the "
            "recogniser, rotating over the syntaxes that share it and over the POSITIONS that reach it: subject, predicate, object, "
            "graph name (N-Quads column, TriG block label), constituent of a quoted triple (subject / object side), datatype, "
            "RDF/XML rdf:about / rdf:resource / rdf:datatype / rdf:nodeID on node and property elements / xml:lang on both / typed node "
            "elements, JSON-LD @id (subject, object, graph), @type, value @type, @vocab, term definitions, @language in value objects and "
            "contexts, @direction under rdf_direction=i18n-datatype / compound-literal. trail: label/variable followed by '.'+non-name "
            "non-ASCII character. base: Iri::new-accepted strings as configured base of Turtle/TriG/GTriG/RDF-XML parsers over a "
            "document with relative references of every RFC 3986 5.4 shape in every resolved position. "
            "rel (no model; oracle = validators): 34 bases x 75 references (normal and abnormal examples of RFC 3986 5.4, dot segments "
            "above the root, IP literals, rootless bases, non-IRIs) and sampled ones, resolved against a configured base, @base / BASE / "
            "xml:base, a second directive relative to the first, @prefix namespaces, rdf:ID, JSON-LD @base (in context, nested, with a "
            "base option). "
            "glue j: JsonLdQuadSource with 0..5 quads x every callback failure position, and the one-shot error. "
            "glue: every script of <=3 parse_step calls over {0,1,2 items} x {ok, parser error} with the callback failing at "
            "each item (sampled in quick), through StrictRioTripleSource / StrictRioQuadSource / GeneralizedRioSource. "
            "doc (exploration, no model): 21 valid seed documents over 8 syntaxes (JSON-LD incl. @direction, @json, @nest, @included, "
            "language / id maps, scoped contexts, blank node predicates); every truncation, every single-byte "
            "deletion, per position random insertion (syntax characters of all formats, UTF-8 fragments valid and invalid) "
            "and bit flip / byte replacement, chunk deletion/duplication/reversal, cross-syntax input, random bytes; "
            "1/4 of insertions also with a configured base (4 shapes); every document is parsed twice, from the slice and through a "
            "BufReader of 1..7 bytes; the 5 JSON-LD seeds and 120 sampled mutants each under 9 option sets (rdf_direction x2, "
            "produce_generalized_rdf, ordered, base, expand context, processing mode 1.0, strict / relaxed expansion policy). "
            "errmsg (exploration): INVALID documents whose error message embeds long non-ASCII user data (55 JSON-LD templates under 6 "
            "option sets, 23 Rio / RDF-XML templates; payloads of 2-, 3-, 4-byte characters after 0..3 ASCII characters at byte lengths "
            "around 64 .. 4096): a returned error is fine, a panic on the error path is not; the error's Display is rendered too. "
            "deep/long (exploration, child process with a wall-clock allowance; OOM / external kill / timeout = inconclusive, not a "
            "failure): nesting of quoted triples, collections, property lists, XML elements, JSON arrays/objects/@list/@graph at depths "
            "16, 10^3 (quick) .. 10^5 (thorough); tokens / statement counts of 10^5 (10^6 thorough). Every yielded term: all accessors, "
            "then eq / cmp against itself and against a term of every kind, hash, into_term round trip, constituents / atoms, to_triple, "
            "to_spo / to_spog. Non-trivial = the token was accepted (or the case is an exploration case); distinct = distinct request lines",
    "trusted_base": ["hand models of rio_turtle 0.8.6, oxiri 0.2.11, oxilangtag 0.1.6, rio_xml 0.8.6, rdf-types 0.15.4 token "
                     "recognisers in lean/SophiaModel/Model/Backend.lean (tied by differential only)",
                     "std::net::Ipv6Addr::from_str modelled as RFC 3986 IPv6address",
                     "regex crate semantics for the supported syntax subset (C09 cross-checks the translator per case)",
                     "tools/extractors/c08.py text patterns (a pattern that no longer matches yields false / \"?\" and fails wiring_as_modelled)"],
    "assumptions": ["dev build (debug assertions on, overflow checks on) as built by `cargo test`; nesting runs on an "
                    "8 MiB thread stack in a child process",
                    "streams are consumed as Source::try_for_each_item does: the first error ends the stream",
                    "JSON-LD without remote contexts (NoLoader)"],
    "exec_timeout": 20000,
}


# ---------------------------------------------------------------- an RFC 3987 checker for predicates
# (independent of the Lean side: predicates must be able to say "this string is not an IRI")

_UCS = ("\u00A0-\uD7FF\uF900-\uFDCF\uFDF0-\uFFEF\U00010000-\U0001FFFD\U00020000-\U0002FFFD\U00030000-\U0003FFFD"
        "\U00040000-\U0004FFFD\U00050000-\U0005FFFD\U00060000-\U0006FFFD\U00070000-\U0007FFFD\U00080000-\U0008FFFD"
        "\U00090000-\U0009FFFD\U000A0000-\U000AFFFD\U000B0000-\U000BFFFD\U000C0000-\U000CFFFD\U000D0000-\U000DFFFD"
        "\U000E1000-\U000EFFFD")
_IUS = r"A-Za-z0-9\-._~!$&'()*+,;=" + _UCS
_PCT = r"%[0-9A-Fa-f]{2}"
_PRIV = "\uE000-\uF8FF\U000F0000-\U000FFFFD\U00100000-\U0010FFFD"
_RE_USERINFO = re.compile(r"(?:[%s:]|%s)*\Z" % (_IUS, _PCT))
_RE_REGNAME = re.compile(r"(?:[%s]|%s)*\Z" % (_IUS, _PCT))
_RE_PATH = re.compile(r"(?:[%s:@/]|%s)*\Z" % (_IUS, _PCT))
_RE_SEG_NC = re.compile(r"(?:[%s@]|%s)*\Z" % (_IUS, _PCT))
_RE_QUERY = re.compile(r"(?:[%s:@/?%s]|%s)*\Z" % (_IUS, _PRIV, _PCT))
_RE_FRAG = re.compile(r"(?:[%s:@/?]|%s)*\Z" % (_IUS, _PCT))
_RE_SPLIT = re.compile(r"(?:([A-Za-z][A-Za-z0-9+.\-]*):)?(?://([^/?#]*))?([^?#]*)(?:\?([^#]*))?(?:#(.*))?\Z", re.S)
_RE_VFUT = re.compile(r"[vV][0-9A-Fa-f]+\.[A-Za-z0-9\-._~!$&'()*+,;=:]+\Z")


def _host_ok(h, v_any=False):
    if h.startswith("["):
        if not h.endswith("]"):
            return False
        ip = h[1:-1]
        if _RE_VFUT.match(ip):          # upper- or lower-case marker (as IRI_REGEX since /repo 94adeaf)
            return True
        if not re.match(r"[0-9A-Fa-f:.]*\Z", ip):
            return False
        try:
            ipaddress.IPv6Address(ip)
            return True
        except ValueError:
            return False
    return _RE_REGNAME.match(h) is not None


def iri_ref_ok(s, absolute=False, v_any=False):
    """RFC 3987 IRI-reference (IRI if `absolute`), as sophia's regexes spell it"""
    if "\n" in s or "\r" in s:
        return False
    m = _RE_SPLIT.match(s)
    if not m:
        return False
    scheme, auth, path, query, frag = m.groups()
    if absolute and scheme is None:
        return False
    if scheme is None and s.startswith(":"):
        return False
    if auth is not None:
        ui, at, hp = auth.rpartition("@")
        if at and not _RE_USERINFO.match(ui):
            return False
        host, port = hp, ""
        mm = re.match(r"(\[[^\]]*\]|[^:\[\]]*)(?::(.*))?\Z", hp, re.S)
        if not mm:
            return False
        host, port = mm.group(1), mm.group(2) or ""
        if not re.match(r"[0-9]*\Z", port) or not _host_ok(host, v_any):
            return False
        if path and not path.startswith("/"):
            return False
    else:
        if path.startswith("//"):
            return False
        if scheme is None and path and not path.startswith("/"):
            if not _RE_SEG_NC.match(path.split("/", 1)[0]):
                return False
    if not _RE_PATH.match(path):
        return False
    if query is not None and not _RE_QUERY.match(query):
        return False
    if frag is not None and not _RE_FRAG.match(frag):
        return False
    return True


# ---------------------------------------------------------------- request decoding

def _parts(failure):
    t = failure["request"].split()
    return t


def _fam(syn):
    """parser family of a (possibly configured) syntax name: jsonld@i18n -> jsonld"""
    return syn.split("@", 1)[0]


_BASE_KIND = {}
for _k in ("iri_p", "iri_o", "iri_g", "iri_q", "iri_qo", "resource"):
    _BASE_KIND[_k] = "iri"
for _k in ("bnode_g", "bnode_q", "bnode_qo"):
    _BASE_KIND[_k] = "bnode"
for _k in ("pname_p", "pname_o", "pname_g", "pname_q", "pname_d"):
    _BASE_KIND[_k] = "pname"
for _k in ("dt_q", "datatype"):
    _BASE_KIND[_k] = "dt"
_BASE_KIND["nodeid_o"] = "nodeid"


def _bk(kind):
    """the recogniser behind a token kind (the same one reached through another position / attribute)"""
    return _BASE_KIND.get(kind, kind)


def _tok(failure):
    """(syn, kind, token) of a tok request, else None"""
    t = _parts(failure)
    if len(t) == 4 and t[0] == "tok":
        return t[1], t[2], unhex(t[3])
    return None


def _rel(failure):
    """(syn, how, kind, base, ref) of a rel request, else None"""
    t = _parts(failure)
    if len(t) == 6 and t[0] == "rel":
        return t[1], t[2], t[3], unhex(t[4]), unhex(t[5])
    return None


def _doc(failure):
    """(syn, text, has_base) of a doc request, else None"""
    t = _parts(failure)
    if len(t) in (3, 4) and t[0] == "doc":
        raw = b"" if t[2] == "_" else bytes.fromhex(t[2])
        return t[1], raw.decode("utf-8", "replace"), len(t) == 4
    return None


def _field(failure):
    return failure.get("field", ""), failure.get("detail", "")


def _bad(failure, tag):
    """The back-end strings of kind `tag` (i IRI, d datatype, b blank node label, l language tag, v variable) that
    the toolkit's validators rejected in this run, as reported by the harness (`bad=` of the implementation reply;
    the first six).  None when the reply carries none of that kind (older replay files, list cut off)."""
    out = []
    for tok in failure.get("impl", "").split():
        if tok.startswith("bad="):
            for e in tok[4:].split(","):
                tg, _, h = e.partition(".")
                if tg == tag:
                    out.append(unhex(h))
    return out or None


def _all_bad(failure, tag, cond):
    """every rejected string of kind `tag` satisfies `cond` (vacuously true when the reply lists none: the textual
    rule of the predicate then decides alone).  This is what keeps a predicate NARROW: a known finding is "the back-end
    hands over a string that is no IRI / label"; a validator that starts rejecting a string which IS one (an
    independent RFC 3987 check, below) is a different, new failure even in the same document."""
    b = _bad(failure, tag)
    return b is None or all(cond(x) for x in b)


def _iri_tag(failure):
    """which `bad=` kind a FAIL.(accessor_panic|invalid_term)=(iri|datatype) field speaks about"""
    return "d" if failure.get("detail") == "datatype" else "i"


_TTL = ("ttl", "trig", "gtrig")
_RIO = ("nt", "nq", "ttl", "trig", "gnq", "gtrig", "xml")
_IRI_BAD_TERM = (("FAIL.accessor_panic", "iri"), ("FAIL.accessor_panic", "datatype"), ("FAIL.invalid_term", "iri"),
                 ("FAIL.invalid_term", "datatype"))



def _unescape_iriref(s):
    def u(m):
        try:
            return chr(int(m.group(1) or m.group(2), 16))
        except ValueError:
            return "\uFFFD"
    return re.sub(r"\\u([0-9A-Fa-f]{4})|\\U([0-9A-Fa-f]{8})", u, s)


def _irirefs(text):
    """contents of IRIREF tokens of a Turtle-family document: `<` up to the next `>` (rio's parse_iriref
    stops at nothing else), for a `<` that does not open a quoted triple; after a prefix / base
    directive the token starts at the first `<` whatever follows"""
    out = []
    for m in re.finditer(r"(?<!<)<(?!<)([^>\n\r]*)>", text):
        out.append(_unescape_iriref(m.group(1)))
    for m in re.finditer(r"(?:@prefix|@base|PREFIX|BASE)\s*[^\s<]*\s*<([^>\n\r]*)>", text, re.I):
        out.append(_unescape_iriref(m.group(1)))
    return out


def _prefixes(text):
    """(name, namespace text) of the prefix directives of a Turtle-family document"""
    return [(m.group(1), _unescape_iriref(m.group(2)))
            for m in re.finditer(r"(?:@prefix|PREFIX)\s*([^\s<:]*):\s*<([^>\n\r]*)>", text, re.I)]


@predicate
def c08_gtrig_unvalidated_iriref(failure):
    """generalized TriG without base: IRIREF text is handed over without consulting an IRI parser
    (also as prefix namespace, then carried into every prefixed name)"""
    if _field(failure) not in _IRI_BAD_TERM:
        return False
    tag = _iri_tag(failure)
    x = _tok(failure)
    if x:
        syn, kind, w = x
        if syn != "gtrig":
            return False
        if _bk(kind) == "iri":
            return not iri_ref_ok(w) and _all_bad(failure, tag, lambda s: not iri_ref_ok(s))
        if kind == "pname_dt":
            return not iri_ref_ok(w + "d") and _all_bad(failure, tag, lambda s: not iri_ref_ok(s))
        if _bk(kind) == "pname":
            # the local part ran into a `<`: what follows was read as an (unvalidated) IRIREF
            b = _bad(failure, tag)
            return "<" in w and b is not None and all(not iri_ref_ok(s) for s in b)
        return False
    d = _doc(failure)
    if d:
        syn, text, has_base = d
        return (syn == "gtrig" and not has_base and any(not iri_ref_ok(i) for i in _irirefs(text))
                and _all_bad(failure, tag, lambda s: not iri_ref_ok(s)))
    return False


@predicate
def c08_gtrig_relative_datatype(failure):
    """generalized TriG: a relative prefix namespace makes a relative datatype IRI; the accessor's
    debug_assert!(Iri::new(datatype)) fires (dev builds only; the release value is a valid IriRef)"""
    if _field(failure) != ("FAIL.accessor_panic", "datatype"):
        return False
    rel_only = lambda s: iri_ref_ok(s) and not iri_ref_ok(s, absolute=True)   # noqa: E731
    x = _tok(failure)
    if x:
        syn, kind, w = x
        return syn == "gtrig" and kind == "pname_dt" and rel_only(w + "d") and _all_bad(failure, "d", rel_only)
    r = _rel(failure)
    if r:
        # `@prefix p: <ref>` is resolved only when the document has a base; `cfg` without ... always has one
        return False
    d = _doc(failure)
    if d:
        syn, text, has_base = d
        b = _bad(failure, "d")
        return (syn == "gtrig" and not has_base and b is not None and all(rel_only(s) for s in b)
                and any(rel_only(ns) or ns == "" for _, ns in _prefixes(text)))
    return False


# PN_CHARS_BASE / XML NameChar code points that are not RFC 3987 ucschar
_PN_BAD_CHARS = re.compile("[\uFFF0-\uFFFD\U0001FFFE\U0001FFFF\U0002FFFE\U0002FFFF\U0003FFFE\U0003FFFF\U0004FFFE\U0004FFFF\U0005FFFE\U0005FFFF\U0006FFFE\U0006FFFF\U0007FFFE\U0007FFFF\U0008FFFE\U0008FFFF\U0009FFFE\U0009FFFF\U000AFFFE\U000AFFFF\U000BFFFE\U000BFFFF\U000CFFFE\U000CFFFF\U000DFFFE\U000DFFFF\U000EFFFE\U000EFFFF\U000E0000-\U000E0FFF]")


@predicate
def c08_pname_unvalidated(failure):
    """Turtle / TriG / GTriG prefixed names: namespace ++ local part is returned without IRI validation
    (escaped `\\%`, `\\#`, `//` after a bare scheme, PN_CHARS outside ucschar such as U+FFFD; a namespace that
    is an IRI only on its own, such as `http://[::1]` ++ `a`)"""
    if _field(failure) not in _IRI_BAD_TERM:
        return False
    tag = _iri_tag(failure)
    not_iri = lambda s: not iri_ref_ok(s, absolute=True)   # noqa: E731
    x = _tok(failure)
    if x:
        syn, kind, w = x
        if syn not in _TTL or _bk(kind) != "pname":
            return False
        b = _bad(failure, tag)
        if b is not None:
            # what was handed over is `x:` ++ (a prefix of) the local part, and it is no IRI
            return all(s.startswith("x:") and not_iri(s) for s in b)
        return not_iri("x:" + w)
    r = _rel(failure)
    if r:
        syn, how, kind, base, ref = r
        b = _bad(failure, tag)
        return syn in _TTL and kind == "prefix" and b is not None and all(s.endswith("a") and not_iri(s) for s in b)
    d = _doc(failure)
    if d:
        syn, text, _ = d
        if syn not in _TTL or not _all_bad(failure, tag, not_iri):
            return False
        # some prefixed name carries an escaped '%' or '#', or a name character that is no ucschar
        for m in re.finditer(r"(?<![<\w])[\w.\-]*:((?:[^\s<>\"',;()\[\]{}|^]|\\.)+)", text):
            loc = m.group(1)
            if re.search(r"\\[%#]", loc) or _PN_BAD_CHARS.search(loc):
                return True
        # or a rejected string is a declared namespace followed by a local part, and not written as an IRIREF
        b = _bad(failure, tag) or []
        refs = set(_irirefs(text))
        for s in b:
            if s not in refs and any(s.startswith(ns) and (name + ":") in text for name, ns in _prefixes(text)):
                return True
        return False
    return False


def _xml_unescape(s):
    s = re.sub(r"&#x([0-9A-Fa-f]+);", lambda m: chr(int(m.group(1), 16)) if int(m.group(1), 16) < 0x110000 else "\uFFFD", s)
    s = re.sub(r"&#([0-9]+);", lambda m: chr(int(m.group(1))) if int(m.group(1)) < 0x110000 else "\uFFFD", s)
    return s.replace("&lt;", "<").replace("&gt;", ">").replace("&quot;", '"').replace("&apos;", "'").replace("&amp;", "&")


@predicate
def c08_xml_qname_unvalidated(failure):
    """RDF/XML: namespace name ++ local name of an element / attribute is used as IRI without validation"""
    if _field(failure) not in _IRI_BAD_TERM:
        return False
    tag = _iri_tag(failure)
    not_iri = lambda s: not iri_ref_ok(s, absolute=True)   # noqa: E731
    x = _tok(failure)
    if x:
        syn, kind, w = x
        local = {"xmlns": "p", "type": "T"}.get(kind)
        return (syn == "xml" and local is not None and not_iri(w + local)
                and _all_bad(failure, tag, lambda s: s == w + local))
    d = _doc(failure)
    if d:
        syn, text, _ = d
        if syn != "xml" or not _all_bad(failure, tag, not_iri):
            return False
        decls = {}
        for m in re.finditer(r"""xmlns(?::([^\s=]*))?\s*=\s*(?:"([^"]*)"|'([^']*)')""", text):
            v = _xml_unescape(m.group(2) if m.group(2) is not None else m.group(3))
            if not iri_ref_ok(v + "p", absolute=True):
                return True
            decls.setdefault(m.group(1) or "", v)
        # element / attribute names: the local part is never checked to be an NCName, let alone to
        # make an IRI when appended to the namespace name (control characters, quotes, a second '#', ...)
        names = [m.group(1).rstrip("/") for m in re.finditer(r"</?([^ \t\n\r>]+)", text)]
        names += [m.group(1) for m in re.finditer(r"[ \t\n\r]([^ \t\n\r=>/]+)[ \t\n\r]*=", text)]
        for n in names:
            if n.startswith(("?", "!")) or n.startswith("xml"):
                continue
            prefix, _, local = n.partition(":") if ":" in n else ("", "", n)
            ns = decls.get(prefix)
            if ns is not None and not iri_ref_ok(ns + local, absolute=True):
                return True
        return False
    return False


def _bad_dots(w):
    return w.endswith(".") or ".." in w


@predicate
def c08_xml_nodeid_dots(failure):
    """RDF/XML: rdf:nodeID is any NCName (may end in '.' or contain '..'); BnodeId follows Turtle's BLANK_NODE_LABEL"""
    if _field(failure) not in (("FAIL.accessor_panic", "bnode_id"), ("FAIL.invalid_term", "bnode")):
        return False
    if not _all_bad(failure, "b", _bad_dots):
        return False
    x = _tok(failure)
    if x:
        syn, kind, w = x
        return syn == "xml" and _bk(kind) == "nodeid" and _bad_dots(w)
    d = _doc(failure)
    if d:
        syn, text, _ = d
        return syn == "xml" and any(_bad_dots(_xml_unescape(v)) for v in re.findall(r"""nodeID\s*=\s*["']([^"']*)["']""", text))
    return False


# PN_CHARS
_NAME_CONT = re.compile("[A-Za-z0-9_\\-\u00B7\u00C0-\u00D6\u00D8-\u00F6\u00F8-\u037D\u037F-\u1FFF\u200C\u200D\u203F\u2040"
                        "\u2070-\u218F\u2C00-\u2FEF\u3001-\uD7FF\uF900-\uFDCF\uFDF0-\uFFFD\U00010000-\U000EFFFF]")


@predicate
def c08_ttl_bnode_trailing_dot(failure):
    """Turtle family, blank node in object position followed by '.' + non-ASCII non-name character:
    the triple is emitted with a label ending in '.', then the parser reports its error"""
    if _field(failure) != ("FAIL.accessor_panic", "bnode_id"):
        return False
    if not _all_bad(failure, "b", lambda s: s.endswith(".")):
        return False
    t = _parts(failure)
    if len(t) == 5 and t[0] == "trail":
        c = unhex(t[4])
        return t[1] in _TTL and t[2] == "bnode_o" and len(c) == 1 and ord(c) > 0x7F and not _NAME_CONT.match(c)
    text = None
    x = _tok(failure)
    if x and x[0] in _TTL and x[1] == "bnode_o":
        text = "_:" + x[2] + " "
    d = _doc(failure)
    if d and d[0] in _TTL:
        text = d[1]
    if text is None:
        return False
    for lab in re.findall(r"_:[^ \t\n\r]*", text):
        for m in re.finditer(r"\.([^\x00-\x7F])", lab):
            if not _NAME_CONT.match(m.group(1)):
                return True
    return False


@predicate
def c08_generalized_empty_iriref(failure):
    """generalized N-Quads / TriG: `<>` (the empty relative reference) trips a debug assertion of
    rio_turtle's GeneralizedTripleAllocator (empty str == its DUMMY marker); dev builds only"""
    f, det = _field(failure)
    if f != "FAIL.parser_panic":
        return False
    x = _tok(failure)
    if x:
        return x[0] in ("gnq", "gtrig") and (_bk(x[1]) == "iri" or x[1] == "pname_dt") and x[2] == ""
    d = _doc(failure)
    if d:
        syn, text, has_base = d
        return syn in ("gnq", "gtrig") and not has_base and "dummy" in det and re.search(r"<>", text) is not None
    return False


_IP_LITERAL = re.compile(r"//(?:[^/?#@]*@)?\[")
_JSONLD_IRI_KINDS = ("iri", "iri_o", "type", "dtype", "graph", "vocab", "term")


@predicate
def c08_jsonld_iref_wider(failure):
    """JSON-LD: IRIs are validated by the iref crate, which accepts IP literals IRI_REGEX rejects
    (`http://[1.2.3.4]`, dotted quads with leading zeros); ArcIri::new_unchecked then unwraps (dev) / lies (release)"""
    f, det = _field(failure)
    if f != "FAIL.parser_panic":
        return False
    x = _tok(failure)
    if x:
        syn, kind, w = x
        if kind == "vocab":
            w = w + "p"
        return (_fam(syn) == "jsonld" and kind in _JSONLD_IRI_KINDS and _IP_LITERAL.search(w) is not None
                and not iri_ref_ok(w, absolute=True))
    r = _rel(failure)
    if r:
        syn, how, kind, base, ref = r
        return (_fam(syn) == "jsonld" and "Invalid" in det
                and any(_IP_LITERAL.search(s) and not iri_ref_ok(s) for s in (base, ref)))
    d = _doc(failure)
    if d:
        syn, text, _ = d
        return (_fam(syn) == "jsonld" and "Invalid" in det or False) and any(
            _IP_LITERAL.search(s) and not iri_ref_ok(s, absolute=True) for s in re.findall(r'"([^"]*)"', text))
    return False


_IPV4_TAIL_LITERAL = re.compile(r"//(?:[^/?#@]*@)?\[([0-9A-Fa-f:]*[0-9]+\.[0-9.]*)\]")


def _short_ipv4_tail(s):
    """an IP literal with a dotted-quad tail that is no IPv6 address (too few groups before the tail, no `::`)"""
    for m in _IPV4_TAIL_LITERAL.finditer(s):
        try:
            ipaddress.IPv6Address(m.group(1))
        except ValueError:
            return True
    return False


@predicate
def c08_jsonld_iref_ipv6_debug_assert(failure):
    """JSON-LD: iref 2.2.3 parse_ipv6_literal accepts a dotted quad after fewer than six h16 groups without `::`
    (`[1:2:3:4:5:1.2.3.4]`, `[1.2.3.4]`) and trips its own debug_assert_eq!(lhs_shift, 32) on it (dev builds)"""
    f, det = _field(failure)
    if f != "FAIL.parser_panic":
        return False
    msg = re.fullmatch(r"assertionleftrightfailedleft\d+right32", det) is not None
    x = _tok(failure)
    if x:
        syn, kind, w = x
        return _fam(syn) == "jsonld" and kind in _JSONLD_IRI_KINDS and _short_ipv4_tail(w)
    r = _rel(failure)
    if r:
        syn, how, kind, base, ref = r
        return _fam(syn) == "jsonld" and msg and (_short_ipv4_tail(base) or _short_ipv4_tail(ref))
    d = _doc(failure)
    if d:
        return _fam(d[0]) == "jsonld" and msg and any(_short_ipv4_tail(t) for t in re.findall(r'"([^"]*)"', d[1]))
    return False


_EMPTY_SUBTAG = re.compile(r"^-|--|-$")


@predicate
def c08_jsonld_langtag_empty_subtag(failure):
    """JSON-LD: the langtag crate accepts some tags with an EMPTY subtag ('en--a-bc', 'en--abcde', '-ZZz');
    ArcTag::new_unchecked -> LanguageTag::new_unchecked uses assert! and panics, in release builds too"""
    f, det = _field(failure)
    if f != "FAIL.parser_panic":
        return False
    x = _tok(failure)
    if x:
        return _fam(x[0]) == "jsonld" and x[1] in ("lang", "dir_lang", "ctx_lang") and _EMPTY_SUBTAG.search(x[2]) is not None
    d = _doc(failure)
    if d:
        # `LanguageTag::new_unchecked` asserts: whatever the wording of the assertion
        return (_fam(d[0]) == "jsonld" and det.startswith("assertionfailed")
                and any(_EMPTY_SUBTAG.search(t) for t in re.findall(r'"@language"\s*:\s*"([^"]*)"', d[1])))
    return False


_ROOTLESS = re.compile(r"[A-Za-z][A-Za-z0-9+.\-]*:(?!/)")


@predicate
def c08_jsonld_base_dotdot_overflow(failure):
    """JSON-LD: resolving a reference with more '..' than the rootless (or empty) path of an @base has
    segments panics with 'attempt to subtract with overflow' (iref; dev builds)"""
    f, det = _field(failure)
    if f != "FAIL.parser_panic" or "subtractwithoverflow" not in det:
        return False
    r = _rel(failure)
    if r:
        syn, how, kind, base, ref = r
        return _fam(syn) == "jsonld" and _ROOTLESS.match(base) is not None and ".." in ref
    d = _doc(failure)
    if not d or _fam(d[0]) != "jsonld":
        return False
    text = d[1]
    m = re.search(r'"@base"\s*:\s*"([^"]*)"', text)
    return m is not None and _ROOTLESS.match(m.group(1)) is not None and ".." in text


def _deep(failure):
    t = _parts(failure)
    if len(t) == 4 and t[0] == "deep" and failure.get("field") == "FAIL.abort" and "sig=6" in failure.get("impl", ""):
        return t[1], t[2], int(t[3])
    return None


@predicate
def c08_deep_gtrig_stack_overflow(failure):
    """generalized TriG: recursive descent without the nesting guard the other Rio parsers have
    (MAX_STACK_SIZE) overflows the stack"""
    x = _deep(failure)
    return bool(x) and x[0] == "gtrig" and x[2] >= 900 and x[1] in (
        "bnode_list", "open_bracket", "quoted_s", "quoted_o", "open_quoted", "collection", "collection_s", "open_paren")


@predicate
def c08_deep_jsonld_stack_overflow(failure):
    """JSON-LD: expansion / node-map generation recurse on nesting depth and overflow the stack"""
    x = _deep(failure)
    return bool(x) and x[0] == "jsonld" and x[2] >= 40 and x[1] in ("arrays", "objects", "lists", "graphs")


# ---------------------------------------------------------------- model search

_OBLIGATION_REQS = {
    "rio_bnode": [("nt", "bnode"), ("nq", "bnode_o"), ("ttl", "bnode"), ("trig", "bnode"), ("gnq", "bnode"), ("gtrig", "bnode")],
    "rio_var": [("gnq", "var"), ("gtrig", "var")],
    "rio_lang": [("nt", "lang"), ("nq", "lang"), ("ttl", "lang"), ("trig", "lang"), ("gnq", "lang"), ("gtrig", "lang"), ("xml", "lang")],
    "jsonld_bnode": [],
    "xml_nodeid_nodot": [("xml", "nodeid")],
    "oxiri_abs": [("nt", "iri"), ("nq", "iri"), ("ttl", "iri"), ("trig", "iri"), ("xml", "iri"), ("nt", "dt"), ("ttl", "dt")],
    "oxiri_ref": [("gnq", "iri")],
    "gtrig_iri": [("gtrig", "iri")],
    "ttl_pname": [("ttl", "pname"), ("trig", "pname"), ("gtrig", "pname")],
    "xml_nodeid": [("xml", "nodeid")],
    "xml_qname": [("xml", "xmlns")],
    "jsonld_bnode_pred": [("jsonld@gen", "bnode_p")],
    "jsonld_bnode_pred_nocolon": [("jsonld@gen", "bnode_p")],
}


def _hex(s):
    return s.encode().hex() or "_"


def _c08_witness_requests(lines):
    """driver reply to `witness` -> tok/base requests for each witness word and its single-character
    neighbours (deletions), in every syntax sharing the recogniser"""
    reqs = []
    for l in lines:
        for k, v in kv(l).items():
            if not v or v == "none":
                continue
            w = unhex(v)
            words = [w] + [w[:i] + w[i + 1:] for i in range(len(w))]
            if k == "base":
                reqs += ["base " + _hex(x) for x in words]
            elif k == "ttl_bnode_obj":
                for syn in _TTL:
                    reqs += ["trail %s bnode_o %s %s" % (syn, _hex(x.rstrip(".")), _hex("\u00D7")) for x in words if x.rstrip(".")]
            for syn, kind in _OBLIGATION_REQS.get(k, []):
                reqs += ["tok %s %s %s" % (syn, kind, _hex(x)) for x in words]
    return reqs


CONFIG["model_search"] = {"ask": ["witness"], "to_requests": _c08_witness_requests}
