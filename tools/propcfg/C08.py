"""C08 configuration, known-finding predicates, model-search hook.

The proof part of C08 is the token-language CONTRACT between parser back-ends and toolkit
validators; totality of the third-party parsers on arbitrary bytes is explored, not proved."""
import ipaddress
import re
from props import predicate, kv, unhex


CONFIG = {
    "design_ref": "4.8",
    "technique": "Lean 4 proof: verified regex-inclusion decision procedure (Antimirov derivatives + checked "
                 "simulation certificate) deciding, per (syntax, token kind), back-end token language (hand model of "
                 "rio_turtle / oxiri / oxilangtag / rio_xml / rdf-types recognisers) <= toolkit validator language "
                 "(regexes regenerated from /repo on every run); back-end models tied to the real crates by a "
                 "differential through minimal isolating documents; plus exploration (mutation corpus, deep nesting in "
                 "child processes) of parser totality",
    "level_text": "Proof (unbounded, all strings) of the token-language contract: for blank node labels, variable names "
                  "and language tags emitted by the Rio back-ends, for generated JSON-LD labels, for every IRI / IRI reference "
                  "checked by oxiri (N-Triples, N-Quads, generalized N-Quads, Turtle/TriG IRIREFs, RDF/XML IRI attributes), "
                  "and for the configured base (Iri::new => oxiri::Iri::parse(..).unwrap() "
                  "cannot fail), the back-end language is included in the validator language regenerated from /repo "
                  "(soundness of the decision procedure kernel-checked; each per-regex obligation evaluated by native_decide). "
                  "Where the inclusion is FALSE (unvalidated prefixed names / GTriG IRIREFs / "
                  "RDF-XML qualified names, rdf:nodeID with trailing or double dots, Turtle-family object labels with a "
                  "trailing dot) the full statement is refuted by a kernel-checked witness and reported as a finding with "
                  "the witness document. rio/src/parser.rs error mapping: a small model (scripted back-end, failing callback), proved "
                  "never to panic and to surface back-end errors as SourceError, tied to the three real Source wrappers by "
                  "a differential with scripted rio_api parsers. Exploration-strength support ONLY (no proof) for the rest of the property: "
                  "termination, panic-freedom and stack use of the third-party parsers (rio_turtle, rio_xml/quick-xml, "
                  "json-ld/json-syntax/iref) on arbitrary bytes is checked on a mutation corpus (every single-byte "
                  "deletion / insertion / flip / truncation of valid documents per syntax, invalid UTF-8, structural "
                  "near-misses, cross-syntax input, random bytes, very long tokens) and on nesting depths 16..10^5 run in "
                  "child processes, collecting every accessor of every yielded term in a dev build.",
    "level_note": "Trusted: hand models of third-party recognisers (lean/SophiaModel/Model/Backend.lean; std's "
                  "Ipv6Addr::from_str modelled as the RFC 3986 IPv6address production), tied by the `tok`/`trail`/`base` "
                  "differential only; native_decide for the inclusion obligations; extract.py regex translator. JSON-LD "
                  "IRIs (iref) and language tags (langtag crate) have no Lean model: exploration only. Behaviour after the "
                  "first stream error (calling try_for_some_item again) is not explored. Harness is a dev build "
                  "(debug assertions on), 8 MiB stack for nesting runs; release builds are not run.",
    "tables": ["regexes"],
    "lean_targets": ["SophiaProofs.Props.C08", "SophiaProofs.Audit.C08"],
    "theorems": ["rio_bnode_sub_validator", "rio_var_sub_validator", "rio_lang_sub_validator",
                 "jsonld_bnode_sub_validator", "base_unwrap_safe",
                 "oxiri_abs_sub_validator", "oxiri_ref_sub_validator",
                 "gtrig_iri_sub_validator_refuted", "ttl_pname_sub_validator_refuted",
                 "xml_qname_sub_validator_refuted", "xml_nodeid_sub_validator_refuted",
                 "xml_nodeid_sub_validator_partial", "ttl_bnode_obj_sub_validator_refuted",
                 "glue_no_unwrap", "glue_source_error", "glue_end"],
    "native_ok": ["rio_bnode_sub_validator", "rio_var_sub_validator", "rio_lang_sub_validator",
                  "jsonld_bnode_sub_validator", "base_unwrap_safe", "oxiri_abs_sub_validator",
                  "oxiri_ref_sub_validator", "xml_nodeid_sub_validator_partial"],
    "trivial_re": r"^accepted=0( emitted=none)?$|^new=0$|^skip|^bad-",
    "rule": "tok: tokens sampled from the validator regexes of /repo (HIR of BNODE_ID, VARNAME, LANG_TAG, IRI_REGEX, "
            "IRELATIVE_REF_REGEX read from the working tree), from Rust-side grammars of the back-end languages (name "
            "alphabets with every class boundary +-1, BCP47 shapes incl. grandfathered/private-use/extensions, PN_LOCAL "
            "with escapes), single-character mutants of both, and fixed corpora (IPv6 / IPvFuture shapes, empty segments, "
            "percent escapes, non-ASCII labels and tags); each driven through the smallest document isolating the "
            "recogniser, rotating over the syntaxes that share it. trail: label/variable followed by '.'+non-name "
            "non-ASCII character. base: Iri::new-accepted strings as configured base of Turtle/TriG/GTriG/RDF-XML parsers. "
            "glue: every script of <=3 parse_step calls over {0,1,2 items} x {ok, parser error} with the callback failing at "
            "each item (sampled in quick), through StrictRioTripleSource / StrictRioQuadSource / GeneralizedRioSource. "
            "doc (exploration, no model): 19 valid seed documents over 8 syntaxes; every truncation, every single-byte "
            "deletion, per position random insertion (syntax characters of all formats, UTF-8 fragments valid and invalid) "
            "and bit flip / byte replacement, chunk deletion/duplication/reversal, cross-syntax input, random bytes; "
            "1/8 of insertions also with a configured base. deep/long (exploration, child process): nesting of quoted "
            "triples, collections, property lists, XML elements, JSON arrays/objects/@list/@graph at depths 16, 10^3 "
            "(quick) .. 10^5 (thorough); tokens / statement counts of 10^5 (10^6 thorough). Non-trivial = the token was "
            "accepted (or the case is an exploration case); distinct = distinct request lines",
    "trusted_base": ["hand models of rio_turtle 0.8.6, oxiri 0.2.11, oxilangtag 0.1.6, rio_xml 0.8.6, rdf-types 0.15.4 token "
                     "recognisers in lean/SophiaModel/Model/Backend.lean (tied by differential only)",
                     "std::net::Ipv6Addr::from_str modelled as RFC 3986 IPv6address",
                     "regex crate semantics for the supported syntax subset (C09 cross-checks the translator per case)"],
    "assumptions": ["dev build (debug assertions on, overflow checks on) as built by `cargo test`; nesting runs on an "
                    "8 MiB thread stack in a child process",
                    "streams are consumed as Source::try_for_each_item does: the first error ends the stream",
                    "JSON-LD without remote contexts (NoLoader)"],
    "exec_timeout": 3000,
}


# ---------------------------------------------------------------- an RFC 3987 checker for predicates
# (independent of the Lean side: predicates must be able to say "this string is not an IRI")

_UCS = ("\u00A0-\uD7FF\uF900-\uFDCF\uFDF0-\uFFEF\U00010000-\U0001FFFD\U00020000-\U0002FFFD\U00030000-\U0003FFFD"
        "\U00040000-\U0004FFFD\U00050000-\U0005FFFD\U00060000-\U0006FFFD\U00070000-\U0007FFFD\U00080000-\U0008FFFD"
        "\U00090000-\U0009FFFD\U000A0000-\U000AFFFD\U000B0000-\U000BFFFD\U000C0000-\U000CFFFD\U000D0000-\U000DFFFD"
        "\U000E1000-\U000EFFFD")
_IUS = r"A-Za-z0-9\-._~!$&'()*+,;=" + _UCS
_PCT = r"%[0-9A-Fa-f]{2}"
_PRIV = "\uE000-\uF8FF\U000F0000-\U000FFFFD\U00100000-\U0010FFFD"
_RE_USERINFO = re.compile(r"(?:[%s:]|%s)*\Z" % (_IUS, _PCT))
_RE_REGNAME = re.compile(r"(?:[%s]|%s)*\Z" % (_IUS, _PCT))
_RE_PATH = re.compile(r"(?:[%s:@/]|%s)*\Z" % (_IUS, _PCT))
_RE_SEG_NC = re.compile(r"(?:[%s@]|%s)*\Z" % (_IUS, _PCT))
_RE_QUERY = re.compile(r"(?:[%s:@/?%s]|%s)*\Z" % (_IUS, _PRIV, _PCT))
_RE_FRAG = re.compile(r"(?:[%s:@/?]|%s)*\Z" % (_IUS, _PCT))
_RE_SPLIT = re.compile(r"(?:([A-Za-z][A-Za-z0-9+.\-]*):)?(?://([^/?#]*))?([^?#]*)(?:\?([^#]*))?(?:#(.*))?\Z", re.S)
_RE_VFUT = re.compile(r"[vV][0-9A-Fa-f]+\.[A-Za-z0-9\-._~!$&'()*+,;=:]+\Z")


def _host_ok(h, v_any=False):
    if h.startswith("["):
        if not h.endswith("]"):
            return False
        ip = h[1:-1]
        if _RE_VFUT.match(ip):          # upper- or lower-case marker (as IRI_REGEX since /repo 94adeaf)
            return True
        if not re.match(r"[0-9A-Fa-f:.]*\Z", ip):
            return False
        try:
            ipaddress.IPv6Address(ip)
            return True
        except ValueError:
            return False
    return _RE_REGNAME.match(h) is not None


def iri_ref_ok(s, absolute=False, v_any=False):
    """RFC 3987 IRI-reference (IRI if `absolute`), as sophia's regexes spell it"""
    if "\n" in s or "\r" in s:
        return False
    m = _RE_SPLIT.match(s)
    if not m:
        return False
    scheme, auth, path, query, frag = m.groups()
    if absolute and scheme is None:
        return False
    if scheme is None and s.startswith(":"):
        return False
    if auth is not None:
        ui, at, hp = auth.rpartition("@")
        if at and not _RE_USERINFO.match(ui):
            return False
        host, port = hp, ""
        mm = re.match(r"(\[[^\]]*\]|[^:\[\]]*)(?::(.*))?\Z", hp, re.S)
        if not mm:
            return False
        host, port = mm.group(1), mm.group(2) or ""
        if not re.match(r"[0-9]*\Z", port) or not _host_ok(host, v_any):
            return False
        if path and not path.startswith("/"):
            return False
    else:
        if path.startswith("//"):
            return False
        if scheme is None and path and not path.startswith("/"):
            if not _RE_SEG_NC.match(path.split("/", 1)[0]):
                return False
    if not _RE_PATH.match(path):
        return False
    if query is not None and not _RE_QUERY.match(query):
        return False
    if frag is not None and not _RE_FRAG.match(frag):
        return False
    return True


# ---------------------------------------------------------------- request decoding

def _parts(failure):
    t = failure["request"].split()
    return t


def _tok(failure):
    """(syn, kind, token) of a tok request, else None"""
    t = _parts(failure)
    if len(t) == 4 and t[0] == "tok":
        return t[1], t[2], unhex(t[3])
    return None


def _doc(failure):
    """(syn, text, has_base) of a doc request, else None"""
    t = _parts(failure)
    if len(t) in (3, 4) and t[0] == "doc":
        raw = b"" if t[2] == "_" else bytes.fromhex(t[2])
        return t[1], raw.decode("utf-8", "replace"), len(t) == 4
    return None


def _field(failure):
    return failure.get("field", ""), failure.get("detail", "")


_TTL = ("ttl", "trig", "gtrig")
_RIO = ("nt", "nq", "ttl", "trig", "gnq", "gtrig", "xml")
_IRI_BAD_TERM = (("FAIL.accessor_panic", "iri"), ("FAIL.accessor_panic", "datatype"), ("FAIL.invalid_term", "iri"),
                 ("FAIL.invalid_term", "datatype"))



def _unescape_iriref(s):
    def u(m):
        try:
            return chr(int(m.group(1) or m.group(2), 16))
        except ValueError:
            return "\uFFFD"
    return re.sub(r"\\u([0-9A-Fa-f]{4})|\\U([0-9A-Fa-f]{8})", u, s)


def _irirefs(text):
    """contents of IRIREF tokens of a Turtle-family document: `<` up to the next `>` (rio's parse_iriref
    stops at nothing else), for a `<` that does not open a quoted triple; after a prefix / base
    directive the token starts at the first `<` whatever follows"""
    out = []
    for m in re.finditer(r"(?<!<)<(?!<)([^>\n\r]*)>", text):
        out.append(_unescape_iriref(m.group(1)))
    for m in re.finditer(r"(?:@prefix|@base|PREFIX|BASE)\s*[^\s<]*\s*<([^>\n\r]*)>", text, re.I):
        out.append(_unescape_iriref(m.group(1)))
    return out


@predicate
def c08_gtrig_unvalidated_iriref(failure):
    """generalized TriG without base: IRIREF text is handed over without consulting an IRI parser
    (also as prefix namespace, then carried into every prefixed name)"""
    if _field(failure) not in _IRI_BAD_TERM:
        return False
    x = _tok(failure)
    if x:
        syn, kind, w = x
        if syn != "gtrig":
            return False
        if kind == "iri":
            return not iri_ref_ok(w)
        if kind == "pname_dt":
            return not iri_ref_ok(w + "d")
        return False
    d = _doc(failure)
    if d:
        syn, text, has_base = d
        return syn == "gtrig" and not has_base and any(not iri_ref_ok(i) for i in _irirefs(text))
    return False


@predicate
def c08_gtrig_relative_datatype(failure):
    """generalized TriG: a relative prefix namespace makes a relative datatype IRI; the accessor's
    debug_assert!(Iri::new(datatype)) fires (dev builds only; the release value is a valid IriRef)"""
    if _field(failure) != ("FAIL.accessor_panic", "datatype"):
        return False
    x = _tok(failure)
    if not x:
        return False
    syn, kind, w = x
    return syn == "gtrig" and kind == "pname_dt" and iri_ref_ok(w + "d") and not iri_ref_ok(w + "d", absolute=True)


# PN_CHARS_BASE / XML NameChar code points that are not RFC 3987 ucschar
_PN_BAD_CHARS = re.compile("[\uFFF0-\uFFFD\U0001FFFE\U0001FFFF\U0002FFFE\U0002FFFF\U0003FFFE\U0003FFFF\U0004FFFE\U0004FFFF\U0005FFFE\U0005FFFF\U0006FFFE\U0006FFFF\U0007FFFE\U0007FFFF\U0008FFFE\U0008FFFF\U0009FFFE\U0009FFFF\U000AFFFE\U000AFFFF\U000BFFFE\U000BFFFF\U000CFFFE\U000CFFFF\U000DFFFE\U000DFFFF\U000EFFFE\U000EFFFF\U000E0000-\U000E0FFF]")


@predicate
def c08_pname_unvalidated(failure):
    """Turtle / TriG / GTriG prefixed names: namespace ++ local part is returned without IRI validation
    (escaped `\\%`, `\\#`, `//` after a bare scheme, PN_CHARS outside ucschar such as U+FFFD)"""
    if _field(failure) not in _IRI_BAD_TERM:
        return False
    x = _tok(failure)
    if x:
        syn, kind, w = x
        return syn in _TTL and kind == "pname" and not iri_ref_ok("x:" + w, absolute=True)
    d = _doc(failure)
    if d:
        syn, text, _ = d
        if syn not in _TTL:
            return False
        # some prefixed name carries an escaped '%' or '#', or a name character that is no ucschar
        for m in re.finditer(r"(?<![<\w])[\w.\-]*:((?:[^\s<>\"',;()\[\]{}|^]|\\.)+)", text):
            loc = m.group(1)
            if re.search(r"\\[%#]", loc) or _PN_BAD_CHARS.search(loc):
                return True
        return False
    return False


def _xml_unescape(s):
    s = re.sub(r"&#x([0-9A-Fa-f]+);", lambda m: chr(int(m.group(1), 16)) if int(m.group(1), 16) < 0x110000 else "\uFFFD", s)
    s = re.sub(r"&#([0-9]+);", lambda m: chr(int(m.group(1))) if int(m.group(1)) < 0x110000 else "\uFFFD", s)
    return s.replace("&lt;", "<").replace("&gt;", ">").replace("&quot;", '"').replace("&apos;", "'").replace("&amp;", "&")


@predicate
def c08_xml_qname_unvalidated(failure):
    """RDF/XML: namespace name ++ local name of an element / attribute is used as IRI without validation"""
    if _field(failure) not in _IRI_BAD_TERM:
        return False
    x = _tok(failure)
    if x:
        syn, kind, w = x
        return syn == "xml" and kind == "xmlns" and not iri_ref_ok(w + "p", absolute=True)
    d = _doc(failure)
    if d:
        syn, text, _ = d
        if syn != "xml":
            return False
        decls = {}
        for m in re.finditer(r"""xmlns(?::([^\s=]*))?\s*=\s*(?:"([^"]*)"|'([^']*)')""", text):
            v = _xml_unescape(m.group(2) if m.group(2) is not None else m.group(3))
            if not iri_ref_ok(v + "p", absolute=True):
                return True
            decls.setdefault(m.group(1) or "", v)
        # element / attribute names: the local part is never checked to be an NCName, let alone to
        # make an IRI when appended to the namespace name (control characters, quotes, a second '#', ...)
        names = [m.group(1).rstrip("/") for m in re.finditer(r"</?([^ \t\n\r>]+)", text)]
        names += [m.group(1) for m in re.finditer(r"[ \t\n\r]([^ \t\n\r=>/]+)[ \t\n\r]*=", text)]
        for n in names:
            if n.startswith(("?", "!")) or n.startswith("xml"):
                continue
            prefix, _, local = n.partition(":") if ":" in n else ("", "", n)
            ns = decls.get(prefix)
            if ns is not None and not iri_ref_ok(ns + local, absolute=True):
                return True
        return False
    return False


def _bad_dots(w):
    return w.endswith(".") or ".." in w


@predicate
def c08_xml_nodeid_dots(failure):
    """RDF/XML: rdf:nodeID is any NCName (may end in '.' or contain '..'); BnodeId follows Turtle's BLANK_NODE_LABEL"""
    if _field(failure) not in (("FAIL.accessor_panic", "bnode_id"), ("FAIL.invalid_term", "bnode")):
        return False
    x = _tok(failure)
    if x:
        syn, kind, w = x
        return syn == "xml" and kind == "nodeid" and _bad_dots(w)
    d = _doc(failure)
    if d:
        syn, text, _ = d
        return syn == "xml" and any(_bad_dots(_xml_unescape(v)) for v in re.findall(r"""nodeID\s*=\s*["']([^"']*)["']""", text))
    return False


# PN_CHARS
_NAME_CONT = re.compile("[A-Za-z0-9_\\-\u00B7\u00C0-\u00D6\u00D8-\u00F6\u00F8-\u037D\u037F-\u1FFF\u200C\u200D\u203F\u2040"
                        "\u2070-\u218F\u2C00-\u2FEF\u3001-\uD7FF\uF900-\uFDCF\uFDF0-\uFFFD\U00010000-\U000EFFFF]")


@predicate
def c08_ttl_bnode_trailing_dot(failure):
    """Turtle family, blank node in object position followed by '.' + non-ASCII non-name character:
    the triple is emitted with a label ending in '.', then the parser reports its error"""
    if _field(failure) != ("FAIL.accessor_panic", "bnode_id"):
        return False
    t = _parts(failure)
    if len(t) == 5 and t[0] == "trail":
        c = unhex(t[4])
        return t[1] in _TTL and t[2] == "bnode_o" and len(c) == 1 and ord(c) > 0x7F and not _NAME_CONT.match(c)
    text = None
    x = _tok(failure)
    if x and x[0] in _TTL and x[1] == "bnode_o":
        text = "_:" + x[2] + " "
    d = _doc(failure)
    if d and d[0] in _TTL:
        text = d[1]
    if text is None:
        return False
    for lab in re.findall(r"_:[^ \t\n\r]*", text):
        for m in re.finditer(r"\.([^\x00-\x7F])", lab):
            if not _NAME_CONT.match(m.group(1)):
                return True
    return False


@predicate
def c08_generalized_empty_iriref(failure):
    """generalized N-Quads / TriG: `<>` (the empty relative reference) trips a debug assertion of
    rio_turtle's GeneralizedTripleAllocator (empty str == its DUMMY marker); dev builds only"""
    f, det = _field(failure)
    if f != "FAIL.parser_panic":
        return False
    x = _tok(failure)
    if x:
        return x[0] in ("gnq", "gtrig") and x[1] in ("iri", "pname_dt") and x[2] == ""
    d = _doc(failure)
    if d:
        syn, text, has_base = d
        return syn in ("gnq", "gtrig") and not has_base and "dummy" in det and re.search(r"<>", text) is not None
    return False


@predicate
def c08_jsonld_iref_wider(failure):
    """JSON-LD: IRIs are validated by the iref crate, which accepts IP literals IRI_REGEX rejects
    (`http://[1.2.3.4]`, dotted quads with leading zeros); ArcIri::new_unchecked then unwraps (dev) / lies (release)"""
    f, det = _field(failure)
    if f != "FAIL.parser_panic":
        return False
    x = _tok(failure)
    if x:
        syn, kind, w = x
        return syn == "jsonld" and kind == "iri" and re.search(r"//(?:[^/?#@]*@)?\[", w) is not None and not iri_ref_ok(w, absolute=True)
    d = _doc(failure)
    if d:
        syn, text, _ = d
        return (syn == "jsonld" and "Invalid" in det or False) and any(
            re.search(r"//(?:[^/?#@]*@)?\[", s) and not iri_ref_ok(s, absolute=True) for s in re.findall(r'"([^"]*)"', text))
    return False


_EMPTY_SUBTAG = re.compile(r"^-|--|-$")


@predicate
def c08_jsonld_langtag_empty_subtag(failure):
    """JSON-LD: the langtag crate accepts some tags with an EMPTY subtag ('en--a-bc', 'en--abcde', '-ZZz');
    ArcTag::new_unchecked -> LanguageTag::new_unchecked uses assert! and panics, in release builds too"""
    f, det = _field(failure)
    if f != "FAIL.parser_panic":
        return False
    x = _tok(failure)
    if x:
        return x[0] == "jsonld" and x[1] == "lang" and _EMPTY_SUBTAG.search(x[2]) is not None
    d = _doc(failure)
    if d:
        return (d[0] == "jsonld" and "LANG_TAG" in det
                and any(_EMPTY_SUBTAG.search(t) for t in re.findall(r'"@language"\s*:\s*"([^"]*)"', d[1])))
    return False


@predicate
def c08_jsonld_base_dotdot_overflow(failure):
    """JSON-LD: resolving a reference with more '..' than the rootless (or empty) path of an @base has
    segments panics with 'attempt to subtract with overflow' (iref; dev builds)"""
    f, det = _field(failure)
    if f != "FAIL.parser_panic" or "subtractwithoverflow" not in det:
        return False
    d = _doc(failure)
    if not d or d[0] != "jsonld":
        return False
    text = d[1]
    m = re.search(r'"@base"\s*:\s*"([^"]*)"', text)
    return m is not None and re.match(r"[A-Za-z][A-Za-z0-9+.\-]*:(?!/)", m.group(1)) is not None and ".." in text


def _deep(failure):
    t = _parts(failure)
    if len(t) == 4 and t[0] == "deep" and failure.get("field") == "FAIL.abort" and "sig=6" in failure.get("impl", ""):
        return t[1], t[2], int(t[3])
    return None


@predicate
def c08_deep_gtrig_stack_overflow(failure):
    """generalized TriG: recursive descent without the nesting guard the other Rio parsers have
    (MAX_STACK_SIZE) overflows the stack"""
    x = _deep(failure)
    return bool(x) and x[0] == "gtrig" and x[2] >= 900 and x[1] in (
        "bnode_list", "open_bracket", "quoted_s", "quoted_o", "open_quoted", "collection", "collection_s", "open_paren")


@predicate
def c08_deep_jsonld_stack_overflow(failure):
    """JSON-LD: expansion / node-map generation recurse on nesting depth and overflow the stack"""
    x = _deep(failure)
    return bool(x) and x[0] == "jsonld" and x[2] >= 40 and x[1] in ("arrays", "objects", "lists", "graphs")


# ---------------------------------------------------------------- model search

_OBLIGATION_REQS = {
    "rio_bnode": [("nt", "bnode"), ("nq", "bnode_o"), ("ttl", "bnode"), ("trig", "bnode"), ("gnq", "bnode"), ("gtrig", "bnode")],
    "rio_var": [("gnq", "var"), ("gtrig", "var")],
    "rio_lang": [("nt", "lang"), ("nq", "lang"), ("ttl", "lang"), ("trig", "lang"), ("gnq", "lang"), ("gtrig", "lang"), ("xml", "lang")],
    "jsonld_bnode": [],
    "xml_nodeid_nodot": [("xml", "nodeid")],
    "oxiri_abs": [("nt", "iri"), ("nq", "iri"), ("ttl", "iri"), ("trig", "iri"), ("xml", "iri"), ("nt", "dt"), ("ttl", "dt")],
    "oxiri_ref": [("gnq", "iri")],
    "gtrig_iri": [("gtrig", "iri")],
    "ttl_pname": [("ttl", "pname"), ("trig", "pname"), ("gtrig", "pname")],
    "xml_nodeid": [("xml", "nodeid")],
    "xml_qname": [("xml", "xmlns")],
}


def _hex(s):
    return s.encode().hex() or "_"


def _c08_witness_requests(lines):
    """driver reply to `witness` -> tok/base requests for each witness word and its single-character
    neighbours (deletions), in every syntax sharing the recogniser"""
    reqs = []
    for l in lines:
        for k, v in kv(l).items():
            if not v or v == "none":
                continue
            w = unhex(v)
            words = [w] + [w[:i] + w[i + 1:] for i in range(len(w))]
            if k == "base":
                reqs += ["base " + _hex(x) for x in words]
            elif k == "ttl_bnode_obj":
                for syn in _TTL:
                    reqs += ["trail %s bnode_o %s %s" % (syn, _hex(x.rstrip(".")), _hex("\u00D7")) for x in words if x.rstrip(".")]
            for syn, kind in _OBLIGATION_REQS.get(k, []):
                reqs += ["tok %s %s %s" % (syn, kind, _hex(x)) for x in words]
    return reqs


CONFIG["model_search"] = {"ask": ["witness"], "to_requests": _c08_witness_requests}
