"""C13 configuration, known-finding predicates, model-search hooks."""
from props import predicate, kv, unhex


CONFIG = {
    "design_ref": "4.13",
    "technique": "Lean 4 proof: executable model of sparql/src (exec.rs, bgp.rs, binding.rs, matcher.rs, expression core) "
                 "proved equal to the SPARQL 1.1 algebra (section 18) on the fragment; dispatch table regenerated from "
                 "ExecState::select / SparqlWrapper::query; three-way differential real engine / implementation model / "
                 "specification model on queries parsed by the real spargebra",
    "level_text": "Proof (unbounded: all datasets, patterns, bindings) about the executable model of sparql/src: the recursive BGP matcher "
                  "(pre-filter, all-bound shortcut, populate_bindings on variables / blank placeholders / quoted-triple patterns) returns exactly "
                  "the algebra's pattern instance mappings with their multiplicities and never panics; UNION / FILTER / BIND / GRAPH <iri> / GRAPH ?g (pre-binding = join, for BGP/UNION/FILTER bodies, on every dataset) / "
                  "projection / DISTINCT / OFFSET-LIMIT / ASK equal SPARQL 1.1 section 18; every constructor outside the fragment, CONSTRUCT, "
                  "DESCRIBE and dataset clauses with a `named` list (what the parser produces for any FROM) yield NotImplemented per the dispatch table "
                  "regenerated from exec.rs / wrapper.rs on every run, and a refused operator anywhere outside an EXISTS pattern makes the whole "
                  "query fail (refusal_both). "
                  "The model is tied to the real engine differentially (LightDataset and FastDataset, queries parsed by the real spargebra, "
                  "0 disagreements required). The value-level expression layer is proved too (expr_agree): on rows binding regular terms (everything but "
                  "ill-typed xsd:integer / xsd:boolean literals) every expression of the core except IN (= < > <= >= + - * unary ! && || IF COALESCE "
                  "BOUND sameTerm STR LANG DATATYPE isIRI isBlank isLiteral) yields the same term, value and effective boolean value, or an error, in "
                  "both evaluators; hence { BGP FILTER BIND } over regular data equals the algebra with no hypothesis on the expressions "
                  "(filter_bind_correct); xsd:integer lexical forms are read alike by the transcribed isize/BigInt parsers (integer_lexical). "
                  "Sub-selects, BIND or nested GRAPH ?y inside GRAPH ?g, IN, ill-typed literals inside expressions, and the value-level operators "
                  "(=, <, >, <=, >=, + - * unary, IN, IF, COALESCE, STR, LANG, DATATYPE), FILTER [NOT] EXISTS and programmatic FROM (named: None) are "
                  "covered by the differential against the executable specification only; five deviations there are known findings with "
                  "kernel-checked witnesses (five more were repaired in /repo: e4da433, d984918, 417c435, 8d7de80, f106847; their inputs stay in corpus/C13).",
    "level_note": "Trusted: the transcription of SPARQL 1.1 sections 17/18 (SparqlSpec.lean); the hand-written implementation model "
                  "(Sparql.lean) up to the differential; spargebra; the in-memory store as a quad set (C01). eval_correct is _partial: it "
                  "excludes sub-selects, restricts what may stand inside GRAPH ?g, and assumes ExprOK for expressions under UNION/GRAPH/modifiers (proved outright for BGP+FILTER+BIND over regular data, and for the term-level class everywhere); "
                  "the unrestricted statement is refuted (evalCorrectFull_refuted). Row order is not modelled (OFFSET/LIMIT: size + containment).",
    "tables": ["sparql_dispatch"],
    "lean_targets": ["SophiaProofs.Props.C13", "SophiaProofs.Audit.C13"],
    "theorems": ['bgp_correct', 'bgp_multiset', 'single_graph_nodup', 'body_correct', 'graph_var_correct', 'ask_graph_var_correct', 'eval_correct_partial', 'ask_correct', 'slice_sound', 'dispatch_total', 'unsupported_err', 'fragment_refused', 'dispatch_model', 'query_dispatch', 'refusal_both', 'exists_refused', 'gen_flags', 'no_panic', 'exprOK_termlevel', 'or_and_tables', 'expr_agree', 'expr_agree_hyps_needed', 'filter_bind_agree', 'integer_lexical', 'filter_bind_correct', 'evalD_none', 'evalCorrectFull_refuted', 'dev_graph_prebind', 'dev_proj_leak', 'dev_ebv_illtyped', 'dev_in_strict', 'dev_from_unmerged', 'fixed_empty_named', 'fixed_or_strict', 'fixed_if_ebv', 'fixed_neg_min', 'fixed_exists_swallow'],
    "native_ok": [],
    "trivial_re": r"^skip|errclass=notimpl|rows=0/|^errclass=none ask=0",
    "rule": "per run: ~100 fixed SPARQL texts (every unsupported operator: OPTIONAL, MINUS, VALUES, aggregates/GROUP BY/HAVING, paths, "
            "FROM / FROM NAMED, joins of groups, SERVICE, REDUCED, CONSTRUCT, DESCRIBE, EXISTS; pinned supported shapes) x 3 fixed datasets, "
            "algebra built directly that the parser cannot produce (Extend on an in-scope variable, Distinct/Slice without Project, a placeholder "
            "shared by two BGPs), then datasets of 0..12 quads (default + 2-3 named graphs incl. a blank-node name, triples shared between "
            "graphs, quoted triples, literals of every value class) x 3 queries each from the grammar (<= 4 triple patterns over a 5-variable "
            "pool so that variables repeat, _:x / [] placeholders, << >> patterns nested once, UNION / GRAPH <g> / GRAPH ?g / sub-select / "
            "FILTER / BIND nested to depth 2, DISTINCT, projection incl. unbound variables and (expr AS ?w), ORDER BY, OFFSET/LIMIT, ASK). "
            "Most BGPs are consistent generalisations of triples of the graph they will be matched against (same term -> same "
            "variable, later patterns linked to earlier ones), filters mostly test bound variables against terms of the data. A second "
            "family (about half of the generated queries; every third dataset is 'compact': few terms occurring as subject, object and "
            "predicate) produces rows with DIFFERENT domains: UNION branches over different variables sharing terms, BIND that errs on "
            "some rows, GRAPH ?g / GRAPH <iri> next to default-graph patterns, under DISTINCT / projection of 2-3 variables / ORDER BY / "
            "OFFSET-LIMIT. Effectiveness is measured on the real engine while generating and reported in the stats (eff.*: non-empty "
            "results, >= 2 rows, heterogeneous rows; flow.<operator>.*: rows flowing into each operator, DISTINCT removing rows, "
            "filters keeping some and dropping some, both UNION sides non-empty). "
            "Expressions use the whole modelled core (= < > <= >= + - * unary && || ! IN / NOT IN, IF, COALESCE, BOUND, sameTerm, isIRI/isBlank/"
            "isLiteral, STR, LANG, DATATYPE; integers up to isize::MIN/MAX and beyond), FILTER [NOT] EXISTS correlated through shared variables "
            "(now and then with a refused operator inside), blank-node labels spelled like variables; algebra built directly covers dataset "
            "clauses with named: None. Counters expr.*, alg.* show how often each form occurs. "
            "Texts are parsed by the real spargebra; the request carries the algebra. A case is non-trivial when the engine returns at "
            "least one row / true; distinct = distinct request lines",
    "trusted_base": ["transcription of SPARQL 1.1 sections 17.2-17.4 (core) and 18.3-18.6 in lean/SophiaModel/Model/SparqlSpec.lean",
                     "spargebra 0.3.5 (parser and translation to the algebra): the request carries the algebra it produced",
                     "sophia_inmem quads_matching = filter over the quad set (property C01); LightDataset and FastDataset are both run and must agree",
                     "hand-written implementation model lean/SophiaModel/Model/Sparql.lean (tied by the differential: 0 disagreements required)"],
    "exec_timeout": 3600,
    "assumptions": ["row order is not compared (multisets); Slice is checked by size + containment in the unsliced result",
                    "xsd:integer lexical forms without '_' (num-bigint accepts '1_0'); decimals/floats/doubles/dateTimes/derived integer types "
                    "only take part in pattern matching, requests combining them with an expression are skipped"],
}


def _c13_dev(failure, name):
    if failure.get("kind") != "impl-vs-oracle":
        return False
    I, M = kv(failure["impl"]), kv(failure["model"])
    # the engine's answer must be exactly what the implementation model computes ...
    for k, v in M.items():
        if k.startswith("o.") or k.startswith("k."):
            continue
        if k in I and I[k] != v:
            return False
    if any(k.startswith("FAIL.") or k == "panic" for k in I):
        return False
    # ... and the specification with this deviation (in a smallest explaining set) must give that answer
    return name in M.get("k.dev", "").split("+")


@predicate
def c13_proj_leak(failure):
    """sub-select: Project keeps the hidden variables visible to an outer FILTER / BIND"""
    return _c13_dev(failure, "projLeak")


@predicate
def c13_graph_prebind(failure):
    """GRAPH ?g { P }: ?g is bound while P is evaluated (FILTER/BIND inside see it; BIND AS ?g is refused)"""
    return _c13_dev(failure, "graphPrebind")


@predicate
def c13_ebv_strict(failure):
    """EBV of an ill-typed xsd:integer is an error instead of false"""
    return _c13_dev(failure, "ebvStrict")


@predicate
def c13_in_strict(failure):
    """IN stops at the first element whose comparison errs, although a later element is equal"""
    return _c13_dev(failure, "inStrict")


@predicate
def c13_from_default(failure):
    """QueryDataset { default: [..], named: None } (programmatic only): FROM graphs are not merged and
    GRAPH ?g still ranges over the store's named graphs"""
    if failure.get("kind") != "impl-vs-oracle" or " nonamed " not in failure["request"]:
        return False
    I, M = kv(failure["impl"]), kv(failure["model"])
    if any(k.startswith("FAIL.") or k == "panic" for k in I) or I.get("errclass") != "none":
        return False
    return all(not (k in I and I[k] != v) for k, v in M.items() if not k.startswith(("o.", "k.")))


def _c13_search_requests(lines):
    """driver reply to `search`: one request per line (small instances where the implementation model
    and the specification model differ)"""
    return [l for l in lines if l.startswith("q ")][:2000]


CONFIG["model_search"] = {"ask": ["search"], "to_requests": _c13_search_requests}
