"""C07 configuration, known-finding predicate, model-search hook."""
import itertools
from props import predicate, kv, unhex


CONFIG = {
    "design_ref": "4.7",
    "technique": "Lean 4 proof over a function-by-function transcription of isomorphic_datasets (IsoTerm eq/ord, sort + zip gate, "
                 "b2q map, XOR-combined colour refinement with the hasher and the sort as universally quantified parameters); "
                 "IsoTerm variant regenerated from iso_term.rs; differential on relabelled/shuffled/one-edit pairs over all container types",
    "level_text": "Proof (unbounded: all finite generalized datasets, all hash functions, all sorts meeting the std contract, every fuel) "
                  "for the Lean transcription of isomorphic_datasets/isomorphic_graphs: the answer is symmetric in its arguments; it is "
                  "false whenever the two differ in size, in number of distinct blank nodes, or in the multiset of statements with blank "
                  "nodes blanked out; and on a copy whose blank nodes are renamed by an injective map (anywhere, incl. inside quoted "
                  "triples and graph names) and whose statements are reordered all three gates pass and colour refinement never answers "
                  "false (colours correspond at every round), every answer it gives is true, and an answer does not change with more fuel "
                  "- for the IsoTerm variant /repo has (repo_variant: the regenerated flag is the recursive variant; iso_relabel_repo). "
                  "certOk_sound / groundDiffers_sound state the same for exactly the two tests from which the differential oracle is "
                  "derived. Termination / 'answers true': proved (refine_terminates, iso_relabel_total_partial, certOk_answers_true: "
                  "the answer is `true` within 2n+1 rounds, n = number of blank nodes) under the executable proviso monoRun - the "
                  "number of colour classes of the first argument never decreases from one round to the next; the unrestricted "
                  "statement IsoRelabelTotal is refuted over the model (refine_diverges, iso_relabel_total_fails: a hash function "
                  "under which the loop runs forever on a 3-statement graph compared with itself), so no proof can do without a fact "
                  "about the actual hasher's run. The driver evaluates monoRun on every request (it held on every gate-passing pair "
                  "of the generated runs except the two hand shapes built to break it; on those the loop still stops). "
                  "Tie to /repo: the IsoTerm variant is regenerated on every run (fail-closed extractor); the rest is differential "
                  "(real isomorphic_datasets/isomorphic_graphs, both argument orders, 9 dataset and 9 graph containers incl. ArcTerm/"
                  "RcTerm terms, slices, Gspo tuples, a store after removals, union/single-graph views of a dataset): exact on every case "
                  "whose answer the theorems determine (a gate fails, or certified relabelling), and model-vs-implementation on the "
                  "answer of colour refinement itself for gate-passing pairs without certificate.",
    "level_note": "Trusted: std sort_unstable only through 'permutation, sorted if the comparator is a total preorder' (SortSpec; the "
                  "driver's insertion sort is proved to meet it); DefaultHasher as an arbitrary function of the fed event trace; HashMap/"
                  "BTreeSet as association lists; Term::eq/cmp transcription of C02 (WF guard: untagged literals never rdf:langString). "
                  "Where gates pass and no certificate exists the property fixes no answer; the implementation's answer is then a "
                  "function of the structure alone unless two different event traces collide in 64 bits (SipHash there, a mixing hash in "
                  "the driver), so it is compared as a model field: a difference is reported as a model/implementation disagreement "
                  "(no failing input), never as a property violation. Termination of the real loop under SipHash is not provable "
                  "from the model (the witness hash of refine_diverges cannot be replayed on the implementation: DefaultHasher is "
                  "fixed); it is observed (per-request wall cap) and the monoRun proviso is checked on the model's run. 'Held in a "
                  "different container': proved over the model for every pair of enumerations that list each statement once "
                  "(iso_relabel_any_container; Enumerates = the container contract, checked per request by the harness); that the "
                  "18 real containers meet that contract is differential. A list-like container (Vec, slice) holding one statement several times "
                  "is a dataset with that many statements: such pairs are generated for the list-like containers (dup_* kinds, "
                  "the model and the theorems are over lists, repetitions included); for set-like containers the request is "
                  "skipped (skip=container_content_differs). dataset.rs / hash.rs are hand-transcribed and tied by the differential "
                  "only (gates, refinement answer); only iso_term.rs is regenerated. Error paths are modelled (isoE: first argument traversed first; SourceError / SinkError; isoE_answer_iff, "
                  "isoE_error_iff, isoE_symm) and compared through the driver on fallible dataset and graph containers failing at a "
                  "given index (isoerr requests, both argument orders). A request whose two calls do "
                  "not return within 60 s (normal: < 10 ms) is reported as FAIL.no_termination for that request. "
                  "Former finding (fixed 0aad566): blank node renamed inside a quoted triple => false negative; its refutation "
                  "(iso_relabel_witness, iso_relabel_fails_shallow) is kept in Props/C07.lean but no longer counted. No native_decide.",
    "tables": ["iso_variant"],
    "lean_targets": ["SophiaProofs.Props.C07", "SophiaProofs.Audit.C07"],
    "theorems": ["iso_symm", "iso_false_size", "iso_false_bcount", "iso_false_ground", "iso_relabel", "repo_variant",
                 "iso_relabel_repo", "iso_relabel_answers_true", "certOk_sound", "groundDiffers_sound", "iso_fuel_mono",
                 "refine_terminates", "iso_relabel_total_partial", "certOk_answers_true", "iso_relabel_any_container", "isoE_answer_iff", "isoE_error_iff", "isoE_symm",
                 "refine_diverges",
                 "iso_relabel_total_fails", "iso_relabel_partial", "isort_spec", "bcount_gate_subsumed", "colour_covered"],
    "native_ok": [],
    "trivial_re": r"^n1=0 n2=0 |^skip",
    "rule": "12 hand-made small shapes (2 of them with a decreasing colour-class count), 8 hand-made gate-passing but differently wired pairs (2 regular, 6 separable), 11 families "
            "of larger shapes (chains, cycles, two cycles, stars with identical / marked / quoted leaves, chains through quoted "
            "triples at depth 1-2, one blank graph name shared by 40-120 statements, a component in two copies, sparse random, "
            "binary tree) with 6-40 (thorough 6-64) blank nodes, half of them with one anchored node, every 32nd (thorough 16th) "
            "filled to >= 300 statements; and random strict/generalized datasets of 0-8 (thorough 0-11) statements over <=5 labels. "
            "Per dataset: relabelled+shuffled copy with the renaming fixing / not fixing nested blank nodes (permutation of the "
            "labels, all fresh labels, lexical order inverted, or mixed), then one-edit variants of the copy: one ground term "
            "changed, one statement added / removed, two blank nodes merged, one occurrence split off or rewired, the blank "
            "objects of two statements exchanged; for list-like containers also copies holding a statement 2-3 times (same "
            "repetitions relabelled+shuffled, versus held once, versus another statement repeated); plus unrelated pairs; each pair in a random pair of the 9 dataset (or, when no "
            "statement is named, 9 graph) containers; every 6th random dataset also as an isoerr request (fallible containers failing "
            "at an index inside / beyond the statements, or never); non-trivial = at least one statement; distinct = distinct request lines. "
            "Counters: pair.answer.* (which clause fixes the answer), pair.statements/labels.*, big.*, container.*",
    "trusted_base": ["isomorphism crate transcription lean/SophiaModel/Model/Iso.lean",
                     "oracle tests lean/SophiaModel/Model/IsoOracle.lean and their Rust twins cert_ok / ground_differs (compared on every case)",
                     "std sort_unstable / DefaultHasher / HashMap / BTreeSet contracts as stated in level_note",
                     "tools/extractors/c07.py (shape match of IsoTerm::eq/partial_cmp/cmp, fail-closed)"],
    "assumptions": ["SortSpec: sort_unstable returns a permutation, sorted w.r.t. Ord if Ord is a total preorder on the input",
                    "DefaultHasher::finish is a function of the sequence of values fed to it",
                    "terms are well-formed (an untagged literal never has datatype rdf:langString)"],
    "search_rounds": 2,
    # the harness caps each request at 60 s itself (2 hung requests at most, then skips); this is the outer bound
    "exec_timeout": 1500,
}


# ---------------------------------------------------------------- request parsing (prefix notation of T::render)

def _term(toks, i):
    """-> (term, next index); term = ('b', label) | ('t', s, p, o) | ('a', ...)"""
    k = toks[i]
    if k == "b":
        return ("b", unhex(toks[i + 1])), i + 2
    if k in ("i", "v"):
        return ("a", k, toks[i + 1]), i + 2
    if k in ("l", "g"):
        return ("a", k, toks[i + 1], toks[i + 2]), i + 3
    if k == "t":
        s, i = _term(toks, i + 1)
        p, i = _term(toks, i)
        o, i = _term(toks, i)
        return ("t", s, p, o), i
    raise ValueError(k)


def _quads(toks, i):
    out = []
    while i < len(toks) and toks[i] != "|":
        s, i = _term(toks, i)
        p, i = _term(toks, i)
        o, i = _term(toks, i)
        if toks[i] == "-":
            g, i = None, i + 1
        else:
            g, i = _term(toks, i)
        out.append((s, p, o, g))
    return out, i + 1


def _nested_labels(t, inside, out):
    if t is None:
        return
    if t[0] == "b" and inside:
        out.add(t[1])
    elif t[0] == "t":
        for x in t[1:]:
            _nested_labels(x, True, out)


def parse_request(req):
    toks = req.split()
    if len(toks) < 5 or toks[0] != "iso":
        return None
    beta = {}
    if toks[4] != "-":
        for pr in toks[4].split(","):
            a, b = pr.split(":")
            beta[unhex(a)] = unhex(b)
    d1, i = _quads(toks, 5)
    d2, _ = _quads(toks, i)
    return toks[1], beta, d1, d2


@predicate
def c07_nested_bnode_renamed(failure):
    """false negative on a *certified* relabelled copy in which some renamed blank node occurs inside a
    quoted triple, and which the model of the snapshot's IsoTerm (deep=false) explains: its sorted-zip
    gate fails.  Anything else (e.g. a false negative with only top-level renaming) is not matched."""
    if failure.get("field") not in ("FAIL.false_negative", "iso"):
        return False
    I, M = kv(failure["impl"]), kv(failure["model"])
    if I.get("cert") != "1" or M.get("cert") != "1" or I.get("iso") != "0":
        return False
    if M.get("zip_gate") != "0" or M.get("size_gate") != "1":
        return False
    p = parse_request(failure["request"])
    if not p:
        return False
    _, beta, d1, _ = p
    nested = set()
    for q in d1:
        for t in q:
            _nested_labels(t, False, nested)
    return any(beta.get(b, b) != b for b in nested)


# ---------------------------------------------------------------- model search: small-domain enumeration

def _c07_small_domain(_lines):
    """all pairs of equal-sized datasets with <= 2 statements over 2 labels, one quoted triple shape
    (DESIGN.md 4.7 Search); the renaming certificate offered is the swap b0<->b1"""
    hx = lambda s: s.encode().hex()
    b = ["b " + hx("b0"), "b " + hx("b1")]
    iri = "i " + hx("x:p")
    tr = ["t %s %s i %s" % (x, iri, hx("x:o")) for x in b]
    quads = ["%s %s %s %s" % (s, iri, o, g) for s in b + tr for o in b + [iri] for g in ("-", b[0])]
    sets = [[q] for q in quads] + [list(c) for c in itertools.combinations(quads, 2)]
    beta = "%s:%s,%s:%s" % (hx("b0"), hx("b1"), hx("b1"), hx("b0"))
    cs = ["vec", "hset", "bset", "fast", "light"]
    reqs = []
    k = 0
    for d1 in sets:
        for d2 in sets:
            if len(d1) != len(d2):
                continue
            k += 1
            reqs.append("iso search %s %s %s %s | %s" % (cs[k % 5], cs[(k // 5) % 5], beta, " ".join(d1), " ".join(d2)))
    return reqs


CONFIG["model_search"] = {"ask": ["-"], "to_requests": _c07_small_domain}
