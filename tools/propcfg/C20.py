"""C20 configuration and known-finding predicates."""
from props import predicate, kv, unhex

XSD = "http://www.w3.org/2001/XMLSchema#"

CONFIG = {
    "design_ref": "4.20",
    "technique": "Lean 4 proof over an executable model of api/src/term/_native_literal.rs whose datatype whitelists, "
                 "datatypes and lexical-form shapes are regenerated from the source on every run (tools/extractors/c20.py); "
                 "XSD lexical spaces as regular expressions with a verified inclusion decision procedure; "
                 "differential (real Term / TryFromTerm impls vs compiled model, incl. an exact-arithmetic decimal->binary64 oracle)",
    "level_text": "Proof (all values, unbounded): for every i32 / isize(64-bit) / usize(64-bit) the Display form is in L(xsd:integer) and "
                  "try_from_term(value) = Ok(value); try_from_term on ANY term is characterised (Ok(v) iff literal of a whitelisted "
                  "datatype whose lexical form is a valid xsd:integer form denoting v and v fits; everything else is an error, no "
                  "panic); every whitelisted datatype is derived from xsd:integer (resp. real-valued for f64) and meets the native "
                  "range; bool: both values valid + round trip + parse-denotes; str: valid iff all characters are XML Chars. f64: "
                  "PROOF RELATIVE TO the std contract H1-H4 (Display prints finite values as -?[0-9]+(.[0-9]+)? and parses them back "
                  "bit-exactly; inf/-inf/NaN spellings): finite values valid (regex inclusion in L(xsd:double)) and round trip; "
                  "non-finite values: valid IFF lexical_form special-cases them with XSD spellings, REFUTED for the unrepaired shape "
                  "(\"inf\" not in L(xsd:double)); both are instantiated on the shape regenerated from the CURRENT tree "
                  "(f64_shape_valid, f64_nonfinite_valid, f64_all_values: every bit pattern < 2^64 is a valid xsd:double literal "
                  "and converts back to itself, NaN to a NaN), so a regression of lexical_form fails a proof obligation. "
                  "no_panic with the unwrap made explicit: try_from_term over ANY Term implementation (View) unwinds iff the "
                  "implementation answers lexical_form() but not datatype(); never on a well-formed term (all five types). "
                  "f64 <- arbitrary literal, over the executable model of f64::from_str the driver runs: success iff literal of "
                  "a whitelisted datatype whose lexical form parses; on L(xsd:double) the result is the value the XSD mapping "
                  "gives PROVIDED the exponent is below 655360 (f64_parse_denotes_partial; the bound is sharp: finding "
                  "C20-f64-exponent-clamp). ROUND 3 - H1-H4 discharged over an executable model of `impl Display for f64` "
                  "(RustF64.display: shortest digits that read back, closest first, ties up, digits_to_dec_str layout), compared "
                  "with the implementation's lexical_form() on every generated double: H1 is a theorem (render_matches / "
                  "display_spec: the layout is -?[0-9]+(.[0-9]+)? for all digits and exponents), H2 is a theorem of the model pair "
                  "(display_roundtrip: what display prints, the model of f64::from_str reads back as the same bits; display_denotes: and it "
                  "denotes that value under the XSD lexical-to-value mapping, the differential's oracle), H3 is not "
                  "needed (f64_nonfinite_valid_nohyp, for every printer), H4 is a computation (f64_nonfinite_roundtrip_model); "
                  "stdF64_of_model / f64_all_values_model: every bit pattern < 2^64 is a valid xsd:double literal and converts "
                  "back (NaN to NaN) under the single residual hypothesis DisplayTotal (a decimal of <= 17 digits reads back; "
                  "checked per generated value), f64_finite_model: per value with no hypothesis; H2_necessary / "
                  "H1_or_similar_necessary: kernel witnesses that some contract on the printer is needed. What remains "
                  "differential: that the two models ARE core's Display/FromStr (every generated double's lexical form, every "
                  "parse request), DisplayTotal, and the correct rounding of Dec.nearest. H1-H4 and the model are re-validated against the real implementation on every "
                  "run (differential, not proof).",
    "level_note": "Trusted: hand transcription of the XSD 1.1 lexical spaces and of core's integer Display/FromStr and "
                  "bool::from_str; core's float formatting/parsing only through H1-H4 (checked per run on an edge table + random "
                  "doubles, 60k quick / 1M thorough, and per generated f64 by an independent exact-rational decimal->binary64 "
                  "conversion in Lean); native_decide only for two auxiliary regex obligations (a cross-check of the hand-proved inclusion, and disjointness from the special values) - no property theorem depends on it; isize/usize = 64 bit "
                  "(harness reports the real MIN/MAX each run). Known findings: str containing "
                  "U+0000/U+FFFE/U+FFFF is outside L(xsd:string); f64::try_from_term misreads exponents >= 655360 (core's "
                  "dec2flt drops exponent digits): \"0.<655359 zeros>1e655360\" -> Ok(0.0) instead of 1. Observations (lenient input handling, not counted): success on "
                  "ill-typed literals (\"-5\"^^xsd:positiveInteger -> Ok(-5); \"INF\"^^xsd:decimal, \"infinity\"^^xsd:double -> "
                  "Ok(inf)); \"1\"^^xsd:boolean and \"-0\"^^xsd:nonNegativeInteger -> usize are refused (errors are allowed).",
    "tables": ["native"],
    "lean_targets": ["SophiaProofs.Props.C20", "SophiaProofs.Audit.C20"],
    "theorems": [
        "int_term_shape", "int_lexical_valid", "int_term_lexical_valid",
        "i32_roundtrip", "isize_roundtrip", "usize_roundtrip",
        "i32_parse_denotes", "isize_parse_denotes", "usize_parse_denotes",
        "no_panic", "whitelist_sound", "own_datatype_whitelisted", "int_parse_welltyped_refuted",
        "bool_lexical_valid", "bool_roundtrip", "bool_parse_denotes",
        "str_term_shape", "str_lexical_valid_iff", "str_lexical_valid_partial", "str_nul_invalid",
        "rustFiniteDisplay_incl_double", "rustFiniteDisplay_incl_double_decided", "rustFiniteDisplay_disj_special",
        "f64_finite_valid", "f64_roundtrip", "std_display_nonfinite_invalid", "f64_nonfinite_refuted_of_display",
        "f64_nonfinite_valid_iff", "f64_nonfinite_valid_of_special", "f64_nonfinite_roundtrip", "f64_shape_known",
        "toy_std",
        "view_panic_iff", "view_of_term", "no_panic_any_term",
        "f64_shape_valid", "f64_nonfinite_valid", "f64_all_values",
        "try_ok_iff", "f64_try_ok_iff", "expClamped_exact_below_limit", "expClamped_limit_witness",
        "f64_parse_ok_lexical", "f64_parse_denotes_partial",
        "render_matches", "display_spec", "parse_of_finiteDisplay", "display_roundtrip", "stdF64_of_model",
        "f64_all_values_model", "f64_finite_model", "f64_nonfinite_valid_nohyp", "f64_nonfinite_roundtrip_model",
        "H2_necessary", "H1_or_similar_necessary", "expPart_of_finiteDisplay", "display_denotes",
    ],
    "native_ok": ["rustFiniteDisplay_incl_double_decided", "rustFiniteDisplay_disj_special"],
    "trivial_re": r"^(member=|ok=0 )",
    "rule": "every native value goes through 13 representations (self, try_into_term, CmpTerm, borrow_term, SimpleTerm "
            "from_term/into_term, ArcTerm, RcTerm, GenericLiteral, rio Trusted<Literal>, N-Triples, Turtle, pretty Turtle) and "
            "every arbitrary term through up to 9; only the VALUE must survive (lexical drift of copies is a model-compared "
            "field, of serialisations informative); NaNs with both signs, quiet/signalling, random payloads and the NaNs "
            "run-time arithmetic yields; integer forms per magnitude class (fits i32 / isize only / usize only / beyond 64 "
            "bit / aliases of small numbers modulo 2^32 and 2^64); double forms with extreme and zero-padded exponents incl. "
            "`bigf` forms of up to 655k characters; 18 more near-miss datatype IRIs (case, percent-encoding, port, relative); "
            "`foreign`: a harness-local Term impl for every combination of lexical_form()/datatype() x 5 kinds x 5 types; "
            "edge table (type extremes +-1, powers of ten +-1, 0, -0.0, subnormals, every 7th power of two and 5th power of ten "
            "with both neighbours, +-inf, NaNs incl. signalling/negative payloads, 17-significant-digit values, 1e21, 1e-7, 5e-324, "
            "f64::MAX) + structured random values of each native type (uniform bits / uniform exponent / subnormal / integral / "
            "short decimal / near powers of ten); every native value is observed as itself, as SimpleTerm, as ArcTerm and after an "
            "N-Triples serialise+parse; arbitrary terms: non-literals, language-tagged literals, every xsd:* name of ns.rs plus "
            "near-miss datatype IRIs crossed with all five native types, integer lexical forms (in/out of range at every width, "
            "signed, zero-padded, malformed, non-ASCII digits, huge), boolean and double/float/decimal lexical forms (exponents, "
            "specials in all spellings, halfway cases, >750-digit forms, overflow/underflow); lexical-space membership of all of "
            "these against hand-written recognisers; a case is non-trivial unless it is a bare membership query or an error "
            "reply; distinct = distinct request lines",
    "trusted_base": [
        "XSD 1.1 part 2 lexical spaces / lexical-to-value mappings, hand transcription in lean/SophiaModel/Model/Native.lean (Xsd.*); "
        "XML Char taken as the larger (XML 1.1) set",
        "core::fmt Display for integers, core::num from_str_radix, bool::from_str: hand transcription (differential per run)",
        "core float Display: executable specification-level model RustF64.display (shortest round-tripping digits; ties "
        "round up; digits_to_dec_str layout), compared per generated double; "
        "core float Display/FromStr: assumed via H1-H4 (StdF64), validated per run; RustF64.parse syntax model + exact decimal->binary64 "
        "(Dec.nearest) used only by the differential",
        "core::num::dec2flt exponent reader (bounded accumulator that drops digits): hand transcription RustF64.expClamped, "
        "validated per run by the `bigf` requests on both sides of the limit 655360",
        "tools/extractors/c20.py expands single-rule macro_rules! (plain $x:frag parameters), accepts the let-bound / array "
        "forms of the whitelist test and every spelling of Display (format!(\"{}\"), format!(\"{self}\"), to_string(), .into()); "
        "tools/extractors/c20.py (fail-closed shape matcher; its tables are cross-checked behaviourally by the `wl` and `h3` requests)",
    ],
    "assumptions": [
        "since round 3 H1-H4 are theorems of the Display/FromStr MODELS (RustF64.display / RustF64.parse); assumed instead: "
        "DisplayTotal (the search within 17 digits succeeds - reported per value as `model-display-failed` otherwise) and that "
        "the models are core's (differential). Original wording: "
        "H1: finite f64 Display matches -?[0-9]+(\\.[0-9]+)? ; H2: parse(Display(x)) == x bitwise; H3: non-finite print inf/-inf/NaN; "
        "H4: inf/INF/-inf/-INF/NaN parse to the special values (all four re-checked on every run)",
        "isize/usize are 64 bit on the target",
        "third-party Term impls return Some(datatype) whenever lexical_form() is Some (the unwrap in try_from_term): now "
        "explicit in the model (Outcome.panic, view_panic_iff) and exercised by the `foreign` requests",
        "xsd:float literals are read to the nearest double of the decimal (no intermediate rounding to binary32)",
    ],
    "exec_timeout": 900,
}


def _req(failure):
    return failure["request"].split()


@predicate
def c20_f64_inf_lexical(failure):
    """f64 request on +-infinity: implementation's lexical form is exactly what Display prints (inf / -inf)
    where xsd:double demands INF / -INF; nothing else about the case may be wrong"""
    t = _req(failure)
    if len(t) != 3 or t[0] != "f64" or failure.get("field") != "lex":
        return False
    I, M = kv(failure["impl"]), kv(failure["model"])
    want = {"7ff0000000000000": ("inf", "INF"), "fff0000000000000": ("-inf", "-INF")}.get(t[1])
    if not want:
        return False
    return (unhex(I.get("lex", "")) == want[0] and unhex(M.get("o.lex", "")) == want[1]
            and I.get("back") == t[1] and not any(k.startswith("FAIL.") for k in I))


@predicate
def c20_str_non_xml_char(failure):
    """str request whose value contains U+0000 / U+FFFE / U+FFFF: the literal's lexical form is the string
    itself (round trip intact), which XSD excludes from xsd:string"""
    t = _req(failure)
    if len(t) != 2 or t[0] != "str" or failure.get("field") != "lex":
        return False
    s = unhex(t[1])
    if not any(c in s for c in "\u0000\ufffe\uffff"):
        return False
    I = kv(failure["impl"])
    return I.get("lex") == t[1] and I.get("back") == t[1] and I.get("dt") == (XSD + "string").encode().hex() \
        and not any(k.startswith("FAIL.") for k in I)


def _lex_of_request(t):
    """(type, lexical form, datatype IRI) of a `parse <ty> l <lex> <dt>` or `bigf ...` request, else None"""
    if len(t) == 5 and t[0] == "parse" and t[2] == "l":
        return t[1], unhex(t[3]), unhex(t[4])
    if len(t) == 8 and t[0] == "bigf":
        try:
            z1, z2 = int(t[4]), int(t[6])
        except ValueError:
            return None
        return t[1], unhex(t[3]) + "0" * z1 + unhex(t[5]) + "0" * z2 + unhex(t[7]), XSD + t[2]
    return None


@predicate
def c20_f64_exponent_clamp(failure):
    """f64 <- literal of an accepted datatype whose lexical form is a numeric xsd:double form with an exponent of
    655360 or more that core's dec2flt misreads (its accumulator stops at the first value >= 0x10000 and DROPS the
    remaining digits): the implementation succeeds with the value of the misread exponent; the model (which
    transcribes the accumulator) predicts exactly that value, the exact oracle another one.  Nothing else may be
    wrong: no FAIL field, all representations agree."""
    import re
    r = _lex_of_request(_req(failure))
    if not r or r[0] != "f64" or failure.get("field") != "val":
        return False
    _, lex, dt = r
    if dt not in (XSD + "double", XSD + "float", XSD + "decimal"):
        return False
    m = re.fullmatch(r"[+-]?(?:[0-9]+(?:\.[0-9]*)?|\.[0-9]+)[eE][+-]?([0-9]+)", lex)
    if not m:
        return False
    e = 0
    for c in m.group(1):
        if e < 0x10000:
            e = e * 10 + int(c)
    if e == int(m.group(1)) or int(m.group(1)) < 655360:
        return False
    I, M = kv(failure["impl"]), kv(failure["model"])
    return (I.get("ok") == "1" and M.get("ok") == "1" and "val" in I and M.get("val") == I["val"]
            and M.get("o.val") not in (None, I["val"]) and not any(k.startswith("FAIL.") for k in I))
