"""C01 configuration."""
CONFIG = {
    "design_ref": "4.1",
    "technique": "Lean 4 proof: refinement of the indexed in-memory stores (term index + permuted row indexes + cached matching iterators, index-selection tables regenerated from inmem/src) to a plain set of quads; differential over operation histories on every shipped store type",
    "level_text": "WORK IN PROGRESS",
    "level_note": "WORK IN PROGRESS",
    "tables": ["index_tables"],
    "lean_targets": ["SophiaModel.Model.Store", "SophiaModel.Gen.IndexTable"],
    "theorems": [],
    "native_ok": [],
    "trivial_re": r"^(ok=1|n=0 quads=_|r=0)$",
    "rule": "operation histories (8..45 ops quick, ..120 thorough) over insert/remove/contains/insert_all/remove_all/remove_matching/retain_matching/quads/quads_matching/9 enumerations/len on each of LightDataset, FastDataset, small::{Light,Fast}Dataset, LightGraph, FastGraph, small::{Light,Fast}Graph, HashSet/BTreeSet/Vec of quads; terms from small colliding alphabets (generalized and strict quads, nested quoted triples, case-variant tags re-used on purpose); patterns: each position independently an exact constant of an existing quad (Option / 1-slice / 1-array) or a random matcher from the full algebra (any, none, slices, kinds, not, datatype, language tag, closure, quoted-triple matcher, graph-name variants); plus one history per 16-bit store type filling the term index to 3 below its limit and probing the full-index error on each of s/p/o/g; a case is trivial when its reply is an empty result / false flag",
    "trusted_base": ["std BTreeSet / HashMap / HashSet / Vec (modelled as duplicate-free lists with filter-ranges / lookup by Term::eq)",
                     "index-selection tables extracted by tools/extractors/c01.py (cross-checked by the differential on every arm)"],
    "assumptions": ["SimpleTerm's Eq/Hash agree with Term::eq (checked by C02's differential)"],
    "exec_timeout": 1200,
    "claimed": False,
}
