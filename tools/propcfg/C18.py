"""C18 configuration, known-finding predicates, model search, shrinking."""
import re
from props import predicate, kv, unhex

RDF = "http://www.w3.org/1999/02/22-rdf-syntax-ns#"

CONFIG = {
    "design_ref": "4.18",
    "technique": "Lean 4 proof over a model of Sophia's RDF/XML glue (convert_triple, rio_format_triples, RdfXmlSerializer) "
                 "and a HAND MODEL of the third-party formatter (rio_xml 0.8.6 RdfXmlFormatter/split_iri, quick-xml 0.36 "
                 "escape + Writer indentation) with a reference reader; byte-exact and parsed-graph differential against "
                 "the real serializer and sophia_xml::parser; round-trip / well-formedness / indentation / error-reporting "
                 "(failing writer, failing source) oracle on the Rust side",
    "level_text": "Proof covers Sophia's glue plus a formatter MODEL, not the third-party core. For the Lean transcription "
                  "of convert_triple / rio_format_triples / RdfXmlSerializer (indentation switch, finish) and a hand model of "
                  "rio_xml's RdfXmlFormatter + split_iri and quick-xml's escape and indenting Writer it is proved, for all "
                  "inputs: exactly the strict RDF triples are written (others skipped, quoted triples = error); the serialiser "
                  "fails exactly when the graph contains a convertible quoted triple, hence never on a strict graph "
                  "(serialize_fails_iff, strict_graph_serializes); a writer that stops accepting bytes anywhere before the "
                  "end of the document, or a failing triple source, always yields Err and Ok means the whole document was "
                  "written (sink_error_never_swallowed, source_error_never_swallowed, ok_is_whole_document); every successful "
                  "event stream is properly nested with one root element, its element names are rdf:RDF, rdf:Description or "
                  "NCNames when the predicates have an NCName suffix, and no tag repeats an attribute (wellformed_partial: the "
                  "structural part of 'well-formed'); the whole output consists of XML Chars whenever every string of every "
                  "strict triple does (output_xml_legal; necessary: output_illegal_witness) - the XML grammar itself is not "
                  "proved; the model reader expands numeric character references as quick-xml's parse_number does "
                  "(unescape_char_ref; a CR written as &#xD; would survive a conforming reader: cr_char_ref_survives); the "
                  "round-trip clause at full strength (FullRoundtrip: XML-legal, qname-able graph => reader returns the graph) "
                  "is stated and REFUTED by a kernel-checked witness (full_roundtrip_false, the whitespace-only literal), the "
                  "provable part being roundtrip_partial; "
                  "unescape . escape = id on every string; what a conforming XML 1.0 reader delivers for escaped text and "
                  "attribute values (CR in text, TAB/LF/CR in attributes are the only characters lost); split_iri yields an "
                  "NCName local part with ns++local = IRI, or the pseudo name 'prop:' exactly when no suffix is an NCName; the "
                  "indentation rule never puts inserted whitespace next to a Text event (any event stream, any size); the "
                  "model reader (tokeniser + rio_xml state machine for the writer's vocabulary) applied to the model "
                  "writer's TEXT output returns, for every indentation, the graph restricted to strict triples (language tags "
                  "lower-cased) under explicit hypotheses (roundtrip_partial: NCName blank labels, predicate not an RDF/XML "
                  "syntax name, literal text not whitespace-only), each hypothesis shown necessary by a kernel-checked "
                  "counterexample; and the reader's result is independent of the indentation for ALL graphs. The third-party "
                  "core (rio_xml formatter and parser, quick-xml writer and reader) is tied to these models ONLY by the "
                  "differential: byte-exact output and identical parsed graph on generated graphs, and - independently of "
                  "the model writer - the model READER against the real parser on the real serialiser's bytes (`rd`: verbatim, "
                  "with characters and entities rewritten as numeric character references in text and attribute values, and "
                  "with odd / malformed references; about 2000 documents per quick run, 0 differences). The property itself "
                  "(error, or namespace-well-formed and isomorphic; same parse for indentation 0..8) is judged on the real "
                  "code by an independent oracle in the harness.",
    "level_note": "Trusted: the hand models of rio_xml 0.8.6 / quick-xml 0.36.2 (only as good as the differential), own XML "
                  "well-formedness checker and isomorphism test in harness/props/c18, XML 1.0 Char/Name classes and "
                  "normalisation rules transcribed from memory. IRIs and language tags in generated graphs are valid "
                  "(absolute RFC 3987 IRIs, BCP47 tags); characters outside XML Char are out of scope (outcome recorded, "
                  "not flagged). No native_decide. Known findings: whitespace-only literals come back empty; blank node "
                  "labels starting with a digit give an unparsable rdf:nodeID; predicates rdf:li / reserved rdf: names are "
                  "renumbered or unparsable; predicates without NCName suffix are written as the ill-formed QName 'prop:'. "
                  "Documented limit (not flagged): a lone CR in a literal is written raw, sophia's own reader keeps it, a "
                  "conforming XML processor would read LF (theorem xml_text_cr_lost).",
    # a quick run takes ~10 s, a thorough one ~2 min of CPU; generous so that a loaded machine cannot turn
    # "slow" into "hang"
    "exec_timeout": 3600,
    "gen_timeout": 1800,
    "tables": [],
    "lean_targets": ["SophiaProofs.Props.C18", "SophiaProofs.Audit.C18"],
    "theorems": [],   # filled below
    "native_ok": [],
    "trivial_re": r"^out=err|\bg=_( |$)|^ns=",
    "rule": "graphs of 0..5 triples over: literal text assembled from XML-legal classes (markup & < > \" ' ]]> &amp; &#13; "
            "<!-- <![CDATA[, whitespace runs, leading/trailing/only whitespace, lone CR, CRLF, TAB, U+0085, U+2028, U+00A0, "
            "non-BMP, U+FFFD, DEL, C1) plus a few out-of-scope characters (C0 controls, U+FFFE/FFFF: recorded, not flagged); "
            "language tags, datatypes incl. xsd:string, rdf:XMLLiteral, rdf:HTML, IRIs with & and '; blank nodes in subject "
            "and object position (labels with '.', '-', non-ASCII, digit-initial); predicates with every namespace split "
            "shape (ending in / or #, digit-initial local part, percent escapes, no NameStartChar, ':' in path, non-ASCII "
            "name characters, markup in the namespace, every rdf: syntax name); non-representable triples (literal "
            "subject, blank/literal/quoted predicate, variables, quoted triples with and without bad constituents); runs "
            "of equal subjects; indentation 0..8 and occasionally up to 200. Every request is serialised with the "
            "requested indentation (byte-exact differential), with all of 0..8 and through the configuration-less entry "
            "points (new_stringifier + serialize_graph, RdfXmlSerializer::new, RdfXmlConfig::default()/new() on a &mut Vec) "
            "- the parse must be identical. Added after the audit: datatypes that resemble xsd:string / rdf:langString "
            "without being equal (shared NEAR_MISS_DATATYPES + case, scheme, suffix, percent variants), IRIs that resemble "
            "rdf:/xsd: vocabulary (NEAR_MISS_VOCAB) and local names that resemble RDF/XML syntax names (rdf:lix, rdf:_0, "
            "rdf:description ...), odd but valid absolute IRIs (IP literals, userinfo, port, empty path, private-use query, "
            "sub-delims) in subject / predicate / object / datatype position, quoted triples in both positions and of "
            "depth 2..3 with and without a non-convertible leaf, long literals (up to ~10 kB) and runs of one atom (CR CR, "
            "leading CR), graphs of 20..60 triples; `sink` requests run the serialiser into a writer that accepts N bytes "
            "(every N for a small document, random N / end-relative N otherwise: inside the declaration, the body, the end "
            "tags written by finish(), exactly enough) and `src` requests with a triple source that fails after k triples. "
            "`rd` requests: the real serialiser's document for every third random graph, verbatim, with the same characters "
            "written as decimal / hex references (entities, CR, TAB, LF, space, non-ASCII, alphanumerics; in text and in "
            "attribute values), and with one odd (&#1; &#xFFFF; &#x20; ...) or malformed (&#0; &#xD800; &#x110000; &#; &#X41; "
            "&foo; unterminated ...) reference in an element's text - real parser vs model reader. "
            "Non-trivial = the serialiser succeeded and at least one triple was written (sink/src/rd requests: always).",
    "trusted_base": ["hand models of rio_xml 0.8.6 formatter/parser and quick-xml 0.36.2 writer/escape: lean/SophiaModel/Model/XmlGlue.lean "
                     "(watched by the byte-exact / parsed-graph differential only)",
                     "own well-formedness checker, isomorphism test and scope classifier in harness/props/c18/src/main.rs",
                     "XML 1.0 Char / NameStartChar / NameChar classes and sections 2.11, 3.3.3 transcribed from memory"],
    "assumptions": ["IRIs of generated graphs are valid absolute IRIs and language tags are well-formed BCP47 (the model reader "
                    "does not re-validate them as oxiri / oxilangtag do)",
                    "quick-xml 0.36 reader = tokeniser of the model on the writer's vocabulary plus numeric character references "
                    "in text and attribute values (no comments, CDATA, DTD; references inside names or between attributes are "
                    "malformed XML and belong to C08)"],
}

CONFIG["theorems"] = [
    "representable_iff",
    "written_iff",
    "quoted_is_error",
    "xml_escape_roundtrip",
    "escape_no_markup",
    "xml_text_conformant",
    "xml_attr_conformant",
    "xml_text_roundtrip",
    "xml_text_roundtrip_iff",
    "xml_attr_roundtrip",
    "xml_text_cr_lost",
    "split_iri_valid",
    "split_iri_empty_iff",
    "split_iri_empty_keeps_iri",
    "split_iri_no_break",
    "writer_never_touches_text",
    "indent_never_touches_text",
    "roundtrip_partial",
    "indent_invariant",
    "roundtrip_ws_lost",
    "roundtrip_bnode_digit_rejected",
    "roundtrip_rdf_li_renumbered",
    "prop_name_not_qname",
    "prop_name_ncname",
    "serialize_fails_iff",
    "strict_graph_serializes",
    "outcome_plain",
    "sink_error_never_swallowed",
    "source_error_never_swallowed",
    "ok_is_whole_document",
    "default_is_unindented",
    "wellformed_partial",
    "events_well_nested",
    "output_xml_legal",
    "output_illegal_witness",
    "unescape_char_ref",
    "cr_char_ref_survives",
    "full_roundtrip_false",
    "split_iri_empty_iff_needs_break",
]


# ------------------------------------------------------------------ request decoding

def _terms(toks):
    out = []
    i = 0

    def term():
        nonlocal i
        k = toks[i]
        i += 1
        if k in ("i", "b", "v"):
            s = unhex(toks[i])
            i += 1
            return (k, s)
        if k in ("l", "g"):
            a, b = unhex(toks[i]), unhex(toks[i + 1])
            i += 2
            return (k, a, b)
        if k == "t":
            return ("t", term(), term(), term())
        raise ValueError(k)

    while i < len(toks):
        out.append(term())
    return [out[j:j + 3] for j in range(0, len(out), 3)]


def _representable(t):
    return t[0][0] in "ib" and t[1][0] == "i" and t[2][0] in "iblg"


def _graph(request):
    toks = request.split()
    if len(toks) < 2 or toks[0] != "ser":
        return None
    try:
        return [t for t in _terms(toks[2:]) if _representable(t)]
    except Exception:
        return None


_NS = ("A-Z_a-z\u00C0-\u00D6\u00D8-\u00F6\u00F8-\u02FF\u0370-\u037D\u037F-\u1FFF\u200C-\u200D\u2070-\u218F"
       "\u2C00-\u2FEF\u3001-\uD7FF\uF900-\uFDCF\uFDF0-\uFFFD\U00010000-\U000EFFFF")
_NC = _NS + "\\-.0-9\u00B7\u0300-\u036F\u203F-\u2040"
_NCNAME = re.compile("[%s][%s]*\\Z" % (_NS, _NC))
_NCNAME_SUFFIX = re.compile("[%s][%s]*\\Z" % (_NS, _NC))
_WS = set(" \t\n\r")
_RESERVED = {"li", "Description", "about", "ID", "RDF", "resource", "nodeID", "datatype", "parseType", "bagID",
             "aboutEach", "aboutEachPrefix"}


def _qnameable(p):
    return any(_NCNAME.match(p[i:]) for i in range(1, len(p)))


def _causes(request):
    g = _graph(request)
    c = set()
    for s, p, o in g or []:
        if o[0] in "lg" and o[1] and set(o[1]) <= _WS:
            c.add("ws")
        for x in (s, o):
            if x[0] == "b" and not _NCNAME.match(x[1]):
                c.add("bn")
        if p[1].startswith(RDF) and p[1][len(RDF):] in _RESERVED:
            c.add("rdfres")
        if not _qnameable(p[1]):
            c.add("prop")
    return c


def _model_predicts(failure):
    """the Lean model of the rio_xml reader predicts exactly the observed parse outcome"""
    I, M = kv(failure["impl"]), kv(failure["model"])
    return "g" in I and I.get("g") == M.get("g") and I.get("parse") == M.get("parse")


def _norm(t):
    """language tags compared case-insensitively (the reader lower-cases them)"""
    return tuple((x[0], x[1], x[2].lower()) if x[0] == "g" else tuple(x) for x in t)


def _parsed_graph(impl_reply):
    """the graph the REAL parser delivered, from the implementation's own `g=` field"""
    g = kv(impl_reply).get("g")
    if g is None or g in ("err", "panic", "na"):
        return None
    if g == "_":
        return set()
    out = set()
    for tr in g.split(";"):
        ts = _terms(tr.split(","))
        if len(ts) != 1 or len(ts[0]) != 3:
            return None
        out.add(_norm(ts[0]))
    return out


_RDF_N = re.compile(re.escape(RDF) + r"_[1-9][0-9]*\Z")


def _explained(failure, cause):
    """model-independent reading of a round-trip failure: every difference between the input graph and what
    the real parser delivered is exactly one of the documented losses (whitespace-only text -> "", rdf:li ->
    rdf:_n), and `cause` is among those used; for a parse error: the request contains a blank label / reserved
    rdf: name that makes the document unparsable.  Keeps the known findings recognisable when the hand model of
    the third-party reader drifts (dependency upgrade), without widening them."""
    I = kv(failure["impl"])
    g = _graph(failure["request"])
    if g is None:
        return False
    if I.get("parse") == "err":
        if cause == "bn":
            return any(x[0] == "b" and not _NCNAME.match(x[1]) for s, p, o in g for x in (s, o))
        if cause == "rdfres":
            return any(p[1].startswith(RDF) and p[1][len(RDF):] in _RESERVED - {"li"} for s, p, o in g)
        return False
    if I.get("parse") != "ok":
        return False
    G = _parsed_graph(failure["impl"])
    if G is None:
        return False
    E = {_norm(t) for t in g}
    used, images = set(), set()
    for s, p, o in E - G:
        ws = o[0] in "lg" and o[1] != "" and set(o[1]) <= _WS
        li = p[1] == RDF + "li"
        if not (ws or li):
            return False
        o2 = (o[0], "", o[2]) if ws else o
        cands = [x for x in G if x[0] == s and x[2] == o2 and (_RDF_N.match(x[1][1]) if li else x[1] == p)]
        if not cands:
            return False
        images.update(cands)
        used.update((["ws"] if ws else []) + (["rdfres"] if li else []))
    if not (G - E) <= images:
        return False
    return cause in used


def _roundtrip_failure(failure, cause):
    return (failure.get("field") == "FAIL.roundtrip" and cause in _causes(failure["request"])
            and (_model_predicts(failure) or _explained(failure, cause)))


@predicate
def c18_ws_only_literal(failure):
    """a literal consisting only of SPACE/TAB/LF/CR is read back as the empty literal"""
    return _roundtrip_failure(failure, "ws") and kv(failure["impl"]).get("parse") == "ok"


@predicate
def c18_bnode_label_not_ncname(failure):
    """blank node label that is not an NCName (digit-initial): rdf:nodeID rejected by the parser"""
    return _roundtrip_failure(failure, "bn") and kv(failure["impl"]).get("parse") == "err"


@predicate
def c18_reserved_rdf_predicate(failure):
    """predicate rdf:li (renumbered rdf:_n) or a reserved rdf: syntax name (parse error)"""
    return _roundtrip_failure(failure, "rdfres")


@predicate
def c18_prop_pseudo_qname(failure):
    """predicate without NCName suffix: element written as the ill-formed QName `prop:`"""
    return (failure.get("field") == "FAIL.not_wellformed" and failure.get("detail", "").startswith("bad-qname:70726f703a")
            and "prop" in _causes(failure["request"]))


# ------------------------------------------------------------------ model search / shrinking

def _hex(s):
    return s.encode().hex() or "_"


def _search_requests(_lines):
    """shortest texts over the class alphabet (<= 3 characters) x indentation 0 / 3, as simple and
    as language-tagged literal"""
    alpha = ["&", "<", ">", "\"", "'", " ", "\n", "\r", "\t", "a", "]"]
    texts = [""]
    for n in (1, 2, 3):
        texts += [a + t for a in alpha for t in texts if len(t) == n - 1]
    s, p = "i " + _hex("x:s"), "i " + _hex("http://ex.org/p")
    reqs = []
    for t in texts:
        for ind in (0, 3):
            reqs.append("ser %d %s %s l %s %s" % (ind, s, p, _hex(t), _hex("http://www.w3.org/2001/XMLSchema#string")))
        reqs.append("ser 2 %s %s g %s %s" % (s, p, _hex(t), _hex("en")))
    return reqs


CONFIG["model_search"] = {"ask": ["split 783a70"], "to_requests": _search_requests}


def _shrink(failure, run):
    """keep one triple of the request if the same field still fails"""
    toks = failure["request"].split()
    if len(toks) < 3 or toks[0] != "ser":
        return failure
    # token spans of the terms
    spans = []
    i = 2

    def term():
        nonlocal i
        k = toks[i]
        i += 1
        if k in ("i", "b", "v"):
            i += 1
        elif k in ("l", "g"):
            i += 2
        elif k == "t":
            term(); term(); term()

    while i < len(toks):
        st = i
        term(); term(); term()
        spans.append((st, i))
    if len(spans) <= 1:
        return failure
    for ind in ("0", toks[1]):
        for st, en in spans:
            req = " ".join(["ser", ind] + toks[st:en])
            o, d, _ = run([req])
            for f in o + d:
                known = any(q(f) for q in (c18_ws_only_literal, c18_bnode_label_not_ncname,
                                           c18_reserved_rdf_predicate, c18_prop_pseudo_qname))
                if f.get("field") == failure.get("field") and not known:
                    return f
    return failure


CONFIG["shrink"] = _shrink
