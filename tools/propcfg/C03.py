"""C03 configuration (N-Triples / N-Quads round trip)."""
from props import predicate, kv, unhex  # noqa: F401


CONFIG = {
    "design_ref": "4.3",
    "technique": "Lean 4 proof: executable model of write_term/write_triple/quoted_string/the serialize_* closures, "
                 "INTERPRETED from tables regenerated from the source (op sequences of every arm of write_term, the literal "
                 "decision tree and the NsTerm it elides, write_triple, the per-statement closures, serialize_graph/dataset "
                 "defaults; escape table from the match arms of quoted_string) and an independent reader transcribed from the W3C N-Quads grammar "
                 "(+ N-Triples-star); theorems reader . writer = id, and byte loop on UTF-8 = encoding of the scalar-value "
                 "writer; byte-exact differential vs NtSerializer/NqSerializer through every public entry point "
                 "(serialize_triples/quads, serialize_graph/dataset on Vec and HashSet; stringifier, short-write, "
                 "BufWriter and failing sinks; pure-ASCII option), the grammar reader run on the bytes the real "
                 "serializer wrote, and reader differential vs Rio's nt/nq parsers (parse_str and parse_bufread)",
    "level_text": "Proof (unbounded: all Unicode strings, all well-formed terms, all finite datasets) about the model, which is "
                  "now the interpreter of the regenerated writer tables (writeTermT_eq / writeQuadT_eq / writeDocT_eq: it equals the "
                  "reference writer for every input; elide_iff: ^^<dt> is omitted exactly for xsd:string; "
                  "read_write_doc_generated: the property for the generated writer on the toolkit-valid domain; fuel and delimiter "
                  "hypotheses discharged (read_term_fuel, delim_at_writer_positions), every guard of quadOk and delim shown necessary "
                  "by kernel-checked witnesses; sorted_lines_sound: equal sorted lines of a set container imply a permutation of the "
                  "quads; sink_ok_iff: a sink of n bytes fails iff the output is longer, whatever the chunking; read_uchar4/8, "
                  "read_iri_uchar4/8: the grammar reader decodes \\uXXXX / \\UXXXXXXXX for every scalar value, and "
                  "unescape_quotedAscii / quotedAscii_is_ascii: a reference pure-ASCII escaper round-trips and is ASCII — the "
                  "oracle the pending ascii mode is judged by): "
                  "unescape(quotedString s) = s for every string; the escaped text has no raw quote, backslash, CR or LF; a "
                  "written quad is exactly one line, a document has one LF per statement and each line reads as its quad on "
                  "its own; the loop of quoted_string run on the UTF-8 bytes of a text writes the UTF-8 encoding of "
                  "quotedString of the text (Lean's own utf8EncodeChar); the grammar reader returns exactly the written term / quad / "
                  "document (same list, in order) for every dataset whose IRIs avoid the characters IRIREF forbids, whose "
                  "labels are in BLANK_NODE_LABEL and whose tags are in LANGTAG; serialisation is injective. Differential "
                  "(bounded by the generator): the model's bytes equal NtSerializer/NqSerializer's on every generated "
                  "dataset, and Rio's nt/nq/gnq parsers return the input quads on the serialiser's output (the property "
                  "itself, on the real code; also through parse_bufread with a 1-7 byte buffer, and after piping the "
                  "parser's Trusted<Rio> terms straight back into the serializer) and agree with the grammar reader on "
                  "outputs and single-edit mutants; the grammar reader reads the real serializer's bytes as exactly the "
                  "input quads (tag case included). Sizes: lexical forms up to 64 KiB with every escape class at every "
                  "offset of a 16-byte block and at 64 B / 4 KiB / 8 KiB / 64 KiB boundaries; documents of 2000 "
                  "(thorough: 10000) statements; quoted triples to depth 4.",
    "level_note": "The round trip through the REAL parsers is differential, not proof (Rio is third-party; only its "
                  "observable agreement with the grammar reader is checked). Language tags are compared "
                  "case-insensitively: Rio lower-cases tags ('EN-gb' comes back as 'en-gb'), which LanguageTag::eq and "
                  "RDF 1.1 treat as the same tag; exact-case preservation is reported (field exact=) but not required. "
                  "Observation, not a violation: LanguageTag::new accepts tags outside BCP 47 / LANGTAG (e.g. 'a1', "
                  "'abcdefghi'); a literal carrying one is written as is and rejected by the parser; the property "
                  "quantifies over BCP 47 tags, the proof's guard is tagOk (alphabetic first subtag) and the differential's "
                  "is oxilangtag well-formedness. Systematic Rio-vs-grammar difference excluded from the reader "
                  "differential: a CR not followed by LF (the grammar's EOL is [CR LF]+, Rio only ends lines at LF). "
                  "Pure-ASCII mode (NtConfig::set_ascii) is `todo!()` in the source: the model predicts the panic from a "
                  "generated flag (Gen/NtAscii.lean); once it is implemented the flag flips and `ascii` requests keep only "
                  "the oracles (round trip through Rio, line discipline, grammar reader on the bytes; `ascii_only=` is reported, not required). "
                  "Set containers (HashSet) are compared as sorted sets of lines. A serializer panic / error on an "
                  "in-domain dataset is an oracle failure (rt=panic against o.rt=1), not only a disagreement. "
                  "Remains differential only: Rio (the real parsers) returning the input quads; Term accessors of the "
                  "input term types (C02); what `?` / io errors do beyond `fail<n>` sinks. "
                  "Trusted: grammar transcription in Model/NT.lean.",
    "tables": ["ntescapes", "ntascii", "ntwriter", "term_kind", "regexes"],
    "lean_targets": ["SophiaProofs.Props.C03", "SophiaProofs.Audit.C03"],
    "theorems": ["escape_table_ok", "unescape_quoted", "quoted_clean", "quoted_no_panic", "quoted_rs_eq", "quoted_loop_inv", "one_line", "read_write_term",
                 "read_write_quad", "read_write_doc", "read_write_doc_nt", "write_injective", "writeTerm_injective",
                 "iri_regex_sub_iriref", "bnode_id_sub_label", "bcp47_sub_langtag", "bcp47_sub_lang_tag",
                 "lang_tag_guard", "lang_tag_guard_excl", "lang_tag_wider", "valid_termOk", "domain_quadOk",
                 "read_write_doc_valid",
                 "quoted_bytes_eq", "utf8_is_toUTF8", "quoted_bytes_no_panic", "unescape_quoted_bytes", "doc_lines",
                 "each_line_reads",
                 "nsTermEq_iff", "writer_flags_ok", "elide_iff", "writeTermT_eq", "writeQuadT_eq", "writeDocT_eq",
                 "read_write_doc_generated", "read_term_fuel", "guards_necessary", "delim_necessary",
                 "delim_at_writer_positions", "sorted_lines_sound", "sink_ok_iff",
                 "read_uchar4", "read_uchar8", "read_iri_uchar4", "read_iri_uchar8", "unescape_quotedAscii",
                 "quotedAscii_is_ascii"],
    # whole-regex side-language obligations (validators vs grammar terminals) are evaluated natively by the
    # verified decision procedure; the round-trip theorems themselves use no native_decide
    "native_ok": ["iri_regex_sub_iriref", "bnode_id_sub_label", "bcp47_sub_langtag", "bcp47_sub_lang_tag",
                  "lang_tag_guard", "lang_tag_guard_excl", "valid_termOk", "domain_quadOk", "read_write_doc_valid", "read_write_doc_generated"],
    "trivial_re": r"^ok=0|skip=|^bad-",
    "rule": "escape level: every escape class alone, all ordered pairs/triples of the critical characters, every "
            "escapable character as last byte after 10 kinds of prefix, random "
            "concatenations of classes (each C0 control, DEL, quote, backslash, lone CR, CRLF, LF, TAB, U+0000, non-BMP, "
            "combining marks, backslash-before-quote, text that looks like an escape); datasets of 1-5 strict RDF-star "
            "quads (quoted triples to depth 2, default/IRI/blank graph names, duplicates kept) over per-round alphabets: "
            "labels built per label class (inner dots, digit after dot, leading digit, middle dot, combining, non-ASCII, "
            "non-BMP), tags from a BCP 47 corpus + members sampled from the BCP 47 grammar, IRIs from a corpus + members "
            "sampled from IRI_REGEX, every sixth round adds out-of-domain tags/relative IRIs (observations); documents: "
            "fixed corpus of 90 grammar corner cases, each serialiser output and 3 single-edit mutants of it, through "
            "nt and nq; each serialiser output with the quads it came from through the grammar reader (rd); a case is non-trivial unless the reply is a rejection or a documented skip; distinct = distinct "
            "request lines",
    "trusted_base": ["W3C N-Triples/N-Quads 1.1 grammar + N-Triples-star quotedTriple, transcribed in "
                     "lean/SophiaModel/Model/NT.lean (reader) — PN_CHARS_U without ':' as in RDF 1.2 / the erratum",
                     "Rio (rio_turtle 0.8.6), oxiri, oxilangtag internals: observed through the differential only",
                     "RFC 5646 section 2.1 transcription (NT.G.BCP47), cross-checked per case against oxilangtag"],
    "assumptions": ["str::as_bytes is the UTF-8 encoding String.utf8EncodeChar specifies (the byte/scalar-value agreement "
                    "itself is now the theorem quoted_bytes_eq; exercised byte-exactly on non-ASCII text)",
                    "the op language of tools/extractors/c03.py (write_all of a constant / of a component, quoted_string, "
                    "write_triple, write_term, each followed by `?`) means what NT.interp says; anything outside it fails the "
                    "extractor; still exercised by the byte-exact differential"],
    "exec_timeout": 2400,   # thorough: model ~80 s, real code ~35 s on an idle machine; a slow machine must not raise an alarm
}


def _c03_search_requests(lines):
    """driver reply to `search`: bad=<hex>,<hex>,... -> escape-level requests run on both sides"""
    reqs = []
    for l in lines:
        v = kv(l).get("bad")
        if v and v != "none":
            reqs += ["e " + h for h in v.split(",") if h]
    return reqs


CONFIG["model_search"] = {"ask": ["search"], "to_requests": _c03_search_requests}
