"""C03 configuration (N-Triples / N-Quads round trip)."""
from props import predicate, kv, unhex  # noqa: F401


CONFIG = {
    "design_ref": "4.3",
    "technique": "Lean 4 proof: executable model of write_term/write_triple/quoted_string (escape table regenerated from "
                 "the match arms of quoted_string) and an independent reader transcribed from the W3C N-Quads grammar "
                 "(+ N-Triples-star); theorems reader . writer = id; byte-exact differential vs NtSerializer/NqSerializer "
                 "and reader differential vs Rio's nt/nq parsers",
    "level_text": "Proof (unbounded: all Unicode strings, all well-formed terms, all finite datasets) about the model: "
                  "unescape(quotedString s) = s for every string; the escaped text has no raw quote, backslash, CR or LF; a "
                  "written quad is exactly one line; the grammar reader returns exactly the written term / quad / "
                  "document (same list, in order) for every dataset whose IRIs avoid the characters IRIREF forbids, whose "
                  "labels are in BLANK_NODE_LABEL and whose tags are in LANGTAG; serialisation is injective. Differential "
                  "(bounded by the generator): the model's bytes equal NtSerializer/NqSerializer's on every generated "
                  "dataset, and Rio's nt/nq/gnq parsers return the input quads on the serialiser's output (the property "
                  "itself, on the real code) and agree with the grammar reader on outputs and single-edit mutants.",
    "level_note": "The round trip through the REAL parsers is differential, not proof (Rio is third-party; only its "
                  "observable agreement with the grammar reader is checked). Language tags are compared "
                  "case-insensitively: Rio lower-cases tags ('EN-gb' comes back as 'en-gb'), which LanguageTag::eq and "
                  "RDF 1.1 treat as the same tag; exact-case preservation is reported (field exact=) but not required. "
                  "Observation, not a violation: LanguageTag::new accepts tags outside BCP 47 / LANGTAG (e.g. 'a1', "
                  "'abcdefghi'); a literal carrying one is written as is and rejected by the parser; the property "
                  "quantifies over BCP 47 tags, the proof's guard is tagOk (alphabetic first subtag) and the differential's "
                  "is oxilangtag well-formedness. Systematic Rio-vs-grammar difference excluded from the reader "
                  "differential: a CR not followed by LF (the grammar's EOL is [CR LF]+, Rio only ends lines at LF). "
                  "Trusted: grammar transcription in Model/NT.lean; UTF-8 byte scan = scalar-value scan for ASCII cut bytes.",
    "tables": ["ntescapes", "regexes"],
    "lean_targets": ["SophiaProofs.Props.C03", "SophiaProofs.Audit.C03"],
    "theorems": ["unescape_quoted", "quoted_clean", "quoted_no_panic", "quoted_rs_eq", "quoted_loop_inv", "one_line", "read_write_term",
                 "read_write_quad", "read_write_doc", "read_write_doc_nt", "write_injective", "writeTerm_injective",
                 "iri_regex_sub_iriref", "bnode_id_sub_label", "bcp47_sub_langtag", "bcp47_sub_lang_tag",
                 "lang_tag_guard", "lang_tag_guard_excl", "lang_tag_wider", "valid_termOk", "domain_quadOk",
                 "read_write_doc_valid"],
    # whole-regex side-language obligations (validators vs grammar terminals) are evaluated natively by the
    # verified decision procedure; the round-trip theorems themselves use no native_decide
    "native_ok": ["iri_regex_sub_iriref", "bnode_id_sub_label", "bcp47_sub_langtag", "bcp47_sub_lang_tag",
                  "lang_tag_guard", "lang_tag_guard_excl", "valid_termOk", "domain_quadOk", "read_write_doc_valid"],
    "trivial_re": r"^ok=0|skip=|^bad-",
    "rule": "escape level: every escape class alone, all ordered pairs/triples of the critical characters, every "
            "escapable character as last byte after 10 kinds of prefix, random "
            "concatenations of classes (each C0 control, DEL, quote, backslash, lone CR, CRLF, LF, TAB, U+0000, non-BMP, "
            "combining marks, backslash-before-quote, text that looks like an escape); datasets of 1-5 strict RDF-star "
            "quads (quoted triples to depth 2, default/IRI/blank graph names, duplicates kept) over per-round alphabets: "
            "labels built per label class (inner dots, digit after dot, leading digit, middle dot, combining, non-ASCII, "
            "non-BMP), tags from a BCP 47 corpus + members sampled from the BCP 47 grammar, IRIs from a corpus + members "
            "sampled from IRI_REGEX, every sixth round adds out-of-domain tags/relative IRIs (observations); documents: "
            "fixed corpus of 90 grammar corner cases, each serialiser output and 3 single-edit mutants of it, through "
            "nt and nq; a case is non-trivial unless the reply is a rejection or a documented skip; distinct = distinct "
            "request lines",
    "trusted_base": ["W3C N-Triples/N-Quads 1.1 grammar + N-Triples-star quotedTriple, transcribed in "
                     "lean/SophiaModel/Model/NT.lean (reader) — PN_CHARS_U without ':' as in RDF 1.2 / the erratum",
                     "Rio (rio_turtle 0.8.6), oxiri, oxilangtag internals: observed through the differential only",
                     "RFC 5646 section 2.1 transcription (NT.G.BCP47), cross-checked per case against oxilangtag"],
    "assumptions": ["quoted_string scans UTF-8 bytes, the model scans scalar values: equal because every cut byte is ASCII "
                    "and no byte of a multi-byte sequence is < 0x80 (exercised byte-exactly on non-ASCII text)",
                    "Stringifier::as_utf8 returns exactly the bytes written (Vec<u8> sink)"],
    "exec_timeout": 600,
}


def _c03_search_requests(lines):
    """driver reply to `search`: bad=<hex>,<hex>,... -> escape-level requests run on both sides"""
    reqs = []
    for l in lines:
        v = kv(l).get("bad")
        if v and v != "none":
            reqs += ["e " + h for h in v.split(",") if h]
    return reqs


CONFIG["model_search"] = {"ask": ["search"], "to_requests": _c03_search_requests}
