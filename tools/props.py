"""Per-property configuration for check.py."""
import re

COMMON_TRUSTED = [
    "Lean 4.33.0 kernel (+ leanchecker in thorough tier)",
    "axioms reported by #print axioms: propext, Classical.choice, Quot.sound; native_decide theorems listed separately (adds Lean.ofReduceBool/Lean.trustCompiler = Lean compiler + runtime)",
    "tools/extract.py (fail-closed translator /repo -> lean/SophiaModel/Gen)",
    "correspondence harness harness/ (generator quality bounds what it sees) and line-protocol canonicalisation",
    "hand transcriptions of external specifications (DESIGN.md section 5)",
]


def unhex(h):
    if h == "_":
        return ""
    try:
        return bytes.fromhex(h).decode("utf-8", "replace")
    except ValueError:
        return h


def decode_request(prop, req):
    """human-readable rendering of a request line (hex fields decoded)"""
    out = []
    for tok in req.split():
        if re.fullmatch(r"(?:[0-9a-f]{2})+|_", tok):
            out.append(repr(unhex(tok)))
        else:
            out.append(tok)
    return " ".join(out)


PROPS = {}
PREDICATES = {}


def predicate(f):
    """register a known-finding predicate (see known_findings.json `match.predicate`)"""
    PREDICATES[f.__name__] = f
    return f


def kv(line):
    d = {}
    for t in line.split():
        if "=" in t:
            k, v = t.split("=", 1)
            d[k] = v
    return d


def _load():
    import glob
    import importlib.util
    import os
    here = os.path.dirname(os.path.abspath(__file__))
    for p in sorted(glob.glob(os.path.join(here, "propcfg", "C*.py"))):
        name = os.path.basename(p)[:-3]
        spec = importlib.util.spec_from_file_location("propcfg_" + name, p)
        m = importlib.util.module_from_spec(spec)
        spec.loader.exec_module(m)
        PROPS[name] = m.CONFIG


_load()
