#!/usr/bin/env python3
"""Run one check against /repo with a patch applied, exclusively, and restore everything.

  python3 tools/mutate.py Cxx path/to/patch.diff [--tier quick|thorough]

Takes the exclusive repo lock (all check.py runs hold it shared), applies the patch with
`git -C /repo apply`, runs tools/check.py, then `git -C /repo checkout -- .` (plus removal of files the
patch added), regenerates lean/SophiaModel/Gen and restores evidence/Cxx.json.  Exit status =
the check's status under the mutation (1 = caught).
"""
import fcntl
import os
import shutil
import subprocess
import sys

HERE = os.path.dirname(os.path.abspath(__file__))
VERIF = os.path.dirname(HERE)


def main():
    prop, patch = sys.argv[1], os.path.abspath(sys.argv[2])
    rest = sys.argv[3:]
    os.makedirs(os.path.join(VERIF, ".cache"), exist_ok=True)
    with open(os.path.join(VERIF, ".cache", "gate.lock"), "w") as gate, open(os.path.join(VERIF, ".cache", "repo.lock"), "w") as lk:
        fcntl.flock(gate, fcntl.LOCK_EX)   # blocks new checks while we wait for the running ones
        fcntl.flock(lk, fcntl.LOCK_EX)
        st = subprocess.run(["git", "-C", "/repo", "status", "--porcelain", "--untracked-files=no"],
                            capture_output=True, text=True).stdout.strip()
        if st:
            print("refusing: /repo has uncommitted tracked changes:\n" + st)
            return 2
        ev = os.path.join(VERIF, "evidence", prop + ".json")
        saved = open(ev).read() if os.path.exists(ev) else None
        before = set(subprocess.run(["git", "-C", "/repo", "ls-files", "--others", "--exclude-standard"],
                                    capture_output=True, text=True).stdout.split("\n"))
        rc = subprocess.call(["git", "-C", "/repo", "apply", patch])
        if rc != 0:
            print("patch does not apply")
            return 2
        try:
            env = dict(os.environ, VERIF_HOLDS_REPO_LOCK="1")
            rc = subprocess.call([sys.executable, os.path.join(HERE, "check.py"), prop] + rest, env=env)
        finally:
            subprocess.call(["git", "-C", "/repo", "checkout", "--", "."])
            after = set(subprocess.run(["git", "-C", "/repo", "ls-files", "--others", "--exclude-standard"],
                                       capture_output=True, text=True).stdout.split("\n"))
            for f in after - before:
                if f:
                    os.remove(os.path.join("/repo", f))
            subprocess.call([sys.executable, os.path.join(HERE, "extract.py")], stdout=subprocess.DEVNULL)
            if saved is not None:
                open(ev, "w").write(saved)
            elif os.path.exists(ev):
                os.remove(ev)
        print("mutation %s: check exit %d (%s)" % (os.path.basename(patch), rc, "CAUGHT" if rc == 1 else "MISSED" if rc == 0 else "error"))
        return rc


if __name__ == "__main__":
    sys.exit(main())
