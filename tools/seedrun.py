#!/usr/bin/env python3
"""Run every seeded change (or the ones named) against its property's check on the current tree and
record the outcome in seeded/<id>/meta.json ("final_run": caught / concrete input or not / tail).
   python3 tools/seedrun.py [C01-a C07-d ...]"""
import glob, json, os, re, subprocess, sys, time
HERE = os.path.dirname(os.path.abspath(__file__)); VERIF = os.path.dirname(HERE)
ids = sys.argv[1:] or sorted(os.path.basename(os.path.dirname(p)) for p in glob.glob(os.path.join(VERIF, "seeded", "*", "patch.diff")))
res = []
for sid in ids:
    prop = sid.split("-")[0]
    d = os.path.join(VERIF, "seeded", sid)
    t0 = time.time()
    p = subprocess.run([sys.executable, os.path.join(HERE, "mutate.py"), prop, os.path.join(d, "patch.diff")],
                       cwd=VERIF, stdout=subprocess.PIPE, stderr=subprocess.STDOUT)
    out = p.stdout.decode("utf-8", "replace")
    lines = [l for l in out.split("\n") if l.strip() and not l.startswith("WARNING")]
    caught = p.returncode == 1
    viol = [l for l in lines if l.startswith("VIOLATION")]
    concrete = bool(viol) and not any("no-failing-input-found" in l for l in viol)
    mp = os.path.join(d, "meta.json"); m = json.load(open(mp))
    m["final_run"] = {"caught": caught, "concrete_failing_input": concrete, "seconds": round(time.time() - t0),
                      "tail": [l[:300] for l in lines[-4:]]}
    if caught:
        m["caught_by_check"] = True
    json.dump(m, open(mp, "w"), indent=1)
    res.append((sid, caught, concrete))
    print("%s %s %s %ds" % (sid, "CAUGHT" if caught else "MISSED(exit %d)" % p.returncode,
                            "concrete" if concrete else "no-failing-input-found" if caught else "", time.time() - t0), flush=True)
print("total %d caught %d concrete %d" % (len(res), sum(c for _, c, _ in res), sum(k for _, _, k in res)))
