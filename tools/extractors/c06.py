"""C05/C06: which pruning rule `rdfc10.rs::smaller_path` implements.

The model (lean/SophiaModel/Model/Rdfc10.lean) follows the code through the generated flag
`Gen.smallerPathLengthFirst`.  Exactly two bodies are recognised (fail-closed otherwise):
  (A) the shipped one:   match Ord::cmp(&path1.len(), &path2.len()) { Less => true, Equal => path1 < path2, Greater => false }
  (B) the Recommendation's steps 5.4.4.3/5.4.5.5:   path1.len() <= path2.len() && path1 < path2
and both call sites must still be `!chosen_path.is_empty() && smaller_path(&chosen_path, &path)`.
`ExtractError`, `read`, `HEADER` are injected by tools/extract.py.
"""
import re

REL = "c14n/src/rdfc10.rs"


def extract_smaller_path(repo):
    src = read(repo, REL)
    m = re.search(r"fn smaller_path\(path1: &str, path2: &str\) -> bool \{(.*?)\n\}\n", src, re.S)
    if not m:
        raise ExtractError("fn smaller_path(path1: &str, path2: &str) -> bool not found in %s" % REL)
    body = re.sub(r"//[^\n]*", "", m.group(1))
    norm = re.sub(r"\s+", "", body)
    a = ("usestd::cmp::Ordering::{Equal,Greater,Less};matchOrd::cmp(&path1.len(),&path2.len())"
         "{Less=>true,Equal=>path1<path2,Greater=>false,}")
    b = "path1.len()<=path2.len()&&path1<path2"
    if norm == a:
        length_first = True
    elif norm == b:
        length_first = False
    else:
        raise ExtractError("unrecognised body of smaller_path in %s: %s" % (REL, norm[:200]))
    calls = re.findall(r"if !chosen_path\.is_empty\(\) && smaller_path\(&chosen_path, &path\) \{\s*return Ok\(\(\)\);", src)
    if len(calls) != 2 or src.count("smaller_path(") != 3:
        raise ExtractError("call sites of smaller_path changed in %s (found %d guarded calls, %d mentions)"
                           % (REL, len(calls), src.count("smaller_path(")))
    if not re.search(r"if chosen_path\.is_empty\(\) \|\| path < chosen_path \{", src):
        raise ExtractError("step 5.4.6 selection changed in %s" % REL)
    # step 2: which predicates are rejected before anything else
    m2 = re.search(r"for quad in &quads \{(.*?)for component in iter_spog\(quad\.spog\(\)\) \{", src, re.S)
    if not m2:
        raise ExtractError("step 2 loop header not found in %s" % REL)
    pre = re.sub(r"\s+", "", re.sub(r"//[^\n]*", "", m2.group(1)))
    pre = re.sub(r'"[^"]*"', '""', pre)
    blank_only = 'ifquad.p().is_blank_node(){returnErr(C14nError::Unsupported("".to_string(),));}'
    iri_too = blank_only + 'if!quad.p().is_iri(){returnErr(C14nError::Unsupported("".to_string(),));}'
    if pre == blank_only:
        must_be_iri = False
    elif pre == iri_too:
        must_be_iri = True
    else:
        raise ExtractError("unrecognised predicate checks at the head of step 2 in %s: %s" % (REL, pre[:300]))
    # step 2.1: one reference per OCCURRENCE of a blank node in the quad (the reading the model and the
    # driver's `x.reading` statistic assume); any other body must be re-read by a human
    m3 = re.search(r"for component in iter_spog\(quad\.spog\(\)\) \{(.*?)\n    \}\n    // Step 3", src, re.S)
    if not m3:
        raise ExtractError("step 2 component loop not found in %s" % REL)
    body2 = re.sub(r'"[^"]*"', '""', re.sub(r"\s+", "", re.sub(r"//[^\n]*", "", m3.group(1))))
    per_occurrence = ('ifcomponent.is_triple()||component.is_variable(){returnErr(C14nError::Unsupported("".to_string(),));}'
                      'ifletSome(bnid)=component.bnode_id(){state.b2q.entry(Rc::from(bnid.as_str())).or_default().push(quad);}}')
    if body2 != per_occurrence:
        raise ExtractError("step 2.1 (filing quads under blank nodes) changed in %s: %s" % (REL, body2[:300]))
    out = [HEADER, "namespace SophiaModel.Gen\n",
           "/-- `true`: `smaller_path` compares lengths first (the shipped code); `false`: it is the skip rule of\n"
           "RDFC-1.0 4.8.3 steps 5.4.4.3 / 5.4.5.5 (`path1.len() <= path2.len() && path1 < path2`) -/\n",
           "def smallerPathLengthFirst : Bool := %s\n" % ("true" if length_first else "false"),
           "/-- `true`: step 2 of `relabel_with` rejects every non-IRI predicate with `Unsupported` (after the\n"
           "blank-predicate test); `false`: only blank node predicates are rejected there (the shipped code) -/\n",
           "def predicateMustBeIri : Bool := %s\n" % ("true" if must_be_iri else "false"),
           "/-- step 2.1 files a quad under a blank node once per OCCURRENCE of the node in the quad (text-checked) -/\n",
           "def refsPerOccurrence : Bool := true\n",
           "end SophiaModel.Gen\n"]
    return "".join(out), {"length_first": length_first, "predicate_must_be_iri": must_be_iri}


EXTRACTORS = {"rdfc10_smaller_path": ("Rdfc10Variant.lean", extract_smaller_path)}
