"""C05/C06: which pruning rule `rdfc10.rs::smaller_path` implements.

The model (lean/SophiaModel/Model/Rdfc10.lean) follows the code through the generated flag
`Gen.smallerPathLengthFirst`.  Exactly two bodies are recognised (fail-closed otherwise):
  (A) the shipped one:   match Ord::cmp(&path1.len(), &path2.len()) { Less => true, Equal => path1 < path2, Greater => false }
  (B) the Recommendation's steps 5.4.4.3/5.4.5.5:   path1.len() <= path2.len() && path1 < path2
and both call sites must still be `!chosen_path.is_empty() && smaller_path(&chosen_path, &path)`.
`ExtractError`, `read`, `HEADER` are injected by tools/extract.py.
"""
import re

REL = "c14n/src/rdfc10.rs"


def extract_smaller_path(repo):
    src = read(repo, REL)
    m = re.search(r"fn smaller_path\(path1: &str, path2: &str\) -> bool \{(.*?)\n\}\n", src, re.S)
    if not m:
        raise ExtractError("fn smaller_path(path1: &str, path2: &str) -> bool not found in %s" % REL)
    body = re.sub(r"//[^\n]*", "", m.group(1))
    norm = re.sub(r"\s+", "", body)
    a = ("usestd::cmp::Ordering::{Equal,Greater,Less};matchOrd::cmp(&path1.len(),&path2.len())"
         "{Less=>true,Equal=>path1<path2,Greater=>false,}")
    b = "path1.len()<=path2.len()&&path1<path2"
    if norm == a:
        length_first = True
    elif norm == b:
        length_first = False
    else:
        raise ExtractError("unrecognised body of smaller_path in %s: %s" % (REL, norm[:200]))
    calls = re.findall(r"if !chosen_path\.is_empty\(\) && smaller_path\(&chosen_path, &path\) \{\s*return Ok\(\(\)\);", src)
    if len(calls) != 2 or src.count("smaller_path(") != 3:
        raise ExtractError("call sites of smaller_path changed in %s (found %d guarded calls, %d mentions)"
                           % (REL, len(calls), src.count("smaller_path(")))
    if not re.search(r"if chosen_path\.is_empty\(\) \|\| path < chosen_path \{", src):
        raise ExtractError("step 5.4.6 selection changed in %s" % REL)
    out = [HEADER, "namespace SophiaModel.Gen\n",
           "/-- `true`: `smaller_path` compares lengths first (the shipped code); `false`: it is the skip rule of\n"
           "RDFC-1.0 4.8.3 steps 5.4.4.3 / 5.4.5.5 (`path1.len() <= path2.len() && path1 < path2`) -/\n",
           "def smallerPathLengthFirst : Bool := %s\n" % ("true" if length_first else "false"),
           "end SophiaModel.Gen\n"]
    return "".join(out), {"length_first": length_first}


EXTRACTORS = {"rdfc10_smaller_path": ("Rdfc10Variant.lean", extract_smaller_path)}
